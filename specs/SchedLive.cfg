SPECIFICATION FairSpec
CHECK_DEADLOCK FALSE
PROPERTY Terminates
