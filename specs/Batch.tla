-------------------------------- MODULE Batch --------------------------------
(* C11 - batch lifecycle: pending -> flushed | cancelled, once; no item left pending.

   One family of batches of one kind per behaviour.  `kind` ("own" = a BatchBase subclass of the harness with an
   active-batch pointer, "debug" = the built-in DebugBatch/DebugBatchItem) and the behaviour of the flush body
   (`body`) are chosen in Init and never change; one action per public operation; a flush is three steps, as in the
   code: FlushSwitch (the batch stops being the active one), FlushBody (the body runs), FlushEnd (leftover items are
   completed, then the batch's own completion is announced).  The result the property PRESCRIBES for an operation
   is recorded in `hist` ("any" = the property is silent); TLC enumerates every operation history up to Depth and
   every history is replayed into the real objects (harness/check_c11.py, replay_c11.py).

   batches are numbered in creation order (a new one is created whenever the active one stops being active);
   operations address batches 1..MaxB only, items are numbered per batch in creation order (<= MaxI per batch).
   item outcome: [k |-> "unset"|"val"|"err", c |-> code]; codes: value of item i of batch b = "v<b>.<i>";
     "ie" error the body sets on an item, "fe" Exception raised by the body, "fb" BaseException subclass raised by
     the body, "ce" error passed to cancel(), "bce" BatchCancelledError (cancel() without argument),
     "notset" = AssertionError saying the value was not set.
   bodies: all = set every item; some = set odd items only; evens = set even items only (a hole before a set item);
     lastraise = set the last item, then raise "fe"; none = set nothing; ierr = set_error("ie") on odd
     items, values on even ones; raise / braise = set item 1, then raise "fe" / "fb"; new = create a new item
     (through the active-batch pointer) and then set every own item.
     f<s>-<how> = a body that finishes its own batch half-way: it sets item 1 first (s = 1) or nothing (s = 0), then
     calls self.cancel("ce") (how = cancel_e), self.cancel() (cancel), self.set_error("se") (seterr) or
     self.set_value(None) (setval).  What the body does afterwards - return, raise, try to set more items (which
     raises FutureIsAlreadyComputed out of the body) - is not a dimension of the model: the batch has made its one
     transition, so every ending has the same prescribed results (the harness replays every such history with each
     ending).  Likewise the model has no debug-option dimension: every history is replayed under the default
     options, with ENABLE_COMPLEX_ASSERTIONS off and with KEEP_DEPENDENCIES on, against the same prescriptions.
   announcements recorded per operation (field a of a history record), in order: "n<b>.<i>" an item was created by
     the flush body and joined batch b; "i<b>.<i>=<code>" on_computed of an item; "b<b>=<code>" on_computed of the
     batch ("ok" = no error).  The order among consecutive item announcements is not prescribed (canonical: by index). *)
EXTENDS Naturals, Sequences, FiniteSets, TLC, Json, IOUtils

Depth == IF "DEPTH" \in DOMAIN IOEnv THEN atoi(IOEnv.DEPTH) ELSE 4
MaxI  == IF "MAXI" \in DOMAIN IOEnv THEN atoi(IOEnv.MAXI) ELSE 2
MaxB  == 2
MaxQuiet == IF "MAXQUIET" \in DOMAIN IOEnv THEN atoi(IOEnv.MAXQUIET) ELSE 2   \* longest run of operations that change nothing
PlainBodies == {"all", "some", "evens", "none", "ierr", "raise", "braise", "lastraise", "new"}
FinBodies == {"f0-cancel_e", "f1-cancel_e", "f0-cancel", "f1-cancel", "f0-seterr", "f1-seterr", "f0-setval", "f1-setval"}
Bodies == PlainBodies \cup FinBodies
FinS(bd) == IF bd \in {"f1-cancel_e", "f1-cancel", "f1-seterr", "f1-setval"} THEN 1 ELSE 0      \* sets item 1 first
FinOut(bd) == CASE bd \in {"f0-cancel_e", "f1-cancel_e"} -> "ce" [] bd \in {"f0-cancel", "f1-cancel"} -> "bce"
                [] bd \in {"f0-seterr", "f1-seterr"} -> "se" [] OTHER -> "ok"                       \* the batch's outcome
FinSt(bd) == IF bd \in {"f0-cancel_e", "f1-cancel_e", "f0-cancel", "f1-cancel"} THEN "cancelled" ELSE "flushed"

VARIABLES kind, body, pre, st, out, items, active, runs, log, cur, hist
vars == <<kind, body, pre, st, out, items, active, runs, log, cur, hist>>
(* pre    : number of requests already made (items of batch 1) when the history starts: 0 or 2
   st[b]  : "pending" | "flushing" | "flushed" | "cancelled"
   out[b] : "none" while unfinished, "ok", or the code of the flush / cancellation error
   items[b] : sequence of item outcomes;  active : the batch new items join;  runs[b] : executions of the flush body
   log    : every completion announcement so far, in order: [k |-> "item"|"batch", b, i]
   cur    : the flush in progress (operation that started it, batch, item, stage, item made by the body) or NoCur *)

Unset   == [k |-> "unset", c |-> "-"]
Val(b, i) == [k |-> "val", c |-> "v" \o ToString(b) \o "." \o ToString(i)]
Err(c)  == [k |-> "err", c |-> c]
NoCur   == [o |-> "-", b |-> 0, i |-> 0, stage |-> "-", mb |-> 0, mi |-> 0]

NB == Len(st)
Targets == 1..(IF NB < MaxB THEN NB ELSE MaxB)
Finished(b) == st[b] \in {"flushed", "cancelled"}
Idle == cur = NoCur /\ Len(hist) < Depth

IEntry(b, i, c) == "i" \o ToString(b) \o "." \o ToString(i) \o "=" \o c
BEntry(b, c)    == "b" \o ToString(b) \o "=" \o c
NEntry(b, i)    == "n" \o ToString(b) \o "." \o ToString(i)

(* what the flush body does to item i of batch b, and how it ends *)
BodySets(bd, b, i, n) ==
  CASE bd \in {"all", "new"} -> Val(b, i)
    [] bd = "some" -> IF i % 2 = 1 THEN Val(b, i) ELSE Unset
    [] bd = "evens" -> IF i % 2 = 0 THEN Val(b, i) ELSE Unset                     \* leaves a hole BEFORE a set item
    [] bd = "none" -> Unset
    [] bd = "ierr" -> IF i % 2 = 1 THEN Err("ie") ELSE Val(b, i)
    [] bd \in {"raise", "braise"} -> IF i = 1 THEN Val(b, i) ELSE Unset
    [] bd = "lastraise" -> IF i = n THEN Val(b, i) ELSE Unset                     \* sets the LAST item, then raises
    [] bd \in FinBodies -> IF i = 1 /\ FinS(bd) = 1 THEN Val(b, i) ELSE Unset
BodyEnds(bd) == CASE bd \in {"raise", "lastraise"} -> "fe" [] bd = "braise" -> "fb" [] OTHER -> "ok"

FinPre == IF "FINPRE" \in DOMAIN IOEnv THEN IOEnv.FINPRE ELSE "*"  \* "2": self-finishing bodies only with 2 requests already made
Only == IF "ONLY" \in DOMAIN IOEnv THEN IOEnv.ONLY ELSE "*"      \* "<kind>/<body>" restricts a run to one configuration
\* debug/new: the built-in DebugBatch, with a follow-up request issued from the completion callback of its first item
\* (so: while the batch is being flushed, and only if it has an item)
Init == /\ \E kb \in ({"own"} \X Bodies) \cup {<<"debug", "all">>, <<"debug", "new">>} :
             kind = kb[1] /\ body = kb[2] /\ (Only = "*" \/ Only = kb[1] \o "/" \o kb[2])
        /\ pre \in (IF body \in FinBodies /\ FinPre = "2" THEN {2} ELSE {0, 2})
        /\ st = <<"pending">> /\ out = <<"none">> /\ items = << [j \in 1..pre |-> Unset] >> /\ runs = <<0>> /\ active = 1
        /\ log = <<>> /\ cur = NoCur /\ hist = <<>>

(* body executions are observable on the harness's own subclass only *)
RunsOf(b) == IF kind = "debug" \/ b = 0 THEN 0 - 1 ELSE runs[b]
Rec(o, b, i, r, a) == [o |-> o, b |-> b, i |-> i, r |-> r, a |-> a, n |-> RunsOf(b)]
RecN(o, b, i, r, a, n) == [o |-> o, b |-> b, i |-> i, r |-> r, a |-> a, n |-> IF kind = "debug" THEN 0 - 1 ELSE n]

(* the batch stops being the active one: a fresh pending batch takes over *)
SwitchFrom(b, newst) ==
  IF active = b
  THEN /\ st' = Append([st EXCEPT ![b] = newst], "pending")
       /\ active' = NB + 1
  ELSE /\ st' = [st EXCEPT ![b] = newst]
       /\ active' = active
Grow(f, b, x, fresh) == IF active = b THEN Append([f EXCEPT ![b] = x], fresh) ELSE [f EXCEPT ![b] = x]

(* Operations that change nothing (reads, and flush / cancel / direct construction on a finished batch) commute
   in the model, so consecutive ones are explored in one canonical order only (strictly increasing rank) and in runs of at
   most MaxQuiet; every such operation is still tried in every reachable state. *)
OpRank(o) == CASE o = "flush" -> 1 [] o = "cancel" -> 2 [] o = "cancel_e" -> 3 [] o = "direct" -> 4
               [] o = "bvalue" -> 5 [] o = "berror" -> 6 [] o = "ivalue" -> 7 [] o = "query" -> 8 [] OTHER -> 0
Rank(o, b, i) == OpRank(o) * 100 + b * 10 + i
Changes(l) == l.o = "add" \/ l.a # <<>>          \* the recorded operation changed the state
InOrder(o, b, i) ==
  IF hist = <<>> THEN TRUE
  ELSE LET l == hist[Len(hist)]
       IN IF Changes(l) THEN TRUE
          ELSE IF Len(hist) >= MaxQuiet /\ (\A q \in (Len(hist) - MaxQuiet + 1)..Len(hist) : ~Changes(hist[q])) THEN FALSE
          ELSE Rank(l.o, l.b, l.i) < Rank(o, b, i)

(* ---- operations ---- *)

(* a new request: joins the active batch, which is pending *)
AddItem == /\ Idle /\ Len(items[active]) < MaxI
           /\ items' = [items EXCEPT ![active] = Append(@, Unset)]
           /\ hist' = Append(hist, Rec("add", 0, 0, <<"joined", active, Len(items[active]) + 1>>, <<>>))
           /\ UNCHANGED <<kind, body, pre, st, out, active, runs, log, cur>>

(* constructing an item directly on a finished batch fails *)
Direct(b) == /\ Idle /\ Finished(b) /\ InOrder("direct", b, 0)
             /\ hist' = Append(hist, Rec("direct", b, 0, <<"raised", "AssertionError">>, <<>>))
             /\ UNCHANGED <<kind, body, pre, st, out, items, active, runs, log, cur>>

(* flush(), item.value(), batch.value(), batch.error() on a pending batch all start the one and only flush *)
FlushSwitch(o, b, i) ==
  /\ Idle /\ st[b] = "pending"
  /\ SwitchFrom(b, "flushing")
  /\ out' = Grow(out, b, out[b], "none") /\ items' = Grow(items, b, items[b], <<>>) /\ runs' = Grow(runs, b, runs[b], 0)
  /\ cur' = [o |-> o, b |-> b, i |-> i, stage |-> "body", mb |-> 0, mi |-> 0]
  /\ UNCHANGED <<kind, body, pre, log, hist>>

FlushBody ==
  /\ cur # NoCur /\ cur.stage = "body"
  /\ LET b == cur.b
         n == Len(items[b])
         mine == [j \in 1..n |-> BodySets(body, b, j, n)]
         setnow == {j \in 1..n : mine[j] # Unset}
         ann == [q \in 1..Cardinality(setnow) |->
                   [k |-> "item", b |-> b, i |-> CHOOSE j \in setnow : Cardinality({x \in setnow : x < j}) = q - 1]]
         (* a body that finishes its own batch: the batch makes its one transition here, inside the body - leftover
            items are completed with the error (or "not set" after set_value), then the batch is announced *)
         fe == FinOut(body)
         fleft == {j \in 1..n : mine[j] = Unset}
         ffinal == [j \in 1..n |-> IF j \in fleft THEN (IF fe = "ok" THEN Err("notset") ELSE Err(fe)) ELSE mine[j]]
         fann == [q \in 1..Cardinality(fleft) |->
                   [k |-> "item", b |-> b, i |-> CHOOSE j \in fleft : Cardinality({x \in fleft : x < j}) = q - 1]]
     IN /\ runs' = [runs EXCEPT ![b] = @ + 1]
        /\ IF body \in FinBodies
           THEN /\ items' = [items EXCEPT ![b] = ffinal]
                /\ log' = log \o ann \o fann \o << [k |-> "batch", b |-> b, i |-> 0] >>
                /\ st' = [st EXCEPT ![b] = FinSt(body)] /\ out' = [out EXCEPT ![b] = fe]
                /\ cur' = [cur EXCEPT !.stage = "end"]
           ELSE /\ IF body = "new" /\ (kind = "own" \/ n >= 1)
                   THEN /\ items' = [[items EXCEPT ![active] = Append(@, Unset)] EXCEPT ![b] = mine]
                        /\ cur' = [cur EXCEPT !.stage = "end", !.mb = active, !.mi = Len(items[active]) + 1]
                   ELSE /\ items' = [items EXCEPT ![b] = mine]
                        /\ cur' = [cur EXCEPT !.stage = "end"]
                /\ log' = log \o ann
                /\ UNCHANGED <<st, out>>
  /\ UNCHANGED <<kind, body, pre, active, hist>>

FlushEnd ==
  /\ cur # NoCur /\ cur.stage = "end"
  /\ LET b == cur.b
         n == Len(items[b])
         done == Finished(b)      \* the body finished the batch itself: however the body ends, nothing more happens
         e == IF done THEN out[b] ELSE BodyEnds(body)
         left == {j \in 1..n : items[b][j] = Unset}
         final == [j \in 1..n |-> IF j \in left THEN (IF e = "ok" THEN Err("notset") ELSE Err(e)) ELSE items[b][j]]
         ann == [q \in 1..Cardinality(left) |->
                   [k |-> "item", b |-> b, i |-> CHOOSE j \in left : Cardinality({x \in left : x < j}) = q - 1]]
         made == IF cur.mb = 0 THEN <<>> ELSE <<NEntry(cur.mb, cur.mi)>>
         a == made \o [j \in 1..n |-> IEntry(b, j, final[j].c)] \o <<BEntry(b, e)>>
         r == CASE cur.o = "flush"  -> <<"ok">>                                   \* never raises for a failing body
                [] cur.o = "ivalue" -> <<final[cur.i].k, final[cur.i].c>>          \* the item's own outcome
                [] cur.o = "bvalue" -> IF e = "ok" THEN <<"ok">> ELSE <<"err", e>>
                [] cur.o = "berror" -> <<"errq", e>>
     IN /\ items' = [items EXCEPT ![b] = final]
        /\ log' = (IF done THEN log ELSE log \o ann \o << [k |-> "batch", b |-> b, i |-> 0] >>)
        /\ st' = (IF done THEN st ELSE [st EXCEPT ![b] = "flushed"])
        /\ out' = [out EXCEPT ![b] = e]
        /\ hist' = Append(hist, RecN(cur.o, b, cur.i, r, a, runs[b]))
        /\ cur' = NoCur
  /\ UNCHANGED <<kind, body, pre, active, runs>>

(* flush() on a batch that is not pending: the body must not run again; BatchingError after a flush *)
FlushAgain(b) ==
  /\ Idle /\ Finished(b) /\ InOrder("flush", b, 0)
  /\ hist' = Append(hist, Rec("flush", b, 0, IF st[b] = "flushed" THEN <<"raised", "BatchingError">> ELSE <<"any">>, <<>>))
  /\ UNCHANGED <<kind, body, pre, st, out, items, active, runs, log, cur>>

(* cancel(): never raises; completes every item with the cancellation error, then the batch; no-op when finished *)
Cancel(b, e) ==
  /\ Idle /\ (IF Finished(b) THEN e = "bce" /\ InOrder("cancel", b, 0) ELSE TRUE)   \* on a finished batch the argument cannot matter: one form
  /\ LET o == IF e = "ce" THEN "cancel_e" ELSE "cancel"
         n == Len(items[b])
     IN IF st[b] = "pending"
        THEN /\ SwitchFrom(b, "cancelled")
             /\ out' = Grow(out, b, e, "none") /\ items' = Grow(items, b, [j \in 1..n |-> Err(e)], <<>>)
             /\ runs' = Grow(runs, b, runs[b], 0)
             /\ log' = log \o [j \in 1..n |-> [k |-> "item", b |-> b, i |-> j]] \o << [k |-> "batch", b |-> b, i |-> 0] >>
             /\ hist' = Append(hist, Rec(o, b, 0, <<"ok">>, [j \in 1..n |-> IEntry(b, j, e)] \o <<BEntry(b, e)>>))
        ELSE /\ hist' = Append(hist, Rec(o, b, 0, <<"ok">>, <<>>))
             /\ UNCHANGED <<st, out, items, active, runs, log>>
  /\ UNCHANGED <<kind, body, pre, cur>>

(* reads on a finished batch / an item of a finished batch report the recorded outcome and change nothing *)
ItemValueDone(b, i) ==
  /\ Idle /\ Finished(b) /\ InOrder("ivalue", b, i)
  /\ hist' = Append(hist, Rec("ivalue", b, i, <<items[b][i].k, items[b][i].c>>, <<>>))
  /\ UNCHANGED <<kind, body, pre, st, out, items, active, runs, log, cur>>
BatchReadDone(o, b) ==
  /\ Idle /\ Finished(b) /\ InOrder(o, b, 0)
  /\ hist' = Append(hist, Rec(o, b, 0, IF o = "berror" THEN <<"errq", out[b]>>
                                       ELSE IF out[b] = "ok" THEN <<"ok">> ELSE <<"err", out[b]>>, <<>>))
  /\ UNCHANGED <<kind, body, pre, st, out, items, active, runs, log, cur>>

(* is_flushed, is_cancelled, is_empty, is_computed *)
TF(x) == IF x THEN "t" ELSE "f"
Query(b) ==
  /\ Idle /\ InOrder("query", b, 0)
  /\ LET p == st[b] = "pending"
         fl == IF p THEN "f" ELSE IF st[b] = "flushed" THEN "t" ELSE "any"
         ca == IF p THEN "f" ELSE IF st[b] = "cancelled" THEN "t" ELSE IF out[b] = "ok" THEN "f" ELSE "any"
         em == IF p THEN TF(Len(items[b]) = 0) ELSE "any"
     IN hist' = Append(hist, Rec("query", b, 0, <<"q", fl, ca, em, TF(~p)>>, <<>>))
  /\ UNCHANGED <<kind, body, pre, st, out, items, active, runs, log, cur>>

Next == \/ AddItem \/ FlushBody \/ FlushEnd
        \/ \E b \in Targets :
             \/ FlushSwitch("flush", b, 0) \/ FlushSwitch("bvalue", b, 0) \/ FlushSwitch("berror", b, 0)
             \/ FlushAgain(b) \/ Direct(b) \/ Cancel(b, "ce") \/ Cancel(b, "bce") \/ Query(b)
             \/ BatchReadDone("bvalue", b) \/ BatchReadDone("berror", b)
             \/ \E i \in 1..Len(items[b]) : FlushSwitch("ivalue", b, i) \/ ItemValueDone(b, i)
Spec == Init /\ [][Next]_vars

(* ---- the property, on the model ---- *)
Batches == 1..NB
(* exactly one transition out of pending, and a finished batch stays what it is *)
OneTransition ==
  [][\A b \in Batches : st'[b] # st[b] =>
        \/ st[b] = "pending" /\ st'[b] \in {"flushing", "cancelled"}
        \/ st[b] = "flushing" /\ st'[b] \in {"flushed", "cancelled"}]_vars
OutcomeStable ==
  [][\A b \in Batches : /\ out[b] # "none" => out'[b] = out[b]
                        /\ \A i \in 1..Len(items[b]) : items[b][i] # Unset => items'[b][i] = items[b][i]]_vars
(* no item can be added to a finished batch *)
NoItemIntoFinished == [][\A b \in Batches : Finished(b) => Len(items'[b]) = Len(items[b])]_vars
(* the flush body runs exactly once for a flushed batch, never for a pending one, and for a cancelled one only
   if it was its own body that cancelled it *)
BodyRunsOnce == \A b \in Batches : /\ runs[b] <= 1
                                   /\ st[b] = "flushed" => runs[b] = 1
                                   /\ st[b] = "pending" => runs[b] = 0
                                   /\ st[b] = "cancelled" /\ body \notin FinBodies => runs[b] = 0
(* when a batch finishes every item is complete, and was announced before the batch's own announcement *)
NoItemLeftPending == \A b \in Batches : Finished(b) => \A i \in 1..Len(items[b]) : items[b][i] # Unset
ItemsBeforeBatch ==
  \A p \in 1..Len(log) : log[p].k = "batch" =>
     \A i \in 1..Len(items[log[p].b]) : \E q \in 1..(p - 1) : log[q] = [k |-> "item", b |-> log[p].b, i |-> i]
AnnouncedOnce ==
  /\ \A p, q \in 1..Len(log) : log[p] = log[q] => p = q
  /\ \A b \in Batches : Finished(b) <=> \E p \in 1..Len(log) : log[p] = [k |-> "batch", b |-> b, i |-> 0]
(* item outcome precedence: value/error set by the body, else the flush or cancellation error, else "not set" *)
Precedence ==
  \A b \in Batches : \A i \in 1..Len(items[b]) :
     Finished(b) =>
          items[b][i] = IF runs[b] = 1 /\ BodySets(body, b, i, Len(items[b])) # Unset THEN BodySets(body, b, i, Len(items[b]))
                        ELSE IF out[b] # "ok" THEN Err(out[b]) ELSE Err("notset")
(* the batch stops being the active one before its body runs; items made by the body join a fresh pending batch *)
ActiveMovedBeforeBody == cur # NoCur => /\ active # cur.b /\ st[active] = "pending"
                                        /\ cur.mb # 0 => cur.mb # cur.b /\ st[cur.mb] = "pending"
ActiveIsPending == st[active] = "pending" /\ \A b \in Batches : st[b] = "pending" => b = active

(* every maximal history is exported: full length, or no operation left to try *)
Export == (cur = NoCur /\ ~ENABLED Next) => PrintT(ToJson([kind |-> kind, body |-> body, pre |-> pre, h |-> hist]))
=============================================================================
