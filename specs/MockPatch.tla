----------------------------- MODULE MockPatch -----------------------------
(* C19 - asynq.mock.patch replaces every calling convention and always restores.

   Attribute slots of a scratch module: target 1 is a module function / method / classmethod / staticmethod /
   plain attribute (chosen in Init together with the way it is named: patch("mod.attr") or patch.object(obj,
   "attr")); with TWO=1 there is a second target, another @asynq() module function.  slots[t] = 0 means the
   ORIGINAL object of the current holder, slots[t] = k that the k-th patcher is the innermost active one on t.
   pat[k] = the k-th PATCHER OBJECT (style, replacement kind, target, the replacement object it was given, the
   holder generation it last saw, what it saved at its last activation); act = the active patchers in
   activation order.  One action per public operation; the result the property PRESCRIBES is recorded in hist;
   TLC enumerates every history up to Depth and harness/replay_c19.py performs each of them with the real
   asynq.mock.patch and compares.

   Call(convention) is scheduled deterministically: after EVERY operation every target is called once through
   every convention that exists for what its slot holds; res[t] carries the prescribed outcome (convs / reach =
   the replacement OBJECT that must receive the call / bound).

   Dimensions: Enter creates a patcher (4 styles x 6 replacement kinds, or "the SAME replacement object as the
   previous patcher": one caller-supplied object shared by two patches); Leave ends the innermost block
   normally or by an exception; Stop / StopAll; with REUSE=1 a patcher that has ended is ACTIVATED AGAIN
   (Reenter: the decorated function / test method is called again, the with statement entered again, start()
   again) and the object holding the target may be re-created in between (Rehold: a dotted path names the
   current holder at every activation).  Exits are LIFO per target (the property speaks of nested and
   sequential patches); patches of different targets may be stopped in any order. *)
EXTENDS Naturals, Sequences, FiniteSets, TLC, Json, IOUtils

Flag(n)    == n \in DOMAIN IOEnv /\ IOEnv[n] = "1"
Depth      == IF "DEPTH" \in DOMAIN IOEnv THEN atoi(IOEnv.DEPTH) ELSE 4
MaxPatches == IF "PATCHES" \in DOMAIN IOEnv THEN atoi(IOEnv.PATCHES) ELSE 2
MaxNest    == IF "NEST" \in DOMAIN IOEnv THEN atoi(IOEnv.NEST) ELSE 2
Two        == Flag("TWO")                            \* a second target
Reuse      == Flag("REUSE")                          \* Reenter / Rehold
NT         == IF Two THEN 2 ELSE 1

Targets   == {"modfn", "meth", "cmeth", "smeth", "attr"}
Apis      == IF "API" \in DOMAIN IOEnv THEN {IOEnv.API} ELSE {"str", "obj"}
Block     == {"with", "deco", "classdeco"}          \* styles that end by leaving a block
AllStyles == Block \cup {"start"}
AllRepls  == {"default", "function", "boundmeth", "callobj", "newcallable", "value"}
Descr     == {"classmethod", "staticmethod"}          \* classmethod(...) / staticmethod(...) OBJECTS as replacement
Shareable == {"function", "boundmeth", "callobj", "value"} \cup Descr     \* objects the caller supplies
ClassTargets == {"meth", "cmeth", "smeth"}           \* descriptor replacements only make sense in a class
(* smaller alphabets for the deeper / wider runs *)
Preset    == IF "PRESET" \in DOMAIN IOEnv THEN IOEnv.PRESET ELSE "full"
Styles    == CASE Preset \in {"full", "all"} -> AllStyles [] Preset = "mid" -> {"with", "start"} [] OTHER -> {"with", "deco", "start"}
Repls     == CASE Preset = "full" -> AllRepls
               [] Preset = "all" -> AllRepls \cup Descr
               [] Preset = "small" -> {"default", "function", "value"}
               [] Preset = "descr" -> Descr \cup {"function", "default"}
               [] OTHER -> {"default", "function", "callobj", "value"}          \* "mid" (with/start), "mid3" (with/deco/start)
(* "gather": three .asyncio(...) coroutines with different arguments are created first and awaited together *)
Convs     == <<"sync", "asynq", "yield", "asyncio", "gather">>

VARIABLES target, api, slots, act, pat, gen, hist
vars == <<target, api, slots, act, pat, gen, hist>>

Init == /\ target \in (IF Preset = "descr" THEN ClassTargets ELSE Targets) /\ api \in Apis
        /\ slots = [t \in 1..NT |-> 0] /\ act = <<>> /\ pat = <<>> /\ gen = 0 /\ hist = <<>>

KindOf(t) == IF t = 1 THEN target ELSE "modfn"
ActiveOn(a, p, t) == {i \in 1..Len(a) : p[a[i]].tgt = t}              \* positions in act
TopOf(a, p, t) == a[CHOOSE i \in ActiveOn(a, p, t) : \A j \in ActiveOn(a, p, t) : j <= i]
Remove(a, k) == SelectSeq(a, LAMBDA x : x # k)
LastOp == IF hist = <<>> THEN "none" ELSE hist[Len(hist)].op

(* what an observer sees in the slot: the original (of the current holder), the non-callable value object
   installed AS IS, or "something else" (a mock / a wrapper around the replacement - identity not prescribed) *)
SlotTok(p, s) == IF s = 0 THEN "orig" ELSE IF p[s].repl = "value" THEN "val" \o ToString(p[s].obj) ELSE "other"

(* the calling conventions that exist for what is in the slot: a non-callable value can only be read; the
   plain attribute is not an async function, only the synchronous call of a callable replacement is stated *)
ConvsOf(p, t, s) ==
  IF s # 0 /\ p[s].repl = "value" THEN <<"read">>
  ELSE IF KindOf(t) = "attr" THEN (IF s = 0 THEN <<"read">> ELSE <<"sync">>)
  ELSE Convs

(* the access paths through which a target is called: a method through an instance; a classmethod / staticmethod
   (target or replacement object) through the class and through an instance *)
PathsOf(p, t, s) ==
  CASE KindOf(t) \in {"cmeth", "smeth"} -> <<"cls", "inst">>
    [] KindOf(t) = "meth" -> (IF s # 0 /\ p[s].repl \in Descr THEN <<"cls", "inst">> ELSE <<"inst">>)
    [] KindOf(t) = "attr" -> <<"cls">>
    [] OTHER -> <<"direct">>

(* what one call through convention c and access path a reaches: the replacement OBJECT of the innermost active
   patch (the original otherwise) - the same for every convention and path.  Binding is Python's: a plain function
   stored in a class receives the instance it is reached through (so does the original method), a classmethod
   (original or replacement object) the class, a staticmethod / mock / callable object / bound method nothing. *)
Reach(p, t, s, c, a) ==
  [reach |-> IF s = 0 THEN 0 ELSE p[s].obj,
   bound |-> IF s = 0 THEN (CASE KindOf(t) = "meth" -> "inst" [] KindOf(t) = "cmeth" -> "cls" [] OTHER -> "none")
             ELSE CASE p[s].repl = "function" -> (IF a = "inst" THEN "inst" ELSE "none")
                    [] p[s].repl = "classmethod" -> "cls"
                    [] OTHER -> "none"]

Obs(p, sl) == [t \in 1..NT |->
  LET cs == ConvsOf(p, t, sl[t])
      ps == PathsOf(p, t, sl[t]) IN
  [slot |-> SlotTok(p, sl[t]), convs |-> cs, reach |-> Reach(p, t, sl[t], cs[1], ps[1]).reach,
   paths |-> [i \in 1..Len(ps) |-> [path |-> ps[i], bound |-> Reach(p, t, sl[t], cs[1], ps[i]).bound]]]]

Rec(op, style, repl, k, share, t, p, sl) ==
  [op |-> op, style |-> style, repl |-> repl, k |-> k, share |-> share, tgt |-> t, res |-> Obs(p, sl)]

Activate(k, p) ==       \* patcher k (described by p) saves what its target holds and installs its replacement
  /\ slots' = [slots EXCEPT ![p[k].tgt] = k]
  /\ pat' = [p EXCEPT ![k].saved = slots[p[k].tgt], ![k].gen = gen]
  /\ act' = Append(act, k)

Enter(style, repl, same, t) ==
  /\ Len(hist) < Depth /\ Len(act) < MaxNest /\ Len(pat) < MaxPatches
  /\ same => (pat # <<>> /\ pat[Len(pat)].repl = repl /\ repl \in Shareable)
  /\ repl \in Descr => KindOf(t) \in ClassTargets
  /\ LET k == Len(pat) + 1
         p == Append(pat, [style |-> style, repl |-> repl, tgt |-> t, gen |-> gen, saved |-> 0,
                           obj |-> IF same THEN pat[Len(pat)].obj ELSE k]) IN
       /\ Activate(k, p)
       /\ hist' = Append(hist, Rec("enter", style, repl, k, IF same THEN p[k].obj ELSE 0, t, pat', slots'))
  /\ UNCHANGED <<target, api, gen>>

Reenter(k) ==           \* the same patcher object is activated again
  /\ Reuse /\ Len(hist) < Depth /\ Len(act) < MaxNest
  /\ k \in 1..Len(pat) /\ \A i \in 1..Len(act) : act[i] # k
  /\ api = "str" \/ pat[k].gen = gen        \* patch.object keeps the holder it was given: nothing stated after Rehold
  /\ Activate(k, pat)
  /\ hist' = Append(hist, Rec("reenter", pat[k].style, pat[k].repl, k, 0, pat[k].tgt, pat', slots'))
  /\ UNCHANGED <<target, api, gen>>

Rehold ==               \* the object that holds the targets is re-created (a new module / class, new originals)
  /\ Reuse /\ Len(hist) < Depth /\ act = <<>> /\ LastOp # "rehold" /\ pat # <<>>
  /\ gen' = gen + 1
  /\ hist' = Append(hist, Rec("rehold", "none", "none", 0, 0, 1, pat, slots))
  /\ UNCHANGED <<target, api, slots, act, pat>>

Deactivate(op, k) ==    \* ending patcher k restores what it saved
  /\ slots' = [slots EXCEPT ![pat[k].tgt] = pat[k].saved]
  /\ act' = Remove(act, k)
  /\ hist' = Append(hist, Rec(op, pat[k].style, "none", k, 0, pat[k].tgt, pat, slots'))
  /\ UNCHANGED <<target, api, pat, gen>>

Blocks == {i \in 1..Len(act) : pat[act[i]].style \in Block}
Leave(op) ==            \* the innermost open block is left normally or by an exception
  /\ Len(hist) < Depth /\ Blocks # {}
  /\ LET k == act[CHOOSE i \in Blocks : \A j \in Blocks : j <= i] IN
       /\ k = TopOf(act, pat, pat[k].tgt)
       /\ Deactivate(op, k)

Stop(k) ==
  /\ Len(hist) < Depth /\ \E i \in 1..Len(act) : act[i] = k
  /\ pat[k].style = "start" /\ k = TopOf(act, pat, pat[k].tgt)
  /\ Deactivate("stop", k)

Started == {i \in 1..Len(act) : pat[act[i]].style = "start"}
StopAll ==              \* stops every start()ed patch, latest first
  /\ Len(hist) < Depth /\ Started # {}
  /\ \A i \in Started : \A j \in i..Len(act) : pat[act[j]].tgt = pat[act[i]].tgt => j \in Started
  /\ slots' = [t \in 1..NT |->
        LET st == {i \in Started : pat[act[i]].tgt = t} IN
        IF st = {} THEN slots[t] ELSE pat[act[CHOOSE i \in st : \A j \in st : i <= j]].saved]
  /\ act' = SelectSeq(act, LAMBDA x : pat[x].style # "start")
  /\ hist' = Append(hist, Rec("stopall", "start", "none", 0, 0, 1, pat, slots'))
  /\ UNCHANGED <<target, api, pat, gen>>

Next == \/ \E st \in Styles, r \in Repls, same \in BOOLEAN, t \in 1..NT : Enter(st, r, same, t)
        \/ \E k \in 1..MaxPatches : Reenter(k) \/ Stop(k)
        \/ Rehold \/ Leave("exit_normal") \/ Leave("exit_exception") \/ StopAll
Spec == Init /\ [][Next]_vars

(* ---- the property, on the model ---- *)
Restored  == \A t \in 1..NT : ActiveOn(act, pat, t) = {} => slots[t] = 0      \* after the last exit: the original
Innermost == \A t \in 1..NT : ActiveOn(act, pat, t) # {} => slots[t] = TopOf(act, pat, t)
SavedChain ==                                             \* each active patch saved what was there before it
  \A i \in 1..Len(act) :
    LET t == pat[act[i]].tgt
        below == {j \in ActiveOn(act, pat, t) : j < i} IN
    pat[act[i]].saved = IF below = {} THEN 0 ELSE act[CHOOSE j \in below : \A l \in below : l <= j]
ConventionsAgree ==                                       \* all conventions reach the same object, bound alike
  \A t \in 1..NT :
    LET cs == ConvsOf(pat, t, slots[t])
        ps == PathsOf(pat, t, slots[t]) IN
    \A a, b \in 1..Len(cs) : \A i, j \in 1..Len(ps) :
      /\ Reach(pat, t, slots[t], cs[a], ps[i]) = Reach(pat, t, slots[t], cs[b], ps[i])       \* per path: identical
      /\ Reach(pat, t, slots[t], cs[a], ps[i]).reach = Reach(pat, t, slots[t], cs[b], ps[j]).reach
OriginalIffRestored ==
  \A i \in 1..Len(hist) : \A t \in 1..NT : (hist[i].res[t].slot = "orig") <=> (hist[i].res[t].reach = 0)
NonCallableAsIs ==
  \A i \in 1..Len(hist) : hist[i].op \in {"enter", "reenter"} /\ hist[i].repl = "value" =>
    LET r == hist[i].res[hist[i].tgt] IN
    r.convs = <<"read">> /\ \E j \in 1..Len(pat) : r.slot = "val" \o ToString(j)
ReactivationReplaces ==                                   \* every activation of a patcher installs its replacement
  [][(Len(act') > Len(act)) => LET k == act'[Len(act')] IN slots'[pat'[k].tgt] = k]_vars

Terminal == Len(hist) = Depth \/ (~Reuse /\ hist # <<>> /\ act = <<>> /\ Len(pat) = MaxPatches)
Export == Terminal => PrintT(ToJson([h |-> hist, target |-> target, api |-> api, two |-> IF Two THEN 1 ELSE 0]))
=============================================================================
