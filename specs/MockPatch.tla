----------------------------- MODULE MockPatch -----------------------------
(* C19 - asynq.mock.patch replaces every calling convention and always restores.

   One attribute slot (module function / method / classmethod / staticmethod / plain attribute of a scratch
   module, chosen in Init together with the way the target is named: patch("mod.attr") or patch.object(obj,
   "attr")).  slot = 0 means the ORIGINAL object, slot = k the replacement installed by the k-th patch.
   stack = the active patches, innermost last, each with the object it saved on entry.  One action per public
   operation; the result the property PRESCRIBES is recorded in hist; TLC enumerates every history up to Depth
   and harness/replay_c19.py performs each of them with the real asynq.mock.patch and compares.

   Call(convention) is scheduled deterministically: after EVERY operation (and before the first) the target is
   called once through every convention that exists for what the slot holds, so every history record carries
   the prescribed outcome of those calls (res.convs / res.reach / res.bound; the call through convs[i] is made
   with the positional argument i and the keyword argument y = step number).

   Exits are LIFO (the property speaks of NESTED and SEQUENTIAL patches): Leave ends the innermost with-block /
   decorated function / decorated test class method normally or by an exception, Stop stops the innermost
   start()ed patch, StopAll is offered when the start()ed patches are exactly the top of the stack. *)
EXTENDS Naturals, Sequences, FiniteSets, TLC, Json, IOUtils

Depth      == IF "DEPTH" \in DOMAIN IOEnv THEN atoi(IOEnv.DEPTH) ELSE 4
MaxPatches == IF "PATCHES" \in DOMAIN IOEnv THEN atoi(IOEnv.PATCHES) ELSE 2
MaxNest    == IF "NEST" \in DOMAIN IOEnv THEN atoi(IOEnv.NEST) ELSE 2

Targets   == {"modfn", "meth", "cmeth", "smeth", "attr"}
Apis      == IF "API" \in DOMAIN IOEnv THEN {IOEnv.API} ELSE {"str", "obj"}
Block     == {"with", "deco", "classdeco"}          \* styles that end by leaving a block
AllStyles == Block \cup {"start"}
AllRepls  == {"default", "function", "boundmeth", "callobj", "newcallable", "value"}
(* the thorough tier's deeper run (3 patches, nesting 3) uses a smaller alphabet: PRESET=small *)
Small     == "PRESET" \in DOMAIN IOEnv /\ IOEnv.PRESET = "small"
Styles    == IF Small THEN {"with", "deco", "start"} ELSE AllStyles
Repls     == IF Small THEN {"default", "function", "value"} ELSE AllRepls
Convs     == <<"sync", "asynq", "yield", "asyncio">>

VARIABLES target, api, slot, stack, kinds, hist
vars == <<target, api, slot, stack, kinds, hist>>
(* kinds[k] = replacement kind of the k-th patch (Len(kinds) = number of patches entered so far) *)

Init == /\ target \in Targets /\ api \in Apis
        /\ slot = 0 /\ stack = <<>> /\ kinds = <<>> /\ hist = <<>>

Top == stack[Len(stack)]

(* what an observer sees in the slot: the original, the non-callable value of patch k installed AS IS, or
   "something else" (a mock / a wrapper around the replacement - its identity is not prescribed) *)
SlotTok(ks, s) == IF s = 0 THEN "orig" ELSE IF ks[s] = "value" THEN "val" \o ToString(s) ELSE "other"

(* the calling conventions that exist for what is in the slot: a non-callable value can only be read; the
   plain attribute is not an async function, only the synchronous call of a callable replacement is stated *)
ConvsOf(ks, s) ==
  IF s # 0 /\ ks[s] = "value" THEN <<"read">>
  ELSE IF target = "attr" THEN (IF s = 0 THEN <<"read">> ELSE <<"sync">>)
  ELSE Convs

(* what one call through convention c reaches: whatever is in the slot (= the innermost replacement while a
   patch is active, the original otherwise) - the same for every convention.  Python binds a plain function
   stored in a class to the instance it is reached through (so does the original method); nothing else binds. *)
Reach(ks, s, c) ==
  [reach |-> s, bound |-> IF target = "meth" /\ (s = 0 \/ ks[s] = "function") THEN "inst" ELSE "none"]

Rec(op, style, repl, k, ks, s) ==
  [op |-> op, style |-> style, repl |-> repl, k |-> k,
   res |-> [slot |-> SlotTok(ks, s), convs |-> ConvsOf(ks, s),
            reach |-> Reach(ks, s, ConvsOf(ks, s)[1]).reach, bound |-> Reach(ks, s, ConvsOf(ks, s)[1]).bound]]

Enter(style, repl) ==
  /\ Len(hist) < Depth /\ Len(stack) < MaxNest /\ Len(kinds) < MaxPatches
  /\ LET k == Len(kinds) + 1 IN
       /\ kinds' = Append(kinds, repl)
       /\ stack' = Append(stack, [k |-> k, style |-> style, saved |-> slot])
       /\ slot' = k
       /\ hist' = Append(hist, Rec("enter", style, repl, k, kinds', k))
  /\ UNCHANGED <<target, api>>

Leave(op) ==      \* leaving the innermost block normally or by an exception restores what that patch saved
  /\ Len(hist) < Depth /\ stack # <<>> /\ Top.style \in Block
  /\ slot' = Top.saved
  /\ stack' = SubSeq(stack, 1, Len(stack) - 1)
  /\ hist' = Append(hist, Rec(op, Top.style, "none", Top.k, kinds, slot'))
  /\ UNCHANGED <<target, api, kinds>>

Stop ==
  /\ Len(hist) < Depth /\ stack # <<>> /\ Top.style = "start"
  /\ slot' = Top.saved
  /\ stack' = SubSeq(stack, 1, Len(stack) - 1)
  /\ hist' = Append(hist, Rec("stop", "start", "none", Top.k, kinds, slot'))
  /\ UNCHANGED <<target, api, kinds>>

Started == {i \in 1..Len(stack) : stack[i].style = "start"}
StopAll ==        \* stops every start()ed patch, innermost first
  /\ Len(hist) < Depth /\ stack # <<>> /\ Top.style = "start"
  /\ \A i \in Started : \A j \in i..Len(stack) : j \in Started
  /\ LET low == CHOOSE i \in Started : \A j \in Started : i <= j IN
       /\ slot' = stack[low].saved
       /\ stack' = SubSeq(stack, 1, low - 1)
       /\ hist' = Append(hist, Rec("stopall", "start", "none", stack[low].k, kinds, slot'))
  /\ UNCHANGED <<target, api, kinds>>

Next == \/ \E st \in Styles, r \in Repls : Enter(st, r)
        \/ Leave("exit_normal") \/ Leave("exit_exception") \/ Stop \/ StopAll
Spec == Init /\ [][Next]_vars

(* ---- the property, on the model ---- *)
Restored  == stack = <<>> => slot = 0                      \* after the last exit, by any path: the original
Innermost == stack # <<>> => slot = Top.k                  \* while active: the innermost replacement
SavedChain == \A i \in 1..Len(stack) : stack[i].saved = IF i = 1 THEN 0 ELSE stack[i - 1].k
RestoreStep ==                                             \* every exit restores exactly what was replaced
  [][Len(stack') < Len(stack) => slot' = stack[Len(stack') + 1].saved]_vars
ConventionsAgree ==                                        \* all conventions reach the same object, bound alike
  LET cs == ConvsOf(kinds, slot) IN
  \A a, b \in 1..Len(cs) : Reach(kinds, slot, cs[a]) = Reach(kinds, slot, cs[b])
OriginalIffRestored == \A i \in 1..Len(hist) : (hist[i].res.slot = "orig") <=> (hist[i].res.reach = 0)
NonCallableAsIs ==
  \A i \in 1..Len(hist) : hist[i].op = "enter" /\ hist[i].repl = "value" =>
    hist[i].res.slot = "val" \o ToString(hist[i].k) /\ hist[i].res.convs = <<"read">>

Terminal == Len(hist) = Depth \/ (hist # <<>> /\ stack = <<>> /\ Len(kinds) = MaxPatches)
Export == Terminal => PrintT(ToJson([h |-> hist, target |-> target, api |-> api]))
=============================================================================
