SPECIFICATION Spec
CHECK_DEADLOCK FALSE
INVARIANT LexEqSeq
INVARIANT RestoredAtEnd
INVARIANT Isolation
INVARIANT SiblingSeesOuter
INVARIANT CalleeSeesOverride
INVARIANT ParentReads
INVARIANT HistRestores
INVARIANT HistInnermost
INVARIANT HistSavedChain
INVARIANT Export
