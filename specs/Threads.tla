------------------------------ MODULE Threads ------------------------------
(* C16 - computations on different threads never interfere.

   asynq keeps its per-thread state in thread-local cells: the scheduler (task stack, active task) in
   scheduler._state, the debug-batch registry in batching._debug_batch_state, the profiler buffer in
   profiler._state; the deduplicate registry is one process-wide dict whose keys contain the thread.
   This specification runs N copies of one abstract computation script, interleaved arbitrarily, over
   those cells; every cell is either per-thread (a function of the thread) or - if named in Shared -
   one variable for all threads.  With Shared = {} (what the code is meant to be) TLC shows that every
   observation a thread makes equals the observation of its solo run and mentions only its own tasks
   and items (C16.own); with any cell shared TLC finds an interference, which shows the invariant is
   not vacuous (Threads_shared_*.cfg, run by bin/selftest-specs). *)
EXTENDS Naturals, Sequences, FiniteSets, TLC

CONSTANTS N, Shared      \* Shared \subseteq {"stack", "active", "dbatch", "prof", "dedupkey"}
Thread == 1..N
Script == <<"begin", "item", "dedup", "item", "prof", "suspend", "flush", "resume", "readactive", "prof", "end">>

VARIABLES pc, stack, active, dbatch, prof, dedup, obs
vars == <<pc, stack, active, dbatch, prof, dedup, obs>>
(* every cell is a function of a "slot": the thread itself, or 0 when the cell is shared *)
Slot(c, h) == IF c \in Shared THEN 0 ELSE h
Slots == 0..N
Task(h) == <<"task", h>>
Item(h, i) == <<"item", h, i>>
Key(h) == IF "dedupkey" \in Shared THEN <<"k">> ELSE <<"k", h>>

Init == /\ pc = [h \in Thread |-> 1]
        /\ stack = [s \in Slots |-> <<>>]
        /\ active = [s \in Slots |-> <<"none">>]
        /\ dbatch = [s \in Slots |-> {}]
        /\ prof = [s \in Slots |-> 0]
        /\ dedup = {}                      \* set of <<key, task>>
        /\ obs = [h \in Thread |-> <<>>]

Observe(h, x) == obs' = [obs EXCEPT ![h] = Append(@, x)]

Step(h) ==
  /\ pc[h] <= Len(Script)
  /\ pc' = [pc EXCEPT ![h] = @ + 1]
  /\ LET op == Script[pc[h]]
         nitems == Cardinality({i \in 1..pc[h] : Script[i] = "item"}) IN
     CASE op = "begin" ->
            /\ stack' = [stack EXCEPT ![Slot("stack", h)] = Append(@, Task(h))]
            /\ active' = [active EXCEPT ![Slot("active", h)] = Task(h)]
            /\ UNCHANGED <<dbatch, prof, dedup, obs>>
       [] op = "item" ->
            /\ dbatch' = [dbatch EXCEPT ![Slot("dbatch", h)] = @ \cup {Item(h, nitems)}]
            /\ UNCHANGED <<stack, active, prof, dedup, obs>>
       [] op = "dedup" ->          \* DeduplicateDecorator.asynq: share the in-flight task registered under the key
            /\ IF \E d \in dedup : d[1] = Key(h)
               THEN /\ Observe(h, <<"dedup", (CHOOSE d \in dedup : d[1] = Key(h))[2]>>)
                    /\ UNCHANGED dedup
               ELSE /\ dedup' = dedup \cup {<<Key(h), Task(h)>>}
                    /\ Observe(h, <<"dedup", Task(h)>>)
            /\ UNCHANGED <<stack, active, dbatch, prof>>
       [] op = "prof" ->
            /\ prof' = [prof EXCEPT ![Slot("prof", h)] = @ + 1]
            /\ UNCHANGED <<stack, active, dbatch, dedup, obs>>
       [] op = "suspend" ->
            /\ active' = [active EXCEPT ![Slot("active", h)] = <<"none">>]
            /\ UNCHANGED <<stack, dbatch, prof, dedup, obs>>
       [] op = "flush" ->          \* the scheduler flushes the thread's active debug batch: which items travel in it?
            /\ Observe(h, <<"flush", dbatch[Slot("dbatch", h)]>>)
            /\ dbatch' = [dbatch EXCEPT ![Slot("dbatch", h)] = {}]
            /\ UNCHANGED <<stack, active, prof, dedup>>
       [] op = "resume" ->
            /\ active' = [active EXCEPT ![Slot("active", h)] = Task(h)]
            /\ UNCHANGED <<stack, dbatch, prof, dedup, obs>>
       [] op = "readactive" ->
            /\ Observe(h, <<"active", active[Slot("active", h)]>>)
            /\ UNCHANGED <<stack, active, dbatch, prof, dedup>>
       [] op = "end" ->
            /\ Observe(h, <<"end", stack[Slot("stack", h)], prof[Slot("prof", h)]>>)
            /\ stack' = [stack EXCEPT ![Slot("stack", h)] = IF @ = <<>> THEN @ ELSE SubSeq(@, 1, Len(@) - 1)]
            /\ active' = [active EXCEPT ![Slot("active", h)] = <<"none">>]
            /\ prof' = [prof EXCEPT ![Slot("prof", h)] = 0]
            /\ dedup' = {d \in dedup : d[1] # Key(h)}
            /\ UNCHANGED dbatch

Next == \E h \in Thread : Step(h)
Spec == Init /\ [][Next]_vars

(* what thread h observes when it runs alone *)
Solo(h) == << <<"dedup", Task(h)>>, <<"flush", {Item(h, 1), Item(h, 2)}>>, <<"active", Task(h)>>, <<"end", <<Task(h)>>, 2>> >>
IsPrefix(s, t) == Len(s) <= Len(t) /\ \A i \in 1..Len(s) : s[i] = t[i]
C16_own == \A h \in Thread : IsPrefix(obs[h], Solo(h))
=============================================================================
