---------------------------- MODULE AsyncioBridge ----------------------------
(* C15 - awaiting fn.asyncio() on an asyncio event loop gives what fn() gives.

   The batch-free fragment of P-lang (PLang.tla): tasks whose segments end in  yield <struct> [catch] | return | raise,
   structures over  T(child task)  C(constant future)  N(None)  Tup Lst Dct  nested at will, tree-shaped.
   PLang!TaskOut is the sequential oracle (what fn() returns or raises, C01/C02).

   ENGINE B (this module) is the asyncio side, written independently of the oracle:
     * one coroutine per task; Start creates the root coroutine (the driver awaits root.asyncio());
     * Step(t) runs coroutine t from where it stands to its next yield or to its end.  A yield of a structure is a
       gather: a coroutine is created for every T leaf, they run in ANY interleaving (Step of any runnable
       coroutine may come next - the event loop's order is not prescribed), t is resumed only when ALL of them are
       done; then the first failure in structure order is thrown in at the yield (caught there if the segment says
       so, else it ends t), otherwise the resolved structure - same shape - is sent in;
     * the asyncio-mode flag lives in a context: the driver's context 0, and one private context per gathered child
       (a copy taken when it is created; a single awaited child runs in its parent's context).  A coroutine switches
       the flag on when it begins and restores what it found when it ends, on every exit path.
   TLC checks for every program of the family (IOEnv.PROGS, entries [prog |-> ...]) and every interleaving:
     SameOutcome          every finished coroutine has the oracle's outcome
     AwaitedToCompletion  a coroutine that is not waiting has no unfinished child; nothing is left on the loop at the end
     ModeConfined         flag off in the driver before and after (also after a failure), on wherever a body runs
     SyncRefused          every executed segment ran with the flag on (where a plain synchronous call must raise RuntimeError)
   Before the asyncio run the thread may have an asynq-mode history with the functions involved (action Before): the
   prescribed outcome does not depend on it.
   Entries may carry  trace |-> <<<<t, k>>, ...>>  recorded from the real event loop (k = segment begun, 0 = body left);
   then only that step order is explored, and the entry is exported only if the real order is a behaviour of engine B. *)
EXTENDS PLang, Json, IOUtils

Entries == JsonDeserialize(IOEnv.PROGS)

VARIABLES pid, co, cm, l, refused, pre
vars == <<pid, co, cm, l, refused, pre>>

P == Entries[pid].prog
N == NTasks(P)
Root == P.calls[1].root
Traced == "trace" \in DOMAIN Entries[pid]
Trace == Entries[pid].trace

Seg(t, k) == P.tasks[t].segs[k]
RECURSIVE TLeaves(_)
TLeaves(s) == IF IsContainer(s) THEN UNION {TLeaves(s.xs[i]) : i \in 1..Len(s.xs)}
              ELSE IF s.g = "T" THEN {s.n} ELSE {}
RECURSIVE LeafTags(_)
LeafTags(s) == IF IsContainer(s) THEN UNION {LeafTags(s.xs[i]) : i \in 1..Len(s.xs)} ELSE {s.g}
Kids(t, k) == IF Seg(t, k).term.k = "yield" THEN TLeaves(Seg(t, k).term.s) ELSE {}

(* the fragment C15 speaks about *)
Fragment == /\ TreeShaped(P) /\ Len(P.calls) = 1
            /\ \A t \in 1..N : \A k \in 1..Len(P.tasks[t].segs) :
                  /\ Seg(t, k).ops = <<>>
                  /\ Seg(t, k).term.k \in {"yield", "return", "raise"}
                  /\ Seg(t, k).term.k = "yield" => LeafTags(Seg(t, k).term.s) \subseteq {"T", "C", "N"}
                  /\ Seg(t, k).term.k = "yield" <=> k < Len(P.tasks[t].segs)

(* gather: the resolved structure, or the first failure in structure order; o[u] = outcome of child u *)
RECURSIVE Gather(_, _)
Gather(s, o) ==
  IF IsContainer(s) THEN
     LET rs == [i \in 1..Len(s.xs) |-> Gather(s.xs[i], o)]
         fails == {i \in 1..Len(s.xs) : IsX(rs[i])}
     IN IF fails # {} THEN rs[CHOOSE i \in fails : \A j \in fails : i <= j]
        ELSE Val(LowerTag(s.g), 0, rs)
  ELSE IF s.g = "T" THEN o[s.n]
  ELSE IF s.g = "C" THEN VC(s.n)
  ELSE VNone

Absent == [st |-> "absent", pc |-> 1, recvs |-> <<>>, out |-> VNone, ctx |-> 0, tok |-> FALSE, par |-> 0]

Init == /\ pid \in 1..Len(Entries)
        /\ co = [t \in 1..Len(Entries[pid].prog.tasks) |-> Absent]
        /\ cm = [c \in 0..Len(Entries[pid].prog.tasks) |-> FALSE]
        /\ l = 1 /\ refused = TRUE /\ pre = "unset"

Follows(evs) == IF Traced THEN l + Len(evs) - 1 <= Len(Trace) /\ \A i \in 1..Len(evs) : Trace[l + i - 1] = evs[i]
                ELSE TRUE
Advance(evs) == l' = IF Traced THEN l + Len(evs) ELSE l

(* What asynq-mode code did on this thread BEFORE the asyncio run with a function the computation reaches through a
   wrapper that keeps a registry of tasks (tools.deduplicate): nothing; created a task for the same function and
   arguments that never ran (it stays registered); ran one to completion; created one for other arguments.
   Engine B has no such registry: inside the asyncio run child.asynq(...) is a coroutine of that child, so all four
   histories lead to the same Start and the prescribed outcome is the same after each of them. *)
PreKinds == {"none", "created", "computed", "other"}
Before(kind) == /\ pre = "unset" /\ co[Root].st = "absent"
                /\ IF "pre" \in DOMAIN Entries[pid] THEN kind = Entries[pid].pre ELSE TRUE     \* a recorded run says which
                /\ pre' = kind
                /\ UNCHANGED <<pid, co, cm, l, refused>>

Start == /\ co[Root].st = "absent" /\ ~cm[0] /\ pre \in PreKinds
         /\ pre' = "gone"
         /\ co' = [co EXCEPT ![Root] = [Absent EXCEPT !.st = "ready", !.tok = cm[0]]]
         /\ cm' = [cm EXCEPT ![0] = TRUE]
         /\ UNCHANGED <<pid, l, refused>>

Runnable(t) == \/ co[t].st = "ready"
               \/ co[t].st = "waiting" /\ \A u \in Kids(t, co[t].pc) : co[u].st = "done"

(* coroutine t leaves its body with outcome v: the flag of its context is restored *)
Leave(t, v, evs) ==
  /\ Follows(evs) /\ Advance(evs)
  /\ co' = [co EXCEPT ![t] = [@ EXCEPT !.st = "done", !.out = v]]
  /\ cm' = [cm EXCEPT ![co[t].ctx] = co[t].tok]

(* run segment k of t having received rv so far *)
RunSeg(t, k, rv) ==
  LET tm == Seg(t, k).term IN
  /\ refused' = (refused /\ cm[co[t].ctx])
  /\ CASE tm.k = "yield" ->
            LET kids == TLeaves(tm.s)
                alone == ~IsContainer(tm.s)          \* a single awaited child runs inside its parent's asyncio task
            IN /\ Follows(<<<<t, k>>>>) /\ Advance(<<<<t, k>>>>)
               /\ co' = [u \in 1..N |->
                           IF u = t THEN [co[t] EXCEPT !.st = "waiting", !.pc = k, !.recvs = rv]
                           ELSE IF u \in kids THEN [Absent EXCEPT !.st = "ready", !.par = t, !.tok = TRUE,
                                                                  !.ctx = IF alone THEN co[t].ctx ELSE u]
                           ELSE co[u]]
               /\ cm' = [c \in 0..N |-> IF c \in kids /\ ~alone THEN cm[co[t].ctx] ELSE cm[c]]
       [] tm.k = "return" -> Leave(t, Val("r", t, rv), <<<<t, k>>, <<t, 0>>>>)
       [] tm.k = "raise"  -> Leave(t, VX(10000 + t * 100 + k), <<<<t, k>>, <<t, 0>>>>)

Step(t) ==
  /\ Runnable(t)
  /\ UNCHANGED <<pid, pre>>
  /\ IF co[t].st = "ready" THEN RunSeg(t, co[t].pc, co[t].recvs)
     ELSE LET k == co[t].pc
              r == Gather(Seg(t, k).term.s, [u \in 1..N |-> co[u].out])
          IN IF IsX(r) /\ ~Seg(t, k).term.catch
             THEN Leave(t, r, <<<<t, 0>>>>) /\ UNCHANGED refused
             ELSE RunSeg(t, k + 1, Append(co[t].recvs, IF IsX(r) THEN Val("caught", r.n, <<>>) ELSE r))

Next == (\E kind \in PreKinds : Before(kind)) \/ (Start /\ Fragment) \/ \E t \in 1..N : Step(t)
Spec == Init /\ [][Next]_vars

(* ---- the property, on the model ---- *)
Live(t) == co[t].st \in {"ready", "waiting"}
Done == co[Root].st = "done"
SameOutcome == Done => \A t \in 1..N : co[t].st = "done" => co[t].out = TaskOut(P, t)    \* outcomes never change once set
AwaitedToCompletion ==
  /\ \A u \in 1..N : Live(u) /\ co[u].par # 0 =>
        co[co[u].par].st = "waiting" /\ u \in Kids(co[u].par, co[co[u].par].pc)
  /\ Done => \A u \in 1..N : ~Live(u)
ModeConfined == /\ (co[Root].st = "absent" \/ Done) => ~cm[0]
                /\ \A t \in 1..N : Live(t) => cm[co[t].ctx]
SyncRefused == refused
InFragment == Fragment

Export == (Done /\ (Traced => l = Len(Trace) + 1)) =>
             PrintT(ToJson([pid |-> pid, out |-> co[Root].out, ref |-> TaskOut(P, Root),
                            mode_after |-> IF cm[0] THEN 1 ELSE 0, refused |-> IF refused THEN 1 ELSE 0,
                            traced |-> IF Traced THEN 1 ELSE 0, pres |-> PreKinds]))
=============================================================================
