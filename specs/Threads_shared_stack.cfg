SPECIFICATION Spec
CHECK_DEADLOCK FALSE
CONSTANT N = 2
CONSTANT Shared = {"stack"}
INVARIANT C16_own
