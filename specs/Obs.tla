-------------------------------- MODULE Obs --------------------------------
(* The abstract OBSERVABLE state of an asynq thread and the property clauses C01-C08 over it.

   Step(S, e) consumes one observable event e (appendix A of DESIGN.md; the same events are emitted
   by the implementation-shaped model Sched.tla and recorded from the real code by harness/realize.py)
   and returns [S |-> next abstract state, bad |-> set of clause ids that e violates].  It is TOTAL:
   a violated clause never blocks the monitor, so one verdict names every failed clause of a trace.

   Clause ids are "<property>.<clause>"; a check for property X looks only at X's clauses. *)
EXTENDS Rounds

Upd(f, k, v) == [x \in (DOMAIN f) \cup {k} |-> IF x = k THEN v ELSE f[x]]
SeqWithout(s, x) == SelectSeq(s, LAMBDA y : y # x)
IfBad(cond, id) == IF cond THEN {} ELSE {id}          \* clause holds <=> cond

EmptyFn == [x \in {} |-> 0]

InitObs(P) ==
  [ prog  |-> P,
    ref   |-> IF SeqDomain(P) THEN [t \in 1..NTasks(P) |-> TaskOut(P, t)] ELSE <<>>,
    ts    |-> EmptyFn,      \* task -> [st, seg, ys, catch, thrown, by, ord]
    fut   |-> EmptyFn,      \* future -> [done, v, u]
    item  |-> EmptyFn,      \* item future -> batch
    iinfo |-> EmptyFn,      \* item future -> [comp |-> computation (outermost call) that created it, own |-> creating task]
    bat   |-> EmptyFn,      \* batch -> [kind, st, items, nbefore, nafter, nbegin, sched]
    ctx   |-> EmptyFn,      \* context -> [owner, st, ty]
    cstk  |-> <<>>,         \* active contexts of the thread in resume order
    run   |-> <<>>,         \* running chain of task bodies (top executes; below: synchronous callers)
    wait  |-> <<>>,         \* roots of the active waits, innermost last
    sync  |-> <<>>,         \* <<caller, callee>> of the active synchronous calls
    fresh |-> {},           \* tasks created by the segment that is running now
    prio  |-> EmptyFn,      \* batch -> <<base, n, tb>> reported in the current selection round
    prov  |-> EmptyFn,      \* lazy future -> number of provider runs
    dreg  |-> EmptyFn,      \* C12: (function, key) -> the in-flight deduplicated task, as the property defines it
    aband |-> {},           \* tasks given up because their computation was ended from outside (runaway-recursion reset, raising flush())
    abandfl |-> {},         \* ... those of them given up because BatchBase.flush() itself raised
    closing |-> {},         \* tasks whose suspended generator is being closed right now (Closed seen, Done not yet)
    killed |-> {},          \* tasks completed from outside by a `fail` op
    assigned |-> {},        \* <<task, variable>>: the task assigned to the variable inside its override; its own reads are not judged until the override is next resumed
    fl    |-> <<>>,         \* compositions (sets of items) of the scheduler's flushes so far
    ovf   |-> FALSE,        \* a synchronous call has just failed with the runaway-recursion RuntimeError (scheduler reset)
    nflush |-> 0,           \* scheduler flushes of the current outermost call
    nonlifo |-> FALSE,      \* the program itself left a context out of order (not the innermost open one of its task): C07.lifo is not judged
    clk   |-> 0,            \* virtual clock: advances by t at the start of every segment of task t and by 1 at its end (only task code takes time)
    tm    |-> EmptyFn,      \* AsyncTimer context -> [acc |-> time the property says it was active for, loose |-> the property does not say]
    ncall |-> 0 ]

(* ---------------- derived notions -------------------------------------------------------------- *)
Tasks(S) == DOMAIN S.ts
IsTask(S, f) == f \in DOMAIN S.ts
FutDone(S, f) == f \in DOMAIN S.fut /\ S.fut[f].done
Awaits(S, t) == IF S.ts[t].st = "waiting" THEN Leaves(S.ts[t].ys) ELSE {}
SyncCallees(S, t) == {S.sync[i][2] : i \in {j \in 1..Len(S.sync) : S.sync[j][1] = t}}
Succ(S, t) == (Awaits(S, t) \cap Tasks(S)) \cup SyncCallees(S, t)

RECURSIVE ReachFrom(_, _, _)          \* tasks reachable from the set 'front', never entering 'avoid'
ReachFrom(S, seen, avoid) ==
  LET nxt == (UNION {Succ(S, t) : t \in seen \cap Tasks(S)}) \ (seen \cup avoid)
  IN IF nxt = {} THEN seen ELSE ReachFrom(S, seen \cup nxt, avoid)
Reach(S, r) == ReachFrom(S, {r}, {})
ReachAvoid(S, r, o) == IF r = o THEN {} ELSE ReachFrom(S, {r}, {o})

ItemUnflushed(S, f) == f \in DOMAIN S.item /\ ~FutDone(S, f) /\ S.bat[S.item[f]].st = "pending"
RECURSIVE BlockedFix(_, _)
BlockedFix(S, B) ==
  LET B2 == B \cup {t \in Tasks(S) : Succ(S, t) \cap B # {}}
  IN IF B2 = B THEN B ELSE BlockedFix(S, B2)
Blocked(S) == BlockedFix(S, {t \in Tasks(S) : \E f \in Awaits(S, t) : ItemUnflushed(S, f)})

AwaitedItem(S, f) == \E t \in Tasks(S) \ S.aband : f \in Awaits(S, t) /\ ~FutDone(S, t)
OnChain(S, o) == o \in Range(S.run) \/ \E r \in Range(S.run) : r \in Reach(S, o)
OpenCtx(S) == {c \in DOMAIN S.ctx : S.ctx[c].st \in {"on", "off"}}
Parents(S, u) == {t \in Tasks(S) : u \in Succ(S, t)}

LexLE3(p, q) == \/ p[1] < q[1]
                \/ p[1] = q[1] /\ p[2] < q[2]
                \/ p[1] = q[1] /\ p[2] = q[2] /\ p[3] <= q[3]
StaticPrio(S, b) == <<S.prog.kinds[S.bat[b].kind].base, Len(S.bat[b].items)>>

(* ---------------- clause groups ----------------------------------------------------------------*)
(* C06.run / C07.read are evaluated whenever the body of task u is observed running *)
CtxRunClauses(S, u) ==
  IF ~NoFaultyCtx(S.prog) \/ S.wait = <<>> THEN {} ELSE
  LET root == S.wait[1]
      reach == Reach(S, root)
  IN IF u \notin reach THEN {} ELSE
     UNION { LET o == S.ctx[c].owner
                 mustOn == o = u \/ u \notin ReachAvoid(S, root, o)
                 mustOff == o # u /\ u \notin Reach(S, o)
             IN IfBad(mustOn => S.ctx[c].st = "on", "C06.run.on") \cup
                IfBad(mustOff => S.ctx[c].st = "off", "C06.run.off")
           : c \in {c \in OpenCtx(S) : S.ctx[c].ty # "nonasync"} }

(* AsyncTimer (a library AsyncContext): the time it reports is the time spent in code during which C06 says the context
   is active - the owner's own code and the tasks only it awaits.  A segment of a task the owner shares with others
   is not covered by the property: the timer is then left unjudged. *)
TimerTick(S, u, w) ==
  IF S.wait = <<>> THEN [c \in DOMAIN S.tm |-> [S.tm[c] EXCEPT !.loose = TRUE]] ELSE
  LET root == S.wait[1]
      reach == Reach(S, root)
  IN [c \in DOMAIN S.tm |->
        IF c \notin OpenCtx(S) THEN S.tm[c]
        ELSE LET o == S.ctx[c].owner
                 mustOn == u \in reach /\ (o = u \/ u \notin ReachAvoid(S, root, o))
                 mustOff == u \in reach /\ o # u /\ u \notin Reach(S, o)
             IN IF mustOn THEN [S.tm[c] EXCEPT !.acc = @ + w]
                ELSE IF mustOff THEN S.tm[c]
                ELSE [S.tm[c] EXCEPT !.loose = TRUE]]

(* the innermost enclosing override of variable x seen from running task u, for tree-shaped programs:
   walk from u up through its unique parents *)
RECURSIVE UniqueChain(_, _, _)     \* every task from u up to a root is awaited by exactly one task
UniqueChain(S, u, n) ==
  LET ps == Parents(S, u) IN
  IF n = 0 \/ ps = {} THEN TRUE ELSE Cardinality(ps) = 1 /\ UniqueChain(S, CHOOSE p \in ps : TRUE, n - 1)
RECURSIVE AncChain(_, _, _)
AncChain(S, u, n) ==          \* <<u, parent(u), ...>> ; stops at a root or after n steps
  LET ps == Parents(S, u) IN
  IF n = 0 \/ ps = {} THEN <<u>> ELSE <<u>> \o AncChain(S, CHOOSE p \in ps : TRUE, n - 1)
HasOwnOverride(S, u, x) ==
  \E c \in DOMAIN S.ctx : /\ S.ctx[c].owner = u /\ S.ctx[c].st \in {"on", "off", "new"}
                           /\ S.ctx[c].ty \in (IF x < 100 THEN {"override", "oapi"} ELSE {"attr"})
                           /\ S.prog.ctxs[c].var = (IF x < 100 THEN x ELSE x - 100)
ExpectedRead(S, u, x) ==
  LET chain == AncChain(S, u, Cardinality(Tasks(S)))
      \* contexts overriding x that are entered and not left, per task of the chain
      isOv(c) == S.ctx[c].st \in {"on", "off", "new"} /\ S.ctx[c].ty \in (IF x < 100 THEN {"override", "oapi"} ELSE {"attr"})
                 /\ S.prog.ctxs[c].var = (IF x < 100 THEN x ELSE x - 100)
      ofTask(t) == {c \in DOMAIN S.ctx : S.ctx[c].owner = t /\ isOv(c)}
      firstWith == {i \in 1..Len(chain) : ofTask(chain[i]) # {}}
  IN IF firstWith = {} THEN (IF x < 100 THEN SvDefault(S.prog, x) ELSE 0)
     ELSE LET i == CHOOSE i \in firstWith : \A j \in firstWith : i <= j
              cs == ofTask(chain[i])
              c == CHOOSE c \in cs : \A d \in cs : S.ctx[d].ord <= S.ctx[c].ord   \* entered last
          IN S.prog.ctxs[c].val

(* ---------------- the monitor step -------------------------------------------------------------*)
TaskRec(by) == [st |-> "created", seg |-> 0, ys |-> Val("N", 0, <<>>), catch |-> FALSE, thrown |-> 0, by |-> by, ord |-> <<>>]
FutRec(d, v, u) == [done |-> d, v |-> v, u |-> u]

Step(S, e) ==
  LET P == S.prog IN
  CASE e.e = "CallBegin" ->
        [S |-> [S EXCEPT !.wait = Append(@, e.t), !.nflush = IF S.wait = <<>> THEN 0 ELSE @, !.ncall = @ + 1],
         bad |-> {}]

    [] e.e = "Create" ->
        [S |-> [S EXCEPT !.ts = Upd(@, e.t, TaskRec(e.a)), !.fut = Upd(@, e.t, FutRec(FALSE, VNone, 0)),
                         !.fresh = @ \cup {e.t}],
         bad |-> IfBad(e.t \notin DOMAIN S.ts, "H.create")]

    [] e.e = "SegBegin" ->
        IF e.t \notin DOMAIN S.ts THEN [S |-> S, bad |-> {"H.unknown_task"}] ELSE
        LET T == S.ts[e.t]
            uw == UnwrapR(T.ys, S.fut)
            isExc == IsX(e.v)
            first == e.k = 1
            lazyOk == \/ e.t \in Range(S.wait)
                      \/ \E p \in Tasks(S) : S.ts[p].seg >= 1 /\ S.ts[p].st \in {"waiting", "running"} /\ e.t \in Succ(S, p)
            \* C03.order: some awaiting parent wrote, in one list/tuple, an earlier fresh task that has not started
            orderBad == \E p \in Tasks(S) : S.ts[p].st = "waiting" /\
                          LET o == S.ts[p].ord IN
                          \E j \in 1..Len(o) : o[j] = e.t /\ (\A i \in 1..(j - 1) : o[i] # e.t) /\ \E i \in 1..(j - 1) :
                               /\ S.ts[o[i]].seg = 0 /\ ~FutDone(S, o[i])
                               /\ Parents(S, o[i]) = {p} /\ Parents(S, e.t) = {p}
                               /\ o[i] \notin Range(S.wait) /\ e.t \notin Range(S.wait)
            S0 == [S EXCEPT !.ts[e.t].st = "running", !.ts[e.t].seg = e.k, !.ts[e.t].thrown = 0,
                            !.ts[e.t].ys = Val("N", 0, <<>>),
                            !.run = Append(@, e.t), !.fresh = {}]
            S1 == [S0 EXCEPT !.clk = @ + e.t, !.tm = TimerTick(S0, e.t, e.t)]
            bads ==
              IfBad(e.k = T.seg + 1 /\ T.st \in {"created", "waiting"} /\ ~FutDone(S, e.t), "C03.once") \cup
              IfBad(e.xs = <<>> /\ \A f \in Leaves(T.ys) : FutDone(S, f), "C03.ready") \cup
              IfBad(first => lazyOk, "C03.lazy") \cup
              IfBad(first => ~orderBad, "C03.order") \cup
              IfBad(e.a = e.t, "C08.active") \cup
              (IF first THEN IfBad(e.v = VNone, "C01.recv")
               ELSE IF isExc
                    THEN IfBad(IsX(uw.v) /\ uw.v = e.v, "C02.first") \cup
                         IfBad(IsX(uw.v) /\ ~uw.bad => uw.u = e.u, "C02.same") \cup
                         IfBad(uw.bad => e.v = VX(50000), "C02.type") \cup
                         IfBad(e.xs = <<>> /\ \A f \in Leaves(T.ys) : FutDone(S, f), "C02.after")
                    ELSE IfBad(~IsX(uw.v), "C02.deliver") \cup
                         IfBad(IsX(uw.v) \/ uw.v = e.v, "C01.recv")) \cup
              CtxRunClauses(S1, e.t)
        IN [S |-> IF isExc /\ ~(T.catch /\ ~IsBaseX(e.v)) THEN [S1 EXCEPT !.ts[e.t].thrown = e.u] ELSE S1, bad |-> bads]

    [] e.e = "SegEnd" ->
        IF e.t \notin DOMAIN S.ts THEN [S |-> S, bad |-> {"H.unknown_task"}] ELSE
        LET isYield == e.b = 1
            seg == P.tasks[e.t].segs[e.k]
            \* order written = order of first occurrences; tasks also named below a dict are left out (no order is promised)
            indict == DictLeaves(e.s, FALSE)
            ord == IF isYield THEN FirstOccurrences(SelectSeq(OrderedLeafSeq(e.s), LAMBDA f : f \in S.fresh /\ f \notin indict)) ELSE <<>>
            S1 == [S EXCEPT !.run = IF S.run # <<>> THEN Front(@) ELSE @, !.ovf = FALSE,
                            !.ts[e.t].st = IF isYield THEN "waiting" ELSE "ending",
                            !.ts[e.t].ys = IF isYield THEN e.s ELSE Val("N", 0, <<>>),
                            !.ts[e.t].catch = IF isYield THEN seg.term.catch ELSE FALSE,
                            !.ts[e.t].ord = ord,
                            !.fresh = {},
                            !.clk = @ + 1, !.tm = TimerTick(S, e.t, 1)]
        IN [S |-> S1,
            bad |-> IfBad(~S.ovf => e.a = e.t, "C08.active") \cup
                    IfBad(S.run # <<>> /\ Last(S.run) = e.t /\ S.ts[e.t].seg = e.k, "H.segend") \cup
                    CtxRunClauses(S, e.t)]

    [] e.e = "Done" ->
        LET f == e.a
            known == f \in DOMAIN S.fut
            S1 == [S EXCEPT !.fut = Upd(@, f, FutRec(TRUE, e.v, e.u)),
                            !.ts = IF f \in DOMAIN S.ts THEN [@ EXCEPT ![f].st = "done"] ELSE @,
                            !.closing = @ \ {f},
                            !.dreg = IF f \in DOMAIN S.ts /\ f <= NTasks(P) /\ HasDedup(P, f) /\ DedupKey(P, f) \in DOMAIN @
                                        /\ @[DedupKey(P, f)] = f
                                     THEN Upd(@, DedupKey(P, f), 0) ELSE @]
            taskBad ==
              IF f \notin DOMAIN S.ts THEN {} ELSE
              LET T == S.ts[f] IN
              IfBad((T.thrown # 0 /\ NoFaultyCtx(P)) => (IsX(e.v) /\ e.u = T.thrown), "C02.prop") \cup
              \* a task suspended at a yield is completed only by having the yield's outcome delivered into its code; the
              \* exceptions are failures raised by its own contexts when the scheduler suspends / resumes it
              IfBad((T.st = "waiting" /\ f \notin S.killed) => (IsX(e.v) /\ (e.v.n = 70000 \/ (e.v.n >= 90000 /\ e.v.n < 91000))), "C02.deliver") \cup
              (IF S.ref # <<>> THEN IfBad(e.v = S.ref[f], "C01.done") ELSE {}) \cup
              \* every context the task entered has been left, ending with a pause
              IfBad(\A c \in DOMAIN S.ctx : S.ctx[c].owner = f /\ S.ctx[c].ty \notin {"nonasync", "cleanup", "oapi"} /\ NoFaultyCtx(P)
                                            => S.ctx[c].st = "closed", "C06.alt.end") \cup
              \* ... and it fails it with AssertionError: a task completed while suspended inside a NonAsyncContext block
              \* (the block was still open when the generator was closed) carries that assertion, nothing else
              IfBad((T.st = "waiting" /\ f \notin S.killed /\ NoFaultyCtx(P) /\
                     \E c \in DOMAIN S.ctx : S.ctx[c].owner = f /\ S.ctx[c].ty = "nonasync" /\ S.ctx[c].st = "closed_by_close")
                    => e.v = VX(70000), "C06.nonasync.assert") \cup
              \* a NonAsyncContext fails the task only if it had to be suspended for a flush inside it
              IfBad((e.v = VX(70000) /\ \A g \in DOMAIN S.fut : S.fut[g].u # e.u) => (T.st = "waiting" /\ f \in Blocked(S) /\
                                        \* ... inside a NonAsyncContext block: one that was still open when the task was failed
                                        \E c \in DOMAIN S.ctx : S.ctx[c].owner = f /\ S.ctx[c].ty = "nonasync" /\ S.ctx[c].st = "closed_by_close"),
                    "C06.nonasync.only")
            itemBad ==
              IF f \notin DOMAIN S.item THEN {} ELSE
              LET b == S.item[f]
                  mode == P.kinds[S.bat[b].kind].flush
                  exp == ItemOut(mode, S.bat[b].kind, f)
              IN IfBad(S.bat[b].st \in {"flushing", "cancelling"}, "C05.items.when") \cup
                 IfBad(IF S.bat[b].st = "cancelling" THEN e.v = VX(32000 + S.bat[b].kind) ELSE e.v = exp, "C05.items.val")
        IN [S |-> S1, bad |-> IfBad(known /\ ~S.fut[f].done, "C10.once") \cup taskBad \cup itemBad]

    [] e.e = "NewBatch" ->
        [S |-> [S EXCEPT !.bat = Upd(@, e.b, [kind |-> e.a, st |-> "pending", items |-> <<>>, nbefore |-> 0,
                                              nafter |-> 0, nbegin |-> 0, sched |-> FALSE]),
                         !.fut = Upd(@, e.b, FutRec(FALSE, VNone, 0))],
         bad |-> {}]

    [] e.e = "NewItem" ->
        IF e.b \notin DOMAIN S.bat THEN [S |-> S, bad |-> {"H.unknown_batch"}] ELSE
        [S |-> [S EXCEPT !.item = Upd(@, e.a, e.b), !.bat[e.b].items = Append(@, e.a),
                         !.iinfo = Upd(@, e.a, [comp |-> S.ncall, own |-> e.t]),
                         !.fut = Upd(@, e.a, FutRec(FALSE, VNone, 0))],
         bad |-> IfBad(S.bat[e.b].st = "pending", "C11.additem")]

    [] e.e = "NewFut" ->
        [S |-> [S EXCEPT !.fut = Upd(@, e.a, FutRec(e.b \in {1, 2}, e.v, e.u))], bad |-> {}]

    [] e.e = "Provider" ->
        [S |-> [S EXCEPT !.prov = Upd(@, e.a, IF e.a \in DOMAIN S.prov THEN S.prov[e.a] + 1 ELSE 1)],
         bad |-> IfBad(e.a \notin DOMAIN S.prov, "C10.provider_once")]

    [] e.e = "Prio" ->
        [S |-> [S EXCEPT !.prio = Upd(@, e.b, e.xs)], bad |-> {}]

    [] e.e = "Before" ->
        IF e.b \notin DOMAIN S.bat THEN [S |-> S, bad |-> {"H.unknown_batch"}] ELSE
        LET B == S.bat[e.b]
            root == IF S.wait # <<>> THEN Last(S.wait) ELSE 0
            yo == YieldOnly(P)
            outer == IF S.wait # <<>> THEN S.wait[1] ELSE 0      \* in a yield-only program nothing waits inside a task: judge the whole computation
            pend == {b \in DOMAIN S.bat : b # e.b /\ S.bat[b].st = "pending" /\
                                         \E i \in 1..Len(S.bat[b].items) : AwaitedItem(S, S.bat[b].items[i])}
            prioOk(b) ==
              LET pb == StaticPrio(S, b)
                  pe == StaticPrio(S, e.b)
              IN IF pb # pe THEN LexLE3(<<pb[1], pb[2], 0>>, <<pe[1], pe[2], 0>>)
                 ELSE (b \in DOMAIN S.prio /\ e.b \in DOMAIN S.prio /\ Len(S.prio[b]) = 3 /\ Len(S.prio[e.b]) = 3)
                        => S.prio[b][3] <= S.prio[e.b][3]
            reach == IF root # 0 THEN Reach(S, IF yo THEN outer ELSE root) \cap Tasks(S) ELSE {}
            blk == Blocked(S)
            maxOk == \A t \in reach : FutDone(S, t) \/ (S.ts[t].seg > 0 /\ S.ts[t].st = "waiting" /\ t \in blk)
            S1 == [S EXCEPT !.bat[e.b].nbefore = @ + 1, !.bat[e.b].sched = TRUE, !.nflush = @ + 1, !.prio = EmptyFn]
            \* C08.fresh: a fresh scheduler has nothing scheduled, so every batch it flushes holds at least one request
            \* of the computation that is running now; otherwise the batch was retained from an earlier computation.
            \* The clause name says how the earlier owner of the stale requests ended.
            own1 == IF Len(B.items) > 0 THEN S.iinfo[B.items[1]].own ELSE 0
            staleWhy == IF own1 \in S.abandfl THEN "flushraise"
                        ELSE IF own1 \in S.aband THEN "overflow"
                        ELSE IF FutDone(S, own1) /\ IsX(S.fut[own1].v) /\ (S.fut[own1].v.n = 70000 \/ (S.fut[own1].v.n >= 90000 /\ S.fut[own1].v.n < 91000))
                             THEN "ctxfail" ELSE "other"
            stale == Len(B.items) > 0 /\ \A i \in 1..Len(B.items) : S.iinfo[B.items[i]].comp < S.ncall
        IN [S |-> S1,
            bad |-> IfBad(B.nbefore = 0 /\ B.nbegin = 0 /\ B.st = "pending", "C05.once") \cup
                    IfBad(Len(B.items) > 0, "C05.nonempty") \cup
                    IfBad(root # 0 /\ ~FutDone(S, root), "C05.live") \cup
                    (IF stale THEN {"C08.fresh.flush." \o staleWhy} ELSE {}) \cup
                    (IF yo THEN IfBad(\A b \in pend : prioOk(b), "C05.prio") \cup
                                IfBad(maxOk, "C04.max")
                     ELSE {}) \cup
                    \* every context of a task that is not on the running chain is paused
                    IfBad(NoFaultyCtx(P) => \A c \in DOMAIN S.ctx : (S.ctx[c].st = "on" /\ S.ctx[c].ty # "nonasync") => OnChain(S, S.ctx[c].owner),
                          "C06.flush") \cup
                    \* a task suspended for this flush inside a NonAsyncContext has been failed
                    IfBad(\A c \in DOMAIN S.ctx : (S.ctx[c].ty = "nonasync" /\ S.ctx[c].st \notin {"closed", "closed_by_close"} /\ ~OnChain(S, S.ctx[c].owner))
                                                  => (FutDone(S, S.ctx[c].owner) /\ S.fut[S.ctx[c].owner].v = VX(70000)),
                          "C06.nonasync.must")]

    [] e.e = "FlushBegin" ->
        IF e.b \notin DOMAIN S.bat THEN [S |-> S, bad |-> {"H.unknown_batch"}] ELSE
        LET B == S.bat[e.b] IN
        [S |-> [S EXCEPT !.bat[e.b].st = "flushing", !.bat[e.b].nbegin = @ + 1,
                         !.fl = IF e.a = 1 THEN Append(@, {e.xs[i] : i \in 1..Len(e.xs)}) ELSE @],
         bad |-> IfBad(B.nbegin = 0 /\ B.st = "pending", "C05.once") \cup
                 IfBad(e.xs = B.items, "C05.items.all") \cup
                 IfBad(e.a = 1 => (B.nbefore = 1 /\ B.nafter = 0), "C05.events") \cup
                 IfBad(e.a = 0 => B.nbefore = B.nafter, "C05.events")]

    [] e.e = "FlushEnd" -> [S |-> S, bad |-> {}]

    [] e.e = "CancelBegin" ->      \* task code cancels a pending batch: its unanswered items get the cancellation error
        IF e.b \notin DOMAIN S.bat THEN [S |-> S, bad |-> {"H.unknown_batch"}] ELSE
        [S |-> [S EXCEPT !.bat[e.b].st = "cancelling"], bad |-> IfBad(S.bat[e.b].st = "pending", "C11.once")]

    [] e.e = "Kill" -> [S |-> [S EXCEPT !.killed = @ \cup {e.a}], bad |-> {}]   \* task e.a is about to be completed from outside

    [] e.e = "BatchDone" ->
        IF e.b \notin DOMAIN S.bat THEN [S |-> S, bad |-> {"H.unknown_batch"}] ELSE
        LET B == S.bat[e.b] IN
        [S |-> [S EXCEPT !.bat[e.b].st = "flushed"],
         bad |-> IfBad(\A i \in 1..Len(B.items) : FutDone(S, B.items[i]), "C05.items.all") \cup
                 IfBad(B.st \in {"flushing", "pending", "cancelling"}, "C11.once")]

    [] e.e = "After" ->
        IF e.b \notin DOMAIN S.bat THEN [S |-> S, bad |-> {"H.unknown_batch"}] ELSE
        LET B == S.bat[e.b] IN
        [S |-> [S EXCEPT !.bat[e.b].nafter = @ + 1],
         bad |-> IfBad(B.nbefore = 1 /\ B.nafter = 0, "C05.events") \cup
                 IfBad(B.st = "flushed", "C05.flushed_after")]

    [] e.e = "Enter" ->
        [S |-> [S EXCEPT !.ctx = Upd(@, e.a, [owner |-> e.t, st |-> "new", ty |-> P.ctxs[e.a].type,
                                              ord |-> Cardinality(DOMAIN S.ctx) + 1]),
                         !.tm = IF P.ctxs[e.a].type = "timer" THEN Upd(@, e.a, [acc |-> 0, loose |-> FALSE]) ELSE @],
         bad |-> IfBad(S.run # <<>> /\ Last(S.run) = e.t, "H.enter")]

    [] e.e = "Exit" ->
        IF e.a \notin DOMAIN S.ctx THEN [S |-> S, bad |-> {"H.unknown_ctx"}] ELSE
        LET C == S.ctx[e.a] IN
        LET mineOpen == {c \in DOMAIN S.ctx : S.ctx[c].owner = C.owner /\ S.ctx[c].st \in {"on", "off", "new"}}
            outOfOrder == \E c \in mineOpen : S.ctx[c].ord > C.ord IN
        IF C.ty \in {"nonasync", "cleanup", "oapi"}        \* no resume / pause observed for these: Enter ... Exit is all there is
        THEN [S |-> [S EXCEPT !.ctx[e.a].st = IF C.owner \in S.closing THEN "closed_by_close" ELSE "closed",
                              !.nonlifo = @ \/ outOfOrder], bad |-> {}]
        ELSE [S |-> [S EXCEPT !.ctx[e.a].st = IF C.st = "on" THEN "exiting" ELSE "exiting_off", !.nonlifo = @ \/ outOfOrder],
              bad |-> IfBad(NoFaultyCtx(P) => C.st = "on", "C06.alt.exit")]

    [] e.e = "Resume" ->
        IF e.a \notin DOMAIN S.ctx THEN [S |-> S, bad |-> {"H.unknown_ctx"}] ELSE
        LET C == S.ctx[e.a] IN
        [S |-> [S EXCEPT !.ctx[e.a].st = "on", !.cstk = Append(SeqWithout(@, e.a), e.a)],
         bad |-> IfBad(NoFaultyCtx(P) => C.st \in {"new", "off"}, "C06.alt.resume") \cup
                 \* whatever its pause() / resume() do (also when they raise): a context whose block has been left is done
                 IfBad(C.st # "closed", "C06.alt.afterexit") \cup
                 IfBad((NoFaultyCtx(P) /\ ~S.nonlifo) => e.a \notin Range(S.cstk), "C07.lifo")]

    [] e.e = "Pause" ->
        IF e.a \notin DOMAIN S.ctx THEN [S |-> S, bad |-> {"H.unknown_ctx"}] ELSE
        LET C == S.ctx[e.a] IN
        [S |-> [S EXCEPT !.ctx[e.a].st = IF C.st \in {"exiting", "exiting_off"} THEN "closed" ELSE "off",
                         !.cstk = SeqWithout(@, e.a),
                         !.assigned = {z \in @ : z[3] # e.a}],
         bad |-> IfBad(NoFaultyCtx(P) => C.st \in {"on", "exiting"}, "C06.alt.pause") \cup
                 IfBad(C.st # "closed", "C06.alt.afterexit") \cup
                 IfBad((NoFaultyCtx(P) /\ ~S.nonlifo) => (S.cstk # <<>> /\ Last(S.cstk) = e.a), "C07.lifo")]

    [] e.e = "Timer" ->       \* the with-block of AsyncTimer e.a has been left; e.b = its total_time
        IF e.a \notin DOMAIN S.tm THEN [S |-> S, bad |-> {"H.unknown_ctx"}] ELSE
        [S |-> S, bad |-> IfBad((NoFaultyCtx(P) /\ ~S.tm[e.a].loose) => e.b = S.tm[e.a].acc, "C06.timer")]

    [] e.e = "Read" ->
        [S |-> S,
         \* judged when the awaiting chain above the reader is unique - or when the reader itself has an override of that
         \* variable open (then that one is the innermost, whoever awaits the reader)
         bad |-> (IF (UniqueChain(S, e.t, Cardinality(Tasks(S))) \/ HasOwnOverride(S, e.t, e.a)) /\ NoFaultyCtx(P) /\ ~HasCtxType(P, "nonasync")
                     /\ \A z \in S.assigned : z[2] # e.a \/ (z[1] # e.t /\ z[1] \notin Range(AncChain(S, e.t, Cardinality(Tasks(S)))))
                  THEN IfBad(e.v = VC(ExpectedRead(S, e.t, e.a)), "C07.read") ELSE {}) \cup
                 CtxRunClauses(S, e.t)]

    [] e.e = "SyncBegin" ->
        [S |-> [S EXCEPT !.wait = Append(@, e.a), !.sync = Append(@, <<e.t, e.a>>)], bad |-> {}]

    [] e.e = "SyncEnd" ->
        LET S1 == [S EXCEPT !.wait = IF @ # <<>> THEN Front(@) ELSE @, !.sync = IF @ # <<>> THEN Front(@) ELSE @,
                            !.ovf = (e.v = VX(80000)),
                            !.aband = IF IsEscape(e.v) THEN @ \cup {t \in Reach(S, e.a) \cap Tasks(S) : ~FutDone(S, t)} ELSE @,
                            !.abandfl = IF IsEscape(e.v) /\ e.v.n # 80000 THEN @ \cup {t \in Reach(S, e.a) \cap Tasks(S) : ~FutDone(S, t)} ELSE @] IN
        [S |-> S1,
         bad |-> IfBad(e.v # VX(80000) => e.b = e.t, "C08.active") \cup        \* (after the runaway-recursion reset nothing is active)
                 IfBad(~IsEscape(e.v) => (FutDone(S, e.a) /\ S.fut[e.a].v = e.v /\ (IsX(e.v) => S.fut[e.a].u = e.u)), "C01.sync") \cup
                 CtxRunClauses(S1, e.t)]

    [] e.e = "CallEnd" ->
        LET root == e.t
            outer == Len(S.wait) = 1
            reached == Reach(S, root)
            rootDone == FutDone(S, root)
            S1 == [S EXCEPT !.wait = IF @ # <<>> THEN Front(@) ELSE @,
                            !.aband = IF IsEscape(e.v) THEN @ \cup {t \in Tasks(S) : ~FutDone(S, t)} ELSE @,
                            !.abandfl = IF IsEscape(e.v) /\ e.v.n # 80000 THEN @ \cup {t \in Tasks(S) : ~FutDone(S, t)} ELSE @]
        IN [S |-> S1,
            bad |-> IfBad(e.a = 0, "C08.active") \cup
                    IfBad(e.k = 0, "C08.clean") \cup
                    IfBad(\A i \in 1..Len(e.xs) : e.xs[i] = SvDefault(P, i), "C07.restore") \cup
                    IfBad(~IsEscape(e.v) => (rootDone /\ S.fut[root].v = e.v), "C01.conv") \cup
                    \* an exception raised by value() is the root task's own failure (the same instance)
                    IfBad((IsX(e.v) /\ ~IsEscape(e.v)) => (rootDone /\ S.fut[root].u = e.u), "C02.prop") \cup
                    (IF S.ref # <<>> THEN IfBad(e.v = S.ref[root], "C01.ret") ELSE {}) \cup
                    IfBad((NoFaultyCtx(P) /\ ~HasCtxType(P, "nonasync") /\ ~IsEscape(e.v) /\ NoKillOps(P)) => \A t \in Tasks(S) \ S.aband : S.ts[t].seg > 0 => FutDone(S, t), "C03.term") \cup
                    IfBad(\A b \in DOMAIN S.bat : S.bat[b].nbefore = S.bat[b].nafter, "C05.events") \cup
                    (IF YieldOnly(P) /\ TreeShaped(P) /\ SingleKind(P) /\ S.ref # <<>> /\ S.ncall = 1 /\ P.kinds[1].flush # "spawn"
                     THEN IfBad(S.nflush = CriticalPath(P, root), "C04.count") ELSE {}) \cup
                    \* the flushes of the computation are a behaviour of the order-free reference semantics
                    (IF RoundsDomain(P) /\ S.ref # <<>>
                     THEN IfBad(AcceptsMaximal(P, root, S.fl), "C04.rounds") \cup
                          IfBad(AcceptsMaximal(P, root, S.fl) => Accepts(P, root, S.fl), "C05.rounds")
                     ELSE {}) \cup
                    IfBad(NoFaultyCtx(P) => S.cstk = <<>>, "C06.alt.end")]

    [] e.e = "Set" ->
        \* the assignment lives in the scope of the innermost override of that variable the task has open: it is in force
        \* (for the task and for the tasks it awaits) until that context is next paused, which puts the outer value back
        LET mine == {c \in DOMAIN S.ctx : S.ctx[c].owner = e.t /\ S.ctx[c].st = "on" /\ S.ctx[c].ty = (IF e.a < 100 THEN "override" ELSE "attr")
                                          /\ P.ctxs[c].var = (IF e.a < 100 THEN e.a ELSE e.a - 100)}
            c0 == IF mine = {} THEN 0 ELSE CHOOSE c \in mine : \A d \in mine : S.ctx[d].ord <= S.ctx[c].ord
        IN [S |-> [S EXCEPT !.assigned = @ \cup {<<e.t, e.a, c0>>}], bad |-> {}]

    [] e.e = "IVal" ->          \* item.value() called from a body returned: the outcome of that very item
        [S |-> S,
         bad |-> IfBad(FutDone(S, e.a) /\ S.fut[e.a].v = e.v /\ (IsX(e.v) => S.fut[e.a].u = e.u), "C01.ival")]

    [] e.e = "DedupCall" ->
        \* task e.t called the deduplicated function for call site e.a and was handed task e.b
        IF e.b = 0 THEN [S |-> S, bad |-> {"C12.task"}] ELSE      \* .asynq() handed back something that is not a future at all
        LET K == DedupKey(P, e.a)
            w0 == IF K \in DOMAIN S.dreg THEN S.dreg[K] ELSE 0
            inflight == w0 # 0 /\ ~FutDone(S, w0)
            inside == w0 \in Range(S.run)            \* the call comes from inside the running body: not judged
            isNew == e.b = e.a
        IN [S |-> IF isNew /\ ~inflight THEN [S EXCEPT !.dreg = Upd(@, K, e.a)] ELSE S,
            bad |-> IfBad((inflight /\ ~inside) => e.b = w0, "C12.share") \cup
                    IfBad(~inflight => isNew, "C12.again") \cup
                    IfBad(e.b <= NTasks(P) /\ HasDedup(P, e.b) /\ DedupKey(P, e.b) = K, "C12.sep")]

    [] e.e = "Dirty" ->
        [S |-> [S EXCEPT !.dreg = Upd(@, DedupKey(P, e.a), 0)], bad |-> {}]

    [] e.e = "Closed" -> [S |-> [S EXCEPT !.closing = @ \cup {e.t}], bad |-> {}]
    [] e.e = "Hang"   -> [S |-> S, bad |-> {"C03.term"} \cup (IF S.ncall >= 2 THEN {"C08.fresh.hang"} ELSE {})]
    \* an asynq context's __exit__ returned a true value: the with-block swallowed the exception (or the result() signal)
    \* that was leaving it - sequential evaluation of the same code would have let it pass
    [] e.e = "Swallowed" -> [S |-> S, bad |-> {"C01.swallow"}]
    [] OTHER -> [S |-> S, bad |-> {"H.unknown_event"}]

ClauseProperty(c) == SubSeq(c, 1, 3)
=============================================================================
