SPECIFICATION Spec
CHECK_DEADLOCK FALSE
CONSTANT N = 2
CONSTANT Shared = {"dedupkey"}
INVARIANT C16_own
