----------------------------- MODULE Decorators -----------------------------
(* C09 - all ways of calling an async function agree, for every kind of callable.

   An enumerating oracle with the descriptor protocol as actions:
     Decorate(d, k, b)  a body of kind b (plain return / generator yielding a child task / generator blocking
                        on a batch item) is defined as a k (function / method / classmethod / staticmethod) and
                        decorated with d;
     Access(via, w)     the attribute is reached (directly, through an instance, the class, a subclass, an
                        instance of a subclass, a FALSY instance): the descriptor protocol binds; the result may
                        be wrapped in w layers of a foreign synchronous wrapper exposing `.fn`;
     Call(c, p)         the accessed object is called through convention c with argument pattern p.
   A history is MaxCalls Access+Call steps on the SAME decorated attribute (CALLS=2: every ordered pair of access
   paths, conventions and patterns): each call is prescribed exactly as if it were the only one - the bound
   object of a call is determined by THAT call's access path; whatever an earlier access or call left behind on
   the shared decorator object must not matter (action property CallsIndependent).
   Every Call appends to hist what the PROPERTY prescribes (Stated): which body runs, the bound first argument,
   the normalised arguments (a, b, k of `def body([first,] a, b=20, *, k=30)`), the outcome, whether the
   direct call returns a future, and the classification helpers' answers for the accessed object.  TLC enumerates
   the complete product and prints every history; harness/replay_c09.py builds that class/function for real.

   Besides the statement the module carries a small MODEL OF THE MECHANISM (Derived: who prepends the bound
   object on which path) and TLC checks that it yields the statement in every cell: the bound object is passed
   exactly once on every path, also on the sync_fn path where sync_fn is bound by its own __get__.

   Decorator kinds: plain (undecorated control), asynq, pure = asynq(pure=True), proxy_task / proxy_const =
   async_proxy() returning a task / a ConstFuture, asynq_sync / proxy_sync = the sync_fn pairs, mad = a decorator
   built with make_async_decorator (it wraps the result, so that the wrapper is seen to run; mad_done / mad_const:
   its wrapper_fn hands back an ALREADY COMPUTED task / a ConstFuture or ErrorFuture), dedup =
   deduplicate(), aretry / alru / acpi = the function-style wrappers of asynq.tools. *)
EXTENDS Naturals, Sequences, FiniteSets, TLC, Json, IOUtils

MaxCalls == IF "CALLS" \in DOMAIN IOEnv THEN atoi(IOEnv.CALLS) ELSE 1
Pats     == IF "PATS" \in DOMAIN IOEnv THEN IOEnv.PATS ELSE "all"      \* "all" | "few" | "one"
MaxWrap  == IF "WRAPS" \in DOMAIN IOEnv THEN atoi(IOEnv.WRAPS) ELSE 2   \* layers of foreign wrappers
NewDims  == "NEWDIMS" \in DOMAIN IOEnv /\ IOEnv.NEWDIMS = "1"
(* NEWDIMS=1 opens three further dimensions: the body ends with `result(x); return` instead of `return x`;
   the body RAISES instead of returning (outcome = that exception, for every convention); the call is made
   from INSIDE a running task instead of from the top level *)
Endings  == IF NewDims THEN {"return", "result"} ELSE {"return"}
Fails    == IF NewDims THEN {0, 1} ELSE {0}
Ctxs     == IF NewDims THEN {"top", "task"} ELSE {"top"}

Mads   == {"mad", "mad_done", "mad_const"}
Decos  == {"plain", "asynq", "pure", "proxy_task", "proxy_const", "asynq_sync", "proxy_sync", "dedup",
           "aretry", "alru", "acpi"} \cup Mads
DefKs  == {"function", "method", "classmethod", "staticmethod"}
Bodies == {"plain", "gen", "batch"}
Convs  == {"sync", "asynq", "yield", "async_call", "get_async_fn", "get_async_or_sync_fn", "get_async_fn_wrap"}
\* get_async_fn_wrap = get_async_fn(obj, wrap_if_none=True)(...): exists for every callable (a synchronous one is wrapped into a
\* function returning a completed future)
AllPats == {"pos", "kw", "mixed", "default", "kwonly"}
ArgPats == CASE Pats = "few" -> {"pos", "kwonly"} [] Pats = "one" -> {"pos"} [] OTHER -> AllPats

(* combinations that exist: the function-style wrappers only on the bindings they are written for; a
   ConstFuture / an undecorated function has no generator body; caches are not called twice (C13 owns that) *)
EndingOk(d, e) == e = "result" => d \notin {"plain", "proxy_const"}       \* result() needs an asynq body
Meaningful(d, k, b) ==
  /\ d \in {"aretry", "alru"} => k \in {"function", "method"}
  /\ d = "acpi" => k = "method"
  /\ d \in {"proxy_const", "plain"} => b = "plain"
  /\ MaxCalls > 1 => d \notin {"alru", "acpi", "mad_done", "mad_const"}

ViasOf(k) == CASE k = "function" -> {"direct"}
               [] k = "method" -> {"inst", "cls", "subinst", "falsy"}      \* "cls": C.meth(inst, ...)
               [] k = "classmethod" -> {"cls", "inst", "sub", "subinst"}
               [] k = "staticmethod" -> {"cls", "inst"}

(* w = number of FOREIGN WRAPPERS around the accessed object: plain synchronous callables that expose the wrapped
   callable as `.fn`, have no `asynq` / `is_pure_async_fn` of their own and whose call passes its arguments on unchanged to self.fn.
   Calling such a wrapper IS the direct (synchronous) call of what it wraps: it returns a future exactly when the
   wrapped callable is pure, it has no .asynq, and a sync_fn pair runs sync_fn on every way of calling it. *)
IsPure(d)    == d = "pure"                       \* the direct call returns a future instead of a value
HasAsynq(d, w) == w = 0 /\ d \notin {"pure", "plain"}      \* there is an .asynq attribute
HasSyncFn(d) == d \in {"asynq_sync", "proxy_sync"}
ConvsOf(d, w) == CASE d = "pure" -> Convs \ {"asynq"}
                   [] d = "plain" \/ w > 0 -> {"sync", "async_call", "get_async_or_sync_fn", "get_async_fn_wrap"}
                   [] OTHER -> Convs

VARIABLES deco, defk, body, ending, fail, obj, hist
vars == <<deco, defk, body, ending, fail, obj, hist>>
NoObj == [via |-> "none", inst |-> "none", wrap |-> 0]

Init == deco = "none" /\ defk = "none" /\ body = "none" /\ ending = "none" /\ fail = 0 /\ obj = NoObj /\ hist = <<>>

(* ---- argument binding: def body([first,] a, b=20, *, k=30) ---- *)
Off == 10 * Len(hist)                            \* different values in every call of a history
PosOf(p) == CASE p = "pos" -> <<1 + Off, 2 + Off>> [] p = "kw" -> <<>> [] p = "mixed" -> <<1 + Off>>
              [] p = "default" -> <<1 + Off>> [] p = "kwonly" -> <<1 + Off, 2 + Off>>
KwOf(p) == CASE p = "pos" -> <<>> [] p = "kw" -> << <<"a", 1 + Off>>, <<"b", 2 + Off>> >>
             [] p = "mixed" -> << <<"b", 2 + Off>> >> [] p = "default" -> <<>>
             [] p = "kwonly" -> << <<"k", 3 + Off>> >>
KwVal(kw, name, dflt) == IF \E i \in 1..Len(kw) : kw[i][1] = name
                         THEN kw[CHOOSE i \in 1..Len(kw) : kw[i][1] = name][2] ELSE dflt
Normalise(pos, kw) ==
  [a |-> IF Len(pos) >= 1 THEN pos[1] ELSE KwVal(kw, "a", 0),
   b |-> IF Len(pos) >= 2 THEN pos[2] ELSE KwVal(kw, "b", 20),
   k |-> KwVal(kw, "k", 30)]

(* ---- the statement ---- *)
ClassOf(via) == CASE via \in {"inst", "cls"} -> "cls" [] via \in {"subinst", "sub"} -> "sub"
                  [] via = "falsy" -> "falsycls" [] OTHER -> "none"
StatedBound(k, via) == CASE k = "method" -> (IF via = "cls" THEN "inst" ELSE via)
                         [] k = "classmethod" -> ClassOf(via)
                         [] OTHER -> "none"
StatedRan(d, w, c) == IF HasSyncFn(d) /\ (c = "sync" \/ w > 0) THEN "sync" ELSE "async"
Extra(d, b, ran, a) == IF ran = "sync" THEN 0
                       ELSE CASE b = "plain" -> 0 [] b = "gen" -> a + 100 [] b = "batch" -> a + 200
ReturnsFuture(d, w, c) == CASE c = "sync" -> IsPure(d)
                         [] c = "get_async_or_sync_fn" -> IF w = 0 THEN d # "plain" ELSE IsPure(d)
                         [] c \in {"asynq", "get_async_fn", "get_async_fn_wrap"} -> TRUE
                         [] OTHER -> FALSE          \* the value is delivered to the yielding task
(* Stated has no parameter for the place the call is made from or for the way the body hands back its value:
   the prescription is the same from the top level and from inside a task, for `return x` and `result(x)`.
   err = 1: the outcome is the exception the body raised (carrying ran / bound / a / b / k / extra). *)
Stated(d, k, b, via, w, c, p) ==
  LET n == Normalise(PosOf(p), KwOf(p))
      ran == StatedRan(d, w, c) IN
  [ran |-> ran, bound |-> StatedBound(k, via), a |-> n.a, b |-> n.b, k |-> n.k,
   extra |-> Extra(d, b, ran, n.a), wrapped |-> IF d \in Mads THEN 1 ELSE 0, err |-> fail,
   fut |-> IF ReturnsFuture(d, w, c) THEN 1 ELSE 0]

Classification(d, w) ==
  [is_async |-> IF IsPure(d) \/ HasAsynq(d, w) THEN 1 ELSE 0, is_pure |-> IF IsPure(d) THEN 1 ELSE 0,
   has_async |-> IF HasAsynq(d, w) THEN 1 ELSE 0, get_async_fn_none |-> IF IsPure(d) \/ HasAsynq(d, w) THEN 0 ELSE 1]

(* ---- the mechanism: descriptor protocol and binders ---- *)
OwnerOf(via) == IF via \in {"inst", "subinst", "falsy"} THEN via ELSE "none"
TypeOf(k) == IF k \in {"classmethod", "staticmethod"} THEN k ELSE "none"
BindGet(type, owner, cls) ==       \* __get__(owner, cls) of a function / classmethod / staticmethod / DecoratorBase
  IF type = "staticmethod" THEN "none" ELSE IF type = "classmethod" THEN cls ELSE owner
Prepend(x) == IF x = "none" THEN <<>> ELSE <<x>>
Explicit(k, via) == IF k = "method" /\ via = "cls" THEN <<"inst">> ELSE <<>>
(* the positional prefix that reaches the body on each path *)
BinderPath(k, o) == Prepend(o.inst) \o Explicit(k, o.via)                  \* binder.__call__ / .asynq prepend
SyncFnPath(k, o) ==                 \* sync_fn bound by its own __get__; the pair's binder must NOT prepend
  Prepend(BindGet(TypeOf(k), OwnerOf(o.via), ClassOf(o.via))) \o Explicit(k, o.via)
AsyncCallRoute(d, w) == IF IsPure(d) THEN "sync" ELSE IF HasAsynq(d, w) THEN "asynq" ELSE "sync"
Derived(d, k, o, c) ==          \* a foreign wrapper forwards its arguments unchanged to the direct call
  LET route == IF o.wrap > 0 THEN "sync" ELSE IF c = "async_call" THEN AsyncCallRoute(d, 0) ELSE c
      ran == IF route = "sync" /\ HasSyncFn(d) THEN "sync" ELSE "async"
      prefix == IF ran = "sync" /\ d = "asynq_sync" THEN SyncFnPath(k, o) ELSE BinderPath(k, o) IN
  [ran |-> ran, prefix |-> prefix]

(* ---- actions ---- *)
Decorate(d, k, b, e, f) ==
  /\ deco = "none" /\ Meaningful(d, k, b) /\ EndingOk(d, e)
  /\ deco' = d /\ defk' = k /\ body' = b /\ ending' = e /\ fail' = f
  /\ UNCHANGED <<obj, hist>>

Access(via, w) ==
  /\ deco # "none" /\ obj = NoObj /\ Len(hist) < MaxCalls /\ via \in ViasOf(defk)
  /\ obj' = [via |-> via, wrap |-> w, inst |-> IF defk = "function" THEN "none"
                                   ELSE BindGet(TypeOf(defk), OwnerOf(via), ClassOf(via))]
  /\ UNCHANGED <<deco, defk, body, ending, fail, hist>>

Call(c, p, x) ==
  /\ obj # NoObj /\ c \in ConvsOf(deco, obj.wrap)
  /\ hist' = Append(hist, [via |-> obj.via, wrap |-> obj.wrap, conv |-> c, ctx |-> x, argp |-> p, pos |-> PosOf(p), kw |-> KwOf(p),
                           cls |-> Classification(deco, obj.wrap),
                           res |-> Stated(deco, defk, body, obj.via, obj.wrap, c, p)])
  /\ obj' = NoObj
  /\ UNCHANGED <<deco, defk, body, ending, fail>>

Next == \/ \E d \in Decos, k \in DefKs, b \in Bodies, e \in Endings, f \in Fails : Decorate(d, k, b, e, f)
        \/ \E via \in {"direct", "inst", "cls", "sub", "subinst", "falsy"}, w \in 0..MaxWrap : Access(via, w)
        \/ \E c \in Convs, p \in ArgPats, x \in Ctxs : Call(c, p, x)
Spec == Init /\ [][Next]_vars

(* ---- the property, on the model (evaluated in every state in which an object has been accessed) ---- *)
Cell(c, p) == Stated(deco, defk, body, obj.via, obj.wrap, c, p)
ConventionsAgree ==        \* same bound object, same arguments; same body and outcome unless sync_fn steps in
  (* every convention is compared with async_call, which exists for every kind: agreement with a common
     reference is pairwise agreement *)
  obj # NoObj => \A p \in AllPats :
    LET r == Cell("async_call", p) IN
    \A c \in ConvsOf(deco, obj.wrap) :
      LET x == Cell(c, p) IN
      /\ x.bound = r.bound
      /\ <<x.a, x.b, x.k>> = <<r.a, r.b, r.k>>
      /\ (x.ran = r.ran => x.extra = r.extra /\ x.wrapped = r.wrapped)
      /\ x.err = r.err                                       \* value or exception: the same for every convention
      /\ (x.ran # r.ran => HasSyncFn(deco) /\ c = "sync" /\ obj.wrap = 0)
SyncFnWins ==              \* sync_fn runs exactly on the ways of calling that are the synchronous call
  obj # NoObj => \A p \in AllPats : \A c \in ConvsOf(deco, obj.wrap) :
    Cell(c, p).ran = IF HasSyncFn(deco) /\ (c = "sync" \/ obj.wrap > 0) THEN "sync" ELSE "async"
BoundOnce ==               \* the mechanism passes the bound object exactly once on every path, and it is the stated one
  obj # NoObj => \A c \in ConvsOf(deco, obj.wrap) :
    LET dv == Derived(deco, defk, obj, c) IN
    /\ dv.ran = StatedRan(deco, obj.wrap, c)
    /\ dv.prefix = Prepend(StatedBound(defk, obj.via))
ClassificationConsistent ==
  deco # "none" => \A w \in 0..MaxWrap :
    LET cl == Classification(deco, w) IN
    /\ (cl.is_pure = 1) <=> ReturnsFuture(deco, w, "sync")
    /\ (cl.has_async = 1) <=> ("asynq" \in ConvsOf(deco, w))
    /\ (cl.is_async = 1) <=> (cl.is_pure = 1 \/ cl.has_async = 1)
    /\ (cl.get_async_fn_none = 1) <=> (cl.is_async = 0)
    /\ (cl.is_async = 1) <=> ("get_async_fn" \in ConvsOf(deco, w))
    /\ (cl.is_async = 0) => ~ReturnsFuture(deco, w, "get_async_or_sync_fn")   \* "otherwise returns source"

CallsIndependent ==        \* what is prescribed for a call does not depend on the calls before it (but for the values)
  [][Len(hist') > Len(hist) =>
       LET o == hist'[Len(hist')] IN
       /\ o.res.bound = StatedBound(defk, o.via) /\ o.res.ran = StatedRan(deco, o.wrap, o.conv)
       /\ o.cls = Classification(deco, o.wrap)]_vars

Terminal == Len(hist) = MaxCalls
Export == Terminal => PrintT(ToJson([deco |-> deco, defk |-> defk, body |-> body, ending |-> ending, fail |-> fail, h |-> hist]))
=============================================================================
