SPECIFICATION Spec
CHECK_DEADLOCK FALSE
INVARIANT Glued
INVARIANT GluedAtCaller
INVARIANT StackIsCreatorChain
INVARIANT CaughtMeansValue
INVARIANT EveryLevelProbed
INVARIANT Export
INVARIANT OwnTasksOnly
INVARIANT IdleBetweenComputations
INVARIANT RetrievalsGlued
INVARIANT AllRetrieved
