------------------------------- MODULE Cache -------------------------------
(* C13 - alru_cache, acached_per_instance and alazy_constant behave like their reference cache.

   This module IS the reference cache.  A configuration (decorator, plain function or method, default key or a
   key_fn that ignores parameter b, maxsize, plain or batch-blocking body, number of functions decorated by ONE
   decorator object, what kind of value the body returns, call alphabet, history depth) is chosen
   in Init; afterwards there is one action per public operation and the result the property PRESCRIBES for it is
   recorded in `hist`.  TLC enumerates every history up to the depth; harness/check_c13.py replays every history
   into the real decorators and compares result by result ("any" = the property does not prescribe).

   The cached function has the parameters (a, b=0, *, c=0) (methods: (self, a, b=0, *, c=0)).  A call is a
   SPELLING  [g, i, a, b, c, sa, sb, sc]:  g = which decorated function (the harness creates ONE decorator object,
   e.g. d = alru_cache(maxsize=2), and applies it to cfg.nf functions: every function has its own reference
   cache and its own maxsize budget), i = instance (0 = plain function), a/b/c = the values, sa/sb/sc = how each
   is written: "p" positional, "k" keyword, "d" left to its default.  The reference cache NORMALISES the spelling
   to the bound argument tuple Args(s) = <<g, i, a, b, c, p, x>> and keys on all of it (or on key_fn's result, which drops b).
   The body produces a fresh value on every run: Args(s) \o <<n>> where n counts the runs of the body with exactly
   these bound arguments; it raises (carrying the same tuple) when a = 2.  So a hit (old n, no run), a miss (new n,
   one run) and a value that belongs to another call (other function / arguments) are all distinguishable.
   cfg.ret says what the body RETURNS: "tuple" = that tuple; "none" / "zero" / "str" / "empty" = the constant
   None / 0 / "" / () - legitimate results that a cache has to store and serve like any other (hit and miss are then
   told apart by the number of body runs, which is prescribed for every operation).

   cfg.sig is the signature of the cached function: "std" = (a, b=0, *, c=0); "kw" = (a, b=0, *, c=0, **extra);
   "var" = (a, b=0, *rest, **extra); "varkwo" = (a, b=0, *rest, c=0, **extra).  A spelling then also has p (one extra
   positional argument with that value, 0 = none; lands in *rest) and x (an extra keyword argument x=value, 0 = none;
   lands in **extra): they are arguments like any other - calls that differ only in the extras never share a value.

   LRU: `lru` is the recency order (least recent first) of the stored keys of all functions, `store` their values;
   the size bound and the eviction are per function (the g-keys of `lru` are g's own recency order).
   Per-instance: the key carries the instance; Drop garbage-collects instance 2, New creates a new instance 2.
   alazy_constant: one slot per function (key <<g>>), refresh time `ltime[g]` (0 = empty / dirtied), logical clock
   `now` moved by Tick only (the harness scripts asynq.tools.utime); Arm makes the next body run raise.
   Overlapping calls (batch-blocking bodies yielded together): Pair = Begin, Begin, End, End of the reference
   cache - both lookups see the store as it was. *)
EXTENDS Naturals, Integers, Sequences, FiniteSets, TLC, Json, IOUtils

Group == IF "GROUP" \in DOMAIN IOEnv THEN IOEnv.GROUP ELSE "spell"
Deep  == IF "DEEP" \in DOMAIN IOEnv THEN atoi(IOEnv.DEEP) ELSE 0        \* 0 = quick depths, 1 = thorough depths
OnlyForm == IF "FORM" \in DOMAIN IOEnv THEN IOEnv.FORM ELSE "all"       \* optional: split a group into several TLC runs
OnlyKeyfn == IF "KEYFN" \in DOMAIN IOEnv THEN IOEnv.KEYFN ELSE "all"

VARIABLES cfg, lru, store, cnt, gone, live, now, ltime, armed, hist
vars == <<cfg, lru, store, cnt, gone, live, now, ltime, armed, hist>>

(* ---------------------------------------------------------------- call alphabets *)
SX(g, i, a, b, c, sa, sb, sc, p, x) == [g |-> g, i |-> i, a |-> a, b |-> b, c |-> c, sa |-> sa, sb |-> sb, sc |-> sc, p |-> p, x |-> x]
S(g, i, a, b, c, sa, sb, sc) == SX(g, i, a, b, c, sa, sb, sc, 0, 0)
Valid(s) == /\ (s.sb = "p" => s.sa = "p")       \* b can be positional only after a positional a
            /\ (s.sb = "d" => s.b = 0)          \* a default stands for the value 0
            /\ (s.sc = "d" => s.c = 0)          \* c is keyword-only
Full(G, I) == \* every spelling of every argument tuple over 2 values each (48 per instance) + the raising call
  {s \in [g : G, i : I, a : {0, 1}, b : {0, 1}, c : {0, 1}, sa : {"p", "k"}, sb : {"p", "k", "d"}, sc : {"k", "d"}, p : {0}, x : {0}] : Valid(s)}
  \cup {S(g, i, 2, 0, 0, sa, "d", "d") : g \in G, i \in I, sa \in {"p", "k"}}
Mid(G, I) ==
  {s \in [g : G, i : I, a : {0, 1}, b : {0, 1}, c : {0}, sa : {"p"}, sb : {"p", "k", "d"}, sc : {"d"}, p : {0}, x : {0}] : Valid(s)}
  \cup {S(g, i, a, 0, 1, "p", "d", "k") : g \in G, i \in I, a \in {0, 1}} \cup {S(g, i, 2, 0, 0, "p", "d", "d") : g \in G, i \in I}
Min(I) == CHOOSE x \in I : \A y \in I : x <= y
Small(G, I) == \* distinct keys only, for the LRU histories: 4 keys + the raising call (+ one call on a 2nd instance)
  {S(g, Min(I), a, b, 0, "p", "p", "d") : g \in G, a \in {0, 1}, b \in {0, 1}} \cup {S(g, Min(I), 2, 0, 0, "p", "d", "d") : g \in G}
  \cup {S(g, i, 0, 0, 0, "p", "p", "d") : g \in G, i \in I}
Tiny(G, I) == \* two spellings of one tuple, a tuple differing in b only (same key under key_fn), another a, the raising call
  {S(g, i, 0, 0, 0, "p", "p", "d") : g \in G, i \in I} \cup {S(g, i, 0, 0, 0, "p", "k", "d") : g \in G, i \in I}
  \cup {S(g, i, 0, 1, 0, "p", "p", "d") : g \in G, i \in I} \cup {S(g, i, 1, 0, 0, "p", "p", "d") : g \in G, i \in I}
  \cup {S(g, i, 2, 0, 0, "p", "d", "d") : g \in G, i \in I}
Duo(G, I) == {S(g, i, 0, 0, 0, "p", "p", "d") : g \in G, i \in I} \cup {S(g, i, 0, 0, 0, "p", "k", "d") : g \in G, i \in I}
             \cup {S(g, i, 2, 0, 0, "p", "d", "d") : g \in G, i \in I}
Keys3(G, I) == \* three distinct keys per function, no raising call: the budget histories of two functions
  {S(g, i, 0, 0, 0, "p", "p", "d") : g \in G, i \in I} \cup {S(g, i, 0, 1, 0, "p", "p", "d") : g \in G, i \in I}
  \cup {S(g, i, 1, 0, 0, "p", "p", "d") : g \in G, i \in I}
Ext(G, I, sig) == \* calls that differ in the extras (and in b / c next to them), a = 0, for a signature with *rest / **extra
  {s \in [g : G, i : I, a : {0}, b : {0, 1}, c : {0, 1}, sa : {"p"}, sb : {"p", "d"}, sc : {"k", "d"}, p : 0..2, x : 0..2] :
     /\ Valid(s) /\ (s.sc = "k" => s.c = 1)
     /\ (s.p # 0 => s.sb = "p" /\ sig \in {"var", "varkwo"})       \* an extra positional needs a and b positional
     /\ (sig = "var" => s.c = 0)                                   \* no parameter c in that signature
     /\ (s.p = 2 => s.x = 0 /\ s.c = 0) /\ (s.x = 2 => s.c = 0 /\ s.p = 0)}   \* (thinning)

Funs(c) == 1..c.nf
Insts(c) == IF c.deco = "inst" THEN (IF c.nf = 2 THEN {1} ELSE {1, 2})
            ELSE IF c.form = "meth" THEN (IF c.alpha \in {"full", "ext"} \/ c.nf = 2 THEN {1} ELSE {1, 2}) ELSE {0}
Alpha(c) == CASE c.alpha = "full" -> Full(Funs(c), Insts(c)) [] c.alpha = "mid" -> Mid(Funs(c), Insts(c))
              [] c.alpha = "small" -> Small(Funs(c), Insts(c)) [] c.alpha = "tiny" -> Tiny(Funs(c), Insts(c))
              [] c.alpha = "duo" -> Duo(Funs(c), Insts(c)) [] c.alpha = "keys3" -> Keys3(Funs(c), Insts(c))
              [] c.alpha = "ext" -> Ext(Funs(c), Insts(c), c.sig) [] OTHER -> {}

(* ---------------------------------------------------------------- configurations *)
CS(deco, form, keyfn, maxsize, body, alpha, pairs, depth, ttl, nf, ret, sig) ==
  [deco |-> deco, form |-> form, keyfn |-> keyfn, maxsize |-> maxsize, body |-> body, alpha |-> alpha,
   pairs |-> pairs, depth |-> depth, ttl |-> ttl, nf |-> nf, ret |-> ret, sig |-> sig]
CX(deco, form, keyfn, maxsize, body, alpha, pairs, depth, ttl, nf, ret) ==
  CS(deco, form, keyfn, maxsize, body, alpha, pairs, depth, ttl, nf, ret, "std")
C(deco, form, keyfn, maxsize, body, alpha, pairs, depth, ttl) ==      \* one function, tuple-valued body
  CX(deco, form, keyfn, maxsize, body, alpha, pairs, depth, ttl, 1, "tuple")
D(q, t) == IF Deep = 1 THEN t ELSE q
Falsy == {"none", "zero", "str", "empty"}
ConfigsOf(grp) ==
  CASE grp = "spell" ->      \* every spelling, shallow
         {C("lru", f, 0, 3, "plain", "full", 0, D(2, 3), 0) : f \in {"fn", "meth"}}
         \cup {C("lru", f, 1, 3, "plain", "full", 0, 2, 0) : f \in {"fn", "meth"}}
    [] grp = "lru" ->        \* few keys, deep: eviction order, recency refresh, every maxsize
         {C("lru", "fn", 0, m, "plain", "small", 0, D(5, 6), 0) : m \in 1..3}
         \cup {C("lru", "meth", 0, 2, "plain", "small", 0, 5, 0)} \cup {C("lru", "meth", 0, m, "plain", "small", 0, D(4, 5), 0) : m \in {1, 3}}
         \cup {C("lru", "fn", 1, 2, "plain", "tiny", 0, D(4, 6), 0)}
    [] grp = "inst" ->       \* acached_per_instance: two instances, one is dropped and re-created
         {C("inst", "meth", 0, 99, "plain", "full", 0, 2, 0), C("inst", "meth", 0, 99, "plain", "tiny", 0, D(3, 4), 0),
          C("inst", "meth", 0, 99, "plain", "duo", 0, D(4, 5), 0)}
         \cup (IF Deep = 1 THEN {C("inst", "meth", 0, 99, "plain", "mid", 0, 3, 0)} ELSE {})
    [] grp = "lazy" ->       \* alazy_constant: ttl 0 (never expires) and ttl 4 (Tick = 3, so elapsed is never = ttl)
         {C("lazy", "fn", 0, 1, "plain", "none", 0, D(6, 7), t) : t \in {0, 4}}
         \cup {C("lazy", "fn", 0, 1, "block", "none", 0, D(5, 7), t) : t \in {0, 4}}
    [] grp = "overlap" ->    \* batch-blocking bodies, two calls yielded together
         {C("lru", "fn", k, 3, "block", "tiny", 1, D(2, 3), 0) : k \in {0, 1}}
         \cup {C("lru", "meth", 0, 3, "block", "duo", 1, 2, 0), C("inst", "meth", 0, 99, "block", "duo", 1, 2, 0)}
    [] grp = "shared" ->     \* ONE decorator object applied to two functions: independent caches and budgets
         {CX("lru", f, 0, m, "plain", "tiny", 0, 3, 0, 2, "tuple") : f \in {"fn", "meth"}, m \in 1..2}
         \cup {CX("lru", "fn", 0, 2, "plain", "keys3", 0, D(4, 5), 0, 2, "tuple")}
         \cup {CX("lru", "fn", 1, 2, "plain", "tiny", 0, 3, 0, 2, "tuple")}
         \cup {CX("inst", "meth", 0, 99, "plain", "tiny", 0, 3, 0, 2, "tuple")}
         \cup {CX("lazy", "fn", 0, 1, "plain", "none", 0, D(4, 5), t, 2, "tuple") : t \in {0, 4}}
    [] grp = "falsy" ->      \* bodies whose legitimate result is None / 0 / "" / ()
         {CX("lru", f, 0, 2, "plain", "tiny", 0, 3, 0, 1, r) : f \in {"fn", "meth"}, r \in Falsy}
         \cup {CX("inst", "meth", 0, 99, b, "duo", 0, 3, 0, 1, r) : b \in {"plain", "block"}, r \in Falsy}
         \cup {CX("lazy", "fn", 0, 1, "plain", "none", 0, D(4, 5), t, 1, r) : t \in {0, 4}, r \in Falsy}
    [] grp = "extras" ->     \* signatures with *rest / **extra: calls that differ only in the extras
         {CS("lru", f, 0, 3, "plain", "ext", 0, 2, 0, 1, "tuple", sg) : f \in {"fn", "meth"}, sg \in {"kw", "var", "varkwo"}}
         \cup {CS("inst", "meth", 0, 99, "plain", "ext", 0, 2, 0, 1, "tuple", sg) : sg \in {"kw", "var", "varkwo"}}
    [] OTHER -> {}
AllConfigs == IF Group = "misc"      \* the five small groups in one TLC run (quick tier)
              THEN ConfigsOf("lazy") \cup ConfigsOf("overlap") \cup ConfigsOf("shared") \cup ConfigsOf("falsy") \cup ConfigsOf("extras")
              ELSE ConfigsOf(Group)
Configs == {c \in AllConfigs : /\ (OnlyForm = "all" \/ c.form = OnlyForm)
                               /\ (OnlyKeyfn = "all" \/ ToString(c.keyfn) = OnlyKeyfn)}

(* ---------------------------------------------------------------- the reference cache *)
Args(s) == <<s.g, s.i, s.a, s.b, s.c, s.p, s.x>>
Key(s) == IF cfg.keyfn = 1 THEN <<s.g, s.i, s.a, s.c, s.p, s.x>> ELSE Args(s)       \* key_fn ignores b
KeyOfVal(v) == IF cfg.keyfn = 1 THEN <<v[1], v[2], v[3], v[5], v[6], v[7]>> ELSE SubSeq(v, 1, 7)
Raises(s) == s.a = 2
Amb == <<0, 0, 0, 0, 0, 0, 0, 0>>       \* "some value is stored, the property does not say which" (n = 0)
Cnt(c, args) == IF args \in DOMAIN c THEN c[args] ELSE 0          \* body runs so far with these bound arguments
MaxSize == IF cfg.deco = "lru" THEN cfg.maxsize ELSE 99
Range(f) == {f[x] : x \in DOMAIN f}
Touch(l, k) == Append(SelectSeq(l, LAMBDA x : x # k), k)
OfFun(l, g) == SelectSeq(l, LAMBDA x : x[1] = g)                     \* g's own recency order
Shown(v) == IF cfg.ret = "tuple" THEN <<"val">> \o v ELSE <<"val", cfg.ret>>   \* what the caller sees of value v
ResOf(v) == IF v[8] = 0 THEN <<"any">> ELSE Shown(v)
MissTag(k) == IF k \in DOMAIN gone THEN gone[k] ELSE "new"
Put(f, k, v) == [x \in DOMAIN f \cup {k} |-> IF x = k THEN v ELSE f[x]]
Without(f, ks) == [x \in DOMAIN f \ ks |-> f[x]]

(* state after storing v under k, starting from recency order l / store st / removal reasons g:
   if function k[1] now holds more than MaxSize keys, its least recently used key goes *)
Over(l, k) == Len(OfFun(Touch(l, k), k[1])) > MaxSize
Victim(l, k) == Head(OfFun(Touch(l, k), k[1]))
InsLru(l, k) == IF Over(l, k) THEN SelectSeq(Touch(l, k), LAMBDA x : x # Victim(l, k)) ELSE Touch(l, k)
InsStore(l, st, k, v) == IF Over(l, k) THEN Without(Put(st, k, v), {Victim(l, k)}) ELSE Put(st, k, v)
InsGone(l, gn, k) == IF Over(l, k) THEN Put(gn, Victim(l, k), "evicted") ELSE gn

Rec(op, arg, calls, res, runs, tag) == [op |-> op, arg |-> arg, calls |-> calls, res |-> res, runs |-> runs, tag |-> tag]
Usable(s) == s \in Alpha(cfg) /\ (s.i = 0 \/ s.i \in live)

Init == /\ cfg \in Configs
        /\ lru = <<>> /\ store = [x \in {} |-> Amb] /\ gone = [x \in {} |-> "new"]
        /\ cnt = [x \in {} |-> 0]
        /\ live = {1, 2} /\ now = 1000 /\ ltime = [g \in 1..2 |-> 0] /\ armed = FALSE /\ hist = <<>>

(* one call: lookup on the normalised key; hit => stored value, recency refreshed, body not run;
   miss => the body runs once, its fresh value is returned and stored (LRU eviction) unless it raised *)
Call(s) ==
  /\ cfg.deco # "lazy" /\ Len(hist) < cfg.depth /\ Usable(s)
  /\ LET k == Key(s) IN
     IF k \in DOMAIN store
     THEN /\ lru' = Touch(lru, k) /\ UNCHANGED <<store, cnt, gone>>
          /\ hist' = Append(hist, Rec("call", 0, <<s>>, <<ResOf(store[k])>>, 0, <<"hit">>))
     ELSE LET n == Cnt(cnt, Args(s)) + 1
              v == Args(s) \o <<n>> IN
          /\ cnt' = Put(cnt, Args(s), n)
          /\ IF Raises(s)
             THEN /\ UNCHANGED <<lru, store, gone>>
                  /\ hist' = Append(hist, Rec("call", 0, <<s>>, <<(<<"err">> \o v)>>, 1, <<"raise">>))
             ELSE /\ lru' = InsLru(lru, k) /\ store' = InsStore(lru, store, k, v) /\ gone' = InsGone(lru, gone, k)
                  /\ hist' = Append(hist, Rec("call", 0, <<s>>, <<Shown(v)>>, 1, <<MissTag(k)>>))
  /\ UNCHANGED <<cfg, live, now, ltime, armed>>

(* two calls yielded together, bodies blocking on one batch: both lookups happen before either body finishes.
   Prescribed only while no eviction is involved (the completion order of the two bodies is not the property's
   business).  Same key and both miss: nothing is stored when either call looks, so BOTH are misses: both bodies run
   and each call returns the fresh result of ITS OWN body run ("the body's fresh result on a miss").  When the two
   calls have different bound arguments (key_fn ignores b) that is an exact value each; when the bound arguments are
   identical the two runs are numbered n+1 and n+2 in an order the property does not fix, so the prescription is
   <<"fresh", kind, args.., n+1, n+2>>: a value of that run range, and the two calls of the pair must not return the
   same run's value.  Only WHICH of the two values stays stored is left open (Amb). *)
Pair(s1, s2) ==
  /\ cfg.deco # "lazy" /\ cfg.pairs = 1 /\ Len(hist) < cfg.depth /\ Usable(s1) /\ Usable(s2)
  /\ LET k1 == Key(s1)
         k2 == Key(s2)
         h1 == k1 \in DOMAIN store
         h2 == k2 \in DOMAIN store
         n1 == Cnt(cnt, Args(s1)) + 1
         n2 == IF Args(s1) = Args(s2) /\ ~h1 THEN n1 + 1 ELSE Cnt(cnt, Args(s2)) + 1
         v1 == Args(s1) \o <<n1>>
         v2 == Args(s2) \o <<n2>>
         r1 == IF h1 THEN ResOf(store[k1]) ELSE IF Raises(s1) THEN <<"err">> \o v1 ELSE Shown(v1)
         r2 == IF h2 THEN ResOf(store[k2]) ELSE IF Raises(s2) THEN <<"err">> \o v2 ELSE Shown(v2)
         t1 == IF h1 THEN "hit" ELSE IF Raises(s1) THEN "raise" ELSE MissTag(k1)
         t2 == IF h2 THEN "hit" ELSE IF Raises(s2) THEN "raise" ELSE MissTag(k2)
         put1 == ~h1 /\ ~Raises(s1)
         put2 == ~h2 /\ ~Raises(s2)
         la == IF h1 THEN Touch(lru, k1) ELSE lru
         lb == IF h2 THEN Touch(la, k2) ELSE la
         lc == IF put1 THEN Touch(lb, k1) ELSE lb
         ld == IF put2 THEN Touch(lc, k2) ELSE lc
     IN
     /\ \A g \in 1..2 : Len(OfFun(ld, g)) <= MaxSize
     /\ cnt' = LET c1 == IF h1 THEN cnt ELSE Put(cnt, Args(s1), n1) IN IF h2 THEN c1 ELSE Put(c1, Args(s2), n2)
     /\ lru' = ld /\ UNCHANGED gone
     /\ IF k1 = k2 /\ ~h1
        THEN LET f == <<"fresh", IF Raises(s1) THEN "err" ELSE "val">> \o Args(s1) \o <<n1, n1 + 1>> IN
             /\ store' = IF put1 THEN Put(store, k1, Amb) ELSE store
             /\ hist' = Append(hist, Rec("pair", 0, <<s1, s2>>, IF Args(s1) = Args(s2) THEN <<f, f>> ELSE <<r1, r2>>, 2, <<t1, t2>>))
        ELSE /\ store' = LET sa == IF put1 THEN Put(store, k1, v1) ELSE store IN IF put2 THEN Put(sa, k2, v2) ELSE sa
             /\ hist' = Append(hist, Rec("pair", 0, <<s1, s2>>, <<r1, r2>>,
                                         (IF h1 THEN 0 ELSE 1) + (IF h2 THEN 0 ELSE 1), <<t1, t2>>))
  /\ UNCHANGED <<cfg, live, now, ltime, armed>>

(* instance 2 is garbage-collected: its cache vanishes.  Prescribed result: the decorator holds caches for at most
   |live| instances afterwards (compared only if the implementation exposes its per-instance table). *)
Drop == /\ cfg.deco = "inst" /\ cfg.nf = 1 /\ Len(hist) < cfg.depth /\ 2 \in live
        /\ LET dead == {k \in DOMAIN store : k[2] = 2} IN
           /\ live' = {1}
           /\ lru' = SelectSeq(lru, LAMBDA k : k[2] # 2)
           /\ store' = Without(store, dead)
           /\ gone' = [x \in DOMAIN gone \cup dead |-> IF x \in dead THEN "dropped" ELSE gone[x]]
        /\ hist' = Append(hist, Rec("drop", 2, <<>>, <<(<<"le", 1>>)>>, 0, <<"drop">>))
        /\ UNCHANGED <<cfg, cnt, now, ltime, armed>>
New == /\ cfg.deco = "inst" /\ cfg.nf = 1 /\ Len(hist) < cfg.depth /\ 2 \notin live
       /\ live' = {1, 2}
       /\ hist' = Append(hist, Rec("new", 2, <<>>, <<(<<"ok">>)>>, 0, <<"new">>))
       /\ UNCHANGED <<cfg, lru, store, cnt, gone, now, ltime, armed>>

(* alazy_constant: constant number g *)
LZ(g) == <<g>>
LArgs(g) == <<g, 0, 0, 0, 0, 0, 0>>
LValid(g) == ltime[g] # 0 /\ (cfg.ttl = 0 \/ now - ltime[g] < cfg.ttl)
LCall(g) == /\ cfg.deco = "lazy" /\ Len(hist) < cfg.depth
            /\ IF LValid(g)
               THEN /\ UNCHANGED <<store, cnt, ltime, armed, gone>>
                    /\ hist' = Append(hist, Rec("lcall", g, <<>>, <<ResOf(store[LZ(g)])>>, 0, <<"hit">>))
               ELSE LET n == Cnt(cnt, LArgs(g)) + 1
                        v == LArgs(g) \o <<n>>
                        why == IF ltime[g] # 0 THEN "expired" ELSE MissTag(LZ(g)) IN
                    /\ cnt' = Put(cnt, LArgs(g), n)
                    /\ IF armed
                       THEN /\ armed' = FALSE /\ UNCHANGED <<store, ltime, gone>>     \* a raise is not cached
                            /\ hist' = Append(hist, Rec("lcall", g, <<>>, <<(<<"err">> \o v)>>, 1, <<"raise">>))
                       ELSE /\ store' = Put(store, LZ(g), v) /\ ltime' = [ltime EXCEPT ![g] = now] /\ UNCHANGED <<armed, gone>>
                            /\ hist' = Append(hist, Rec("lcall", g, <<>>, <<Shown(v)>>, 1, <<why>>))
            /\ UNCHANGED <<cfg, lru, live, now>>
Dirty(g) == /\ cfg.deco = "lazy" /\ Len(hist) < cfg.depth
            /\ ltime' = [ltime EXCEPT ![g] = 0] /\ gone' = Put(gone, LZ(g), "dirty")
            /\ hist' = Append(hist, Rec("dirty", g, <<>>, <<(<<"ok">>)>>, 0, <<"dirty">>))
            /\ UNCHANGED <<cfg, lru, store, cnt, live, now, armed>>
Tick == /\ cfg.deco = "lazy" /\ Len(hist) < cfg.depth
        /\ now' = now + 3
        /\ hist' = Append(hist, Rec("tick", 3, <<>>, <<(<<"ok">>)>>, 0, <<"tick">>))
        /\ UNCHANGED <<cfg, lru, store, cnt, gone, live, ltime, armed>>
Arm == /\ cfg.deco = "lazy" /\ Len(hist) < cfg.depth /\ ~armed
       /\ armed' = TRUE
       /\ hist' = Append(hist, Rec("arm", 0, <<>>, <<(<<"ok">>)>>, 0, <<"arm">>))
       /\ UNCHANGED <<cfg, lru, store, cnt, gone, live, now, ltime>>

Next == \/ \E s \in Alpha(cfg) : Call(s)
        \/ (cfg.pairs = 1 /\ \E s1, s2 \in Alpha(cfg) : Pair(s1, s2))
        \/ Drop \/ New \/ Tick \/ Arm
        \/ \E g \in 1..cfg.nf : LCall(g) \/ Dirty(g)
Spec == Init /\ [][Next]_vars

(* ---------------------------------------------------------------- the property, on the model *)
StoreMatchesLru == cfg.deco # "lazy" => /\ DOMAIN store = Range(lru)
                                        /\ \A p, q \in 1..Len(lru) : p # q => lru[p] # lru[q]
SizeBound ==        \* per decorated function, also when one decorator object decorated both
  \A g \in 1..2 : Len(OfFun(lru, g)) <= MaxSize /\ Cardinality({k \in DOMAIN store : k[1] = g}) <= MaxSize
NeverShare ==       \* a stored value was computed by the key's function from arguments that normalise to the key
  cfg.deco # "lazy" => \A k \in DOMAIN store : store[k] # Amb => KeyOfVal(store[k]) = k
ReturnedOwn ==      \* every returned value was computed by the called function from arguments equal to the call's on every key parameter
  cfg.ret = "tuple" => \A j \in 1..Len(hist) : hist[j].op \in {"call", "pair"} =>
     \A q \in 1..Len(hist[j].calls) : hist[j].res[q][1] = "val" =>
        KeyOfVal(SubSeq(hist[j].res[q], 2, 9)) = Key(hist[j].calls[q])
RaiseNotCached == \A k \in DOMAIN store : cfg.deco # "lazy" => k[3] # 2
InstanceGone == cfg.deco = "inst" => \A k \in DOMAIN store : k[2] \in live
NoTtlBoundary == cfg.deco = "lazy" /\ cfg.ttl # 0 => \A g \in 1..2 : ltime[g] # 0 => now - ltime[g] # cfg.ttl
HitRunsNothing ==   \* a hit runs no body; a miss runs it exactly once (single calls), whatever the stored value is
  [][Len(hist') > Len(hist) /\ hist'[Len(hist')].op \in {"call", "lcall"} =>
       LET r == hist'[Len(hist')]
           changed == {x \in DOMAIN cnt' : Cnt(cnt', x) # Cnt(cnt, x)}
           ran == changed # {} IN
       /\ (r.tag[1] = "hit" <=> ~ran) /\ (r.tag[1] = "hit" <=> r.runs = 0)
       /\ (r.tag[1] # "hit" => r.runs = 1 /\ Cardinality(changed) = 1)]_vars
OneRecomputation == \* lazy constant: two calls of one constant in a row -> the second is a hit unless the first raised
  cfg.deco = "lazy" => \A j \in 1..(Len(hist) - 1) :
     hist[j].op = "lcall" /\ hist[j].tag[1] # "raise" /\ hist[j + 1].op = "lcall" /\ hist[j + 1].arg = hist[j].arg
        => hist[j + 1].runs = 0
EvictsLeastRecent ==  \* the evicted key is the least recently used key OF THE SAME FUNCTION; a hit or store moves the key to the end
  [][Len(hist') > Len(hist) /\ hist'[Len(hist')].op = "call" =>
       LET k == Key(hist'[Len(hist')].calls[1]) IN
       /\ (k \in DOMAIN store' => lru'[Len(lru')] = k)
       /\ \A x \in DOMAIN store : x \notin DOMAIN store' =>
             (x[1] = k[1] /\ Len(OfFun(lru, k[1])) = MaxSize /\ x = Head(OfFun(lru, k[1])))]_vars
OtherFunctionUntouched ==  \* a call of one function never changes what the other function has cached
  [][Len(hist') > Len(hist) /\ hist'[Len(hist')].op = "call" =>
       LET g == hist'[Len(hist')].calls[1].g IN
       \A x \in DOMAIN store : x[1] # g => (x \in DOMAIN store' /\ store'[x] = store[x])]_vars

Export == (Len(hist) = cfg.depth) => PrintT(ToJson([cfg |-> cfg, h |-> hist]))
=============================================================================
