----------------------------- MODULE ScopedCall -----------------------------
(* C07 (satellite) - asynq.tools.call_with_context and the AsyncScopedValue / async_override API.

   "A value read from an AsyncScopedValue, or an attribute set with async_override, inside any task is the one
    established by the innermost enclosing override in that task or in the tasks awaiting it - exactly what the same
    code would read if run sequentially - and after the computation ends, normally or with an error, every
    overridden value is back to what it was before."

   Three parts, one module (stage tells them apart):

   (1) CELLS (stage 0 -> 1), an ENUMERATING ORACLE.  A cell describes a small program around
         call_with_context(ctx, fn):   calling convention x outer override or not x parent catches or not x
         kind of the two slots x a list of BRANCHES awaited together by the parent, each branch one of
           sib  : a reader task (plain / blocking on the shared batch)
           cwc  : call_with_context.asynq(ctx1, [call_with_context, ctx2,] fn)   for each callee kind fn
           mid  : a task that opens its own override and calls call_with_context(...) SYNCHRONOUSLY
       Prog(cell) is the program as a table of task bodies (statement lists: enter/exit of an override, read,
       block on a batch item, await children, synchronous call, raise, try/catch).  The body of the
       call_with_context task is   enter ctx; <what fn.asynq(...) executes at call time>; await fn's task; exit
       - an @async_proxy body or a plain function behind async_call runs at call time, INSIDE the override.
       The prescribed value of every read is computed twice and the two must agree (invariant LexEqSeq):
         Lex: the innermost enclosing override of the slot, looking through the statements of the reading task
              and then of the tasks awaiting it (Env);
         Seq: a sequential interpreter with one mutable store and save/restore on enter/exit (RunTask).
   (2) HISTORIES (stage 2), a small state machine over the AsyncScopedValue API used by ONE body (plain code or
       a task with a sibling): enter an override (nested, same or other slot), leave the innermost one normally
       or by an exception, set() inside or outside an override, yield (block on a batch item).  After every
       operation both slots are read (get(), calling the object, getattr).  TLC explores every history up to
       Depth; the prescribed reads are the sequential ones.
   (3) FRESH: async_override on an attribute that does not exist - only "back to what it was before" (absent)
       is prescribed.

   What is NOT prescribed ("any", written -1): a slot that was assigned with set() inside an override and whose
   task was then suspended (the property names the override's value, the sequential reading the assigned one);
   reads of a sibling of a slot that another task assigned outside its own overrides (no sequential order
   between siblings); whether the reads of the OTHER branches still happen when one branch fails (their values are
   prescribed if they happen). *)
EXTENDS Naturals, Integers, Sequences, FiniteSets, TLC, Json, IOUtils

Depth == IF "DEPTH" \in DOMAIN IOEnv THEN atoi(IOEnv.DEPTH) ELSE 4
Tier  == IF "TIER" \in DOMAIN IOEnv THEN IOEnv.TIER ELSE "quick"
Part  == IF "PART" \in DOMAIN IOEnv THEN IOEnv.PART ELSE "all"         \* "all" | "cells" | "hist"

VARIABLES stage, cell, out, hist, stk, cur, basev, sibany
vars == <<stage, cell, out, hist, stk, cur, basev, sibany>>

Base == <<1, 2>>            \* the values of slot 1 (X) and slot 2 (Y) outside every override
OUT  == 20                  \* the parent's outer override of slot 1
AnyV  == 0 - 1
La(s) == s[Len(s)]
Fr(s) == SubSeq(s, 1, Len(s) - 1)
Rng(s) == {s[j] : j \in 1..Len(s)}
MaxOf(S) == CHOOSE m \in S : \A n \in S : n <= m

(* ================================================================ (1) programs *)
St(op, s, v, l, ts) == [op |-> op, s |-> s, v |-> v, l |-> l, ts |-> ts]
Enter(s, v) == St("enter", s, v, "", <<>>)       \* with <override of slot s with v>:
ExitS       == St("exit", 0, 0, "", <<>>)        \* end of the innermost with-block of this body
Read(l)     == St("read", 0, 0, l, <<>>)         \* read both slots, label l
Block       == St("block", 0, 0, "", <<>>)       \* yield a batch item
Await(ts)   == St("await", 0, 0, "", ts)         \* yield the tasks ts together
CallS(t)    == St("call", 0, 0, "", <<t>>)       \* run task t synchronously, here
Raise       == St("raise", 0, 0, "", <<>>)
Try         == St("try", 0, 0, "", <<>>)
Catch       == St("catch", 0, 0, "", <<>>)       \* end of the try body; the handler is empty

TaskKinds   == {"gen", "meth", "cmeth", "smeth", "acpure", "acgen"}    \* reads before and after a block, in fn's own task
InlineKinds == {"pconst", "acsync"}                                    \* read at call time, nothing left to await
BothKinds   == {"ptask", "wrap"}                                       \* read at call time and return a task
Tid(i, k) == 1 + 4 * (i - 1) + k            \* branch i owns the tasks Tid(i, 1..4): mid, cwc1, cwc2, fn / sibling
L(i, n) == "b" \o ToString(i) \o "." \o n
V(i, d) == 100 * i + d                       \* the values of branch i: cwc1 30, cwc2 31, mid 40, own 50

FailTail(B) == IF B.fail = 1 THEN <<Raise>> ELSE <<>>
CalleeTask(i, B) ==
  CASE B.fk \in TaskKinds \cup BothKinds -> <<Read(L(i, "pre")), Block, Read(L(i, "post"))>> \o FailTail(B)
    [] B.fk = "plain" -> <<Read(L(i, "run"))>> \o FailTail(B)
    [] B.fk = "own" -> <<Read(L(i, "a")), Enter(1, V(i, 50)), Read(L(i, "b")), Block, Read(L(i, "c"))>> \o FailTail(B)
                       \o <<ExitS, Read(L(i, "d"))>>
    [] OTHER -> <<>>
CalleeInline(i, B) ==                        \* what `fn.asynq(*args)` does inside call_with_context's with-block
  CASE B.fk \in InlineKinds -> <<Read(L(i, "call"))>> \o FailTail(B)
    [] B.fk \in BothKinds -> <<Read(L(i, "call")), Await(<<Tid(i, 4)>>)>>
    [] OTHER -> <<Await(<<Tid(i, 4)>>)>>
BranchBody(i, B, k) ==
  CASE k = 1 -> IF B.b = "mid" THEN <<Enter(1, V(i, 40)), Read(L(i, "m0")), CallS(Tid(i, 2)), Read(L(i, "m1")), ExitS>> ELSE <<>>
    [] k = 2 -> IF B.b = "sib" THEN <<>>
                ELSE <<Enter(B.ov[1], V(i, 30))>> \o (IF Len(B.ov) = 2 THEN <<Await(<<Tid(i, 3)>>)>> ELSE CalleeInline(i, B)) \o <<ExitS>>
    [] k = 3 -> IF B.b # "sib" /\ Len(B.ov) = 2 THEN <<Enter(B.ov[2], V(i, 31))>> \o CalleeInline(i, B) \o <<ExitS>> ELSE <<>>
    [] OTHER -> IF B.b = "sib" THEN (IF B.k = "plain" THEN <<Read(L(i, "s0"))>> ELSE <<Read(L(i, "s0")), Block, Read(L(i, "s1"))>>)
                ELSE CalleeTask(i, B)
EntryOf(i, B) == IF B.b = "mid" THEN Tid(i, 1) ELSE IF B.b = "sib" THEN Tid(i, 4) ELSE Tid(i, 2)
Entries(c) == [i \in 1..Len(c.br) |-> EntryOf(i, c.br[i])]
RootBody(c) ==
  (IF c.outer = 1 THEN <<Enter(1, OUT)>> ELSE <<>>) \o <<Read("r0")>> \o (IF c.catch = 1 THEN <<Try>> ELSE <<>>)
  \o (IF c.conv = "yield" THEN <<Await(Entries(c))>> ELSE <<CallS(Entries(c)[1])>>)
  \o (IF c.catch = 1 THEN <<Catch>> ELSE <<>>) \o <<Read("r1")>> \o (IF c.outer = 1 THEN <<ExitS>> ELSE <<>>) \o <<Read("r2")>>
Prog(c) == [t \in 1..(1 + 4 * Len(c.br)) |->
              IF t = 1 THEN RootBody(c) ELSE LET i == ((t - 2) \div 4) + 1 IN BranchBody(i, c.br[i], ((t - 2) % 4) + 1)]

(* ---------------------------------------------------------------- Lex: innermost enclosing override *)
RECURSIVE OpenAt(_, _)
OpenAt(body, i) ==          \* the overrides <<slot, value>> whose with-block encloses statement i of this body
  IF i = 1 THEN <<>>
  ELSE LET o == OpenAt(body, i - 1)
           st == body[i - 1]
       IN IF st.op = "enter" THEN Append(o, <<st.s, st.v>>) ELSE IF st.op = "exit" THEN Fr(o) ELSE o
AwaitersOf(P, u) == UNION {{<<t, j>> : j \in {j \in 1..Len(P[t]) : P[t][j].op \in {"await", "call"} /\ u \in Rng(P[t][j].ts)}} : t \in DOMAIN P}
RECURSIVE Env(_, _, _)
Env(P, t, i) ==             \* outermost first: the awaiting tasks' enclosing overrides, then the task's own
  LET aw == AwaitersOf(P, t)
  IN (IF aw = {} THEN <<>> ELSE LET a == CHOOSE a \in aw : TRUE IN Env(P, a[1], a[2])) \o OpenAt(P[t], i)
Innermost(env, s) == LET ix == {k \in 1..Len(env) : env[k][1] = s} IN IF ix = {} THEN Base[s] ELSE env[MaxOf(ix)][2]
LexRead(P, t, i) == LET env == Env(P, t, i) IN <<Innermost(env, 1), Innermost(env, 2)>>

(* ---------------------------------------------------------------- Seq: the same code run sequentially *)
(* G = [store, reads, err]; loc = [ovs: saved values of the with-blocks open in this body, trys: their number at each
   open try].  Children awaited together are run one after the other, ALL of them (asynq starts them all), and the
   await raises afterwards if one of them failed. *)
RECURSIVE Unwind(_, _, _)
Unwind(G, ovs, m) == IF Len(ovs) <= m THEN G ELSE Unwind([G EXCEPT !.store[La(ovs)[1]] = La(ovs)[2]], Fr(ovs), m)
CatchAfter(body, i) == CHOOSE j \in (i + 1)..Len(body) : body[j].op = "catch" /\ \A k \in (i + 1)..(j - 1) : body[k].op # "catch"
RECURSIVE Step(_, _, _, _, _), RunAll(_, _, _, _), Throw(_, _, _, _, _)
RunTask(P, t, G) == Step(P, t, 1, [ovs |-> <<>>, trys |-> <<>>], [G EXCEPT !.err = FALSE])
Step(P, t, i, loc, G) ==
  IF i > Len(P[t]) THEN G
  ELSE LET st == P[t][i] IN
    CASE st.op = "enter" -> Step(P, t, i + 1, [loc EXCEPT !.ovs = Append(@, <<st.s, G.store[st.s]>>)], [G EXCEPT !.store[st.s] = st.v])
      [] st.op = "exit"  -> Step(P, t, i + 1, [loc EXCEPT !.ovs = Fr(@)], [G EXCEPT !.store[La(loc.ovs)[1]] = La(loc.ovs)[2]])
      [] st.op = "read"  -> Step(P, t, i + 1, loc, [G EXCEPT !.reads = Append(@, [l |-> st.l, t |-> t, i |-> i, x |-> G.store[1], y |-> G.store[2]])])
      [] st.op \in {"await", "call"} -> LET G1 == RunAll(P, st.ts, 1, G) IN IF G1.err THEN Throw(P, t, i, loc, G1) ELSE Step(P, t, i + 1, loc, G1)
      [] st.op = "raise" -> Throw(P, t, i, loc, G)
      [] st.op = "try"   -> Step(P, t, i + 1, [loc EXCEPT !.trys = Append(@, Len(loc.ovs))], G)
      [] st.op = "catch" -> Step(P, t, i + 1, [loc EXCEPT !.trys = Fr(@)], G)
      [] OTHER -> Step(P, t, i + 1, loc, G)
Throw(P, t, i, loc, G) ==
  IF loc.trys = <<>> THEN [Unwind(G, loc.ovs, 0) EXCEPT !.err = TRUE]      \* every with-block of the body is left
  ELSE LET m == La(loc.trys) IN
       Step(P, t, CatchAfter(P[t], i) + 1, [ovs |-> SubSeq(loc.ovs, 1, m), trys |-> Fr(loc.trys)], [Unwind(G, loc.ovs, m) EXCEPT !.err = FALSE])
RunAll(P, ts, k, G) ==
  IF k > Len(ts) THEN G
  ELSE LET G1 == RunTask(P, ts[k], G) IN RunAll(P, ts, k + 1, [G1 EXCEPT !.err = G.err \/ G1.err])
SeqRun(P) == RunTask(P, 1, [store |-> Base, reads |-> <<>>, err |-> FALSE])

(* ---------------------------------------------------------------- cells *)
Br(b, k, ov, fk, fail) == [b |-> b, k |-> k, ov |-> ov, fk |-> fk, fail |-> fail]
Sibs == {Br("sib", k, <<>>, "none", 0) : k \in {"plain", "gen"}}
FnKinds == IF Tier = "quick" THEN {"gen", "plain", "pconst", "ptask", "acsync", "acpure", "meth", "cmeth", "own"}
           ELSE {"gen", "plain", "pconst", "ptask", "acsync", "acpure", "meth", "cmeth", "own", "smeth", "acgen", "wrap"}
Ovs == {<<1>>, <<2>>, <<1, 1>>, <<1, 2>>}
Cwcs == {Br("cwc", "none", ov, fk, f) : ov \in Ovs, fk \in FnKinds, f \in {0, 1}}
Mids == {Br("mid", "none", ov, fk, f) : ov \in {<<1>>, <<1, 2>>}, fk \in {"gen", "plain", "pconst", "ptask"}, f \in {0, 1}}
CorePair == {Br("cwc", "none", ov, fk, f) : ov \in {<<1>>, <<1, 1>>}, fk \in {"gen", "pconst", "own"}, f \in {0, 1}}
Calls == Cwcs \cup Mids
SlotKinds == IF Tier = "quick" THEN {"sv", "attr"} ELSE {"sv", "attr", "mix"}      \* mix: slot 1 a scoped value, slot 2 an attribute
Cell(sk, conv, outer, catch, br) == [api |-> "cwc", sk |-> sk, conv |-> conv, outer |-> outer, catch |-> catch, br |-> br]
Fails(br) == \E i \in 1..Len(br) : br[i].fail = 1
(* stage 0: a stub naming everything but the branches after the first (so that TLC's workers share the enumeration);
   stage 1: a cell.  The lists of branches awaited together that start with branch b: *)
ListsFrom(b) ==
  IF b \in Sibs
  THEN {<<b, c>> : c \in Calls}
       \cup (IF Tier = "quick" THEN {} ELSE {<<b, c, d>> : c \in CorePair, d \in CorePair})
  ELSE {<<b>>} \cup {<<b, s>> : s \in Sibs}
       \cup (IF Tier = "quick" THEN (IF b \in CorePair THEN {<<b, c>> : c \in CorePair} ELSE {})
             ELSE {<<b, c>> : c \in (IF b \in CorePair THEN Calls ELSE CorePair)}        \* two calls, one of them a core one
                  \cup (IF b \in CorePair THEN {<<b, s, c>> : s \in Sibs, c \in CorePair} ELSE {}))
Stubs == {Cell(sk, conv, outer, 0, <<b>>) : sk \in SlotKinds, conv \in {"yield", "sync", "value"}, outer \in {0, 1}, b \in Sibs \cup Calls}
         \cup {[api |-> "fresh", sk |-> "attr", conv |-> conv, outer |-> 0, catch |-> 0, br |-> <<>>] : conv \in {"plain", "task", "cwc", "cwcproxy"}}
CellsOf(stub) ==
  IF stub.api = "fresh" THEN {stub}
  ELSE LET brs == IF stub.conv = "yield" THEN ListsFrom(stub.br[1])
                  ELSE IF stub.br[1].b = "cwc" THEN {stub.br} ELSE {}        \* a synchronous call has no siblings
       IN {Cell(stub.sk, stub.conv, stub.outer, 0, br) : br \in brs}
          \cup {Cell(stub.sk, stub.conv, stub.outer, 1, br) : br \in {br \in brs : Fails(br)}}   \* a try without a failure adds nothing

(* the facts of a cell, computed once: the reads the sequential run executes, each with the value Seq gives it (sx, sy),
   the value Lex gives it (x, y: the PRESCRIBED one), its branch, and whether it must happen *)
BranchOfTask(t) == IF t = 1 THEN 0 ELSE ((t - 2) \div 4) + 1
NFail(br) == Cardinality({i \in 1..Len(br) : br[i].fail = 1})
Must(c, t) ==             \* which of the OTHER awaited branches still run when one fails is not this property's business
  LET bi == BranchOfTask(t) IN bi = 0 \/ NFail(c.br) = 0 \/ (NFail(c.br) = 1 /\ c.br[bi].fail = 1)
CellOut(c) ==
  IF c.api = "fresh"      \* override of a missing attribute with 5: whether it can be entered is not prescribed; a read inside
                          \* (if reached) gives 5, and afterwards the attribute is what it was before: absent
  THEN [reads |-> <<>>, fin |-> Base, inside |-> 5, after |-> "absent"]
  ELSE LET P == Prog(c)
           g == SeqRun(P)
       IN [reads |-> [k \in 1..Len(g.reads) |-> LET r == g.reads[k]
                                                     v == LexRead(P, r.t, r.i)
                                                 IN [l |-> r.l, x |-> v[1], y |-> v[2], sx |-> r.x, sy |-> r.y,
                                                     bi |-> BranchOfTask(r.t), must |-> Must(c, r.t)]],
           fin |-> g.store]

(* ================================================================ (2) histories of the API *)
Ent(s, v, saved, own) == [s |-> s, v |-> v, saved |-> saved, own |-> own, dirty |-> FALSE, taint |-> FALSE]
EntsOf(s) == {k \in 1..Len(stk) : stk[k].s = s}
Presc(st, c, s) == LET ix == {k \in 1..Len(st) : st[k].s = s} IN IF ix # {} /\ st[MaxOf(ix)].taint THEN AnyV ELSE c[s]
HOp(op, s, v, st, c) == [op |-> op, s |-> s, v |-> v, x |-> Presc(st, c, 1), y |-> Presc(st, c, 2)]
Growing == stage = 2 /\ Len(hist) < Depth
LastOp == IF hist = <<>> THEN "none" ELSE La(hist).op

HEnter(s) ==
  /\ Growing
  /\ LET v == 30 + Len(hist)
         st == Append(stk, Ent(s, v, cur[s], "t"))
         c == [cur EXCEPT ![s] = v]
     IN stk' = st /\ cur' = c /\ hist' = Append(hist, HOp("enter", s, v, st, c))
  /\ UNCHANGED <<stage, cell, out, basev, sibany>>
HExit(how) ==             \* leave the innermost with-block of the body: "exit" normally, "exiterr" by an exception
  /\ Growing /\ stk # <<>> /\ La(stk).own = "t"
  /\ LET e == La(stk)
         st == Fr(stk)
         c == [cur EXCEPT ![e.s] = e.saved]
     IN stk' = st /\ cur' = c /\ hist' = Append(hist, HOp(how, e.s, 0, st, c))
  /\ UNCHANGED <<stage, cell, out, basev, sibany>>
HSet(s) ==                \* sv.set(v) / obj.attr = v: local to the innermost enclosing override of the slot
  /\ Growing /\ ~(LastOp = "set" /\ La(hist).s = s)
  /\ LET v == 70 + Len(hist)
         ix == EntsOf(s)
         st == IF ix = {} THEN stk ELSE [stk EXCEPT ![MaxOf(ix)].dirty = TRUE]
         c == [cur EXCEPT ![s] = v]
     IN /\ stk' = st /\ cur' = c /\ hist' = Append(hist, HOp("set", s, v, st, c))
        /\ basev' = IF ix = {} THEN [basev EXCEPT ![s] = v] ELSE basev
        /\ sibany' = IF ix = {} \/ stk[MaxOf(ix)].own = "root" THEN [sibany EXCEPT ![s] = TRUE] ELSE sibany
  /\ UNCHANGED <<stage, cell, out>>
HYield ==                 \* the body blocks on a batch item: its overrides are paused and resumed
  /\ Growing /\ LastOp # "yield"
  /\ LET st == [k \in 1..Len(stk) |-> [stk[k] EXCEPT !.taint = @ \/ stk[k].dirty]]
     IN stk' = st /\ hist' = Append(hist, HOp("yield", 0, 0, st, cur))
  /\ UNCHANGED <<stage, cell, out, cur, basev, sibany>>

(* after the body: the with-blocks still open are left; then the parent reads (r1), leaves its own override, and the
   caller reads the final values *)
RECURSIVE Leave(_, _)
Leave(st, c) == IF st = <<>> \/ La(st).own = "root" THEN [st |-> st, c |-> c] ELSE Leave(Fr(st), [c EXCEPT ![La(st).s] = La(st).saved])
RootDirty(st) == st # <<>> /\ st[1].own = "root" /\ (st[1].dirty \/ st[1].taint)
HistOut ==
  LET a == Leave(stk, cur)
      outer == a.st # <<>>
  IN [outer |-> IF outer THEN 1 ELSE 0, ops |-> hist,
      r1 |-> <<IF RootDirty(a.st) THEN AnyV ELSE a.c[1], a.c[2]>>,
      fin |-> <<IF outer THEN Base[1] ELSE a.c[1], a.c[2]>>,
      sib |-> <<IF sibany[1] THEN AnyV ELSE IF outer THEN OUT ELSE Base[1], IF sibany[2] THEN AnyV ELSE Base[2]>>]

(* ================================================================ the machine *)
Dummy == [api |-> "none", sk |-> "sv", conv |-> "none", outer |-> 0, catch |-> 0, br |-> <<>>]
NoOut == [reads |-> <<>>, fin |-> Base]
Init ==
  \/ /\ Part \in {"all", "cells"} /\ stage = 0 /\ cell \in Stubs /\ out = NoOut
     /\ hist = <<>> /\ stk = <<>> /\ cur = Base /\ basev = Base /\ sibany = <<FALSE, FALSE>>
  \/ /\ Part \in {"all", "hist"} /\ stage = 2 /\ cell = Dummy /\ out = NoOut /\ hist = <<>> /\ basev = Base /\ sibany = <<FALSE, FALSE>>
     /\ \/ stk = <<>> /\ cur = Base
        \/ stk = <<Ent(1, OUT, Base[1], "root")>> /\ cur = <<OUT, Base[2]>>
Next ==
  \/ stage = 0 /\ stage' = 1 /\ cell' \in CellsOf(cell) /\ out' = CellOut(cell') /\ UNCHANGED <<hist, stk, cur, basev, sibany>>
  \/ \E s \in {1, 2} : HEnter(s) \/ HSet(s)
  \/ HExit("exit") \/ HExit("exiterr")
  \/ HYield
Spec == Init /\ [][Next]_vars

(* ================================================================ the model's own algebra (one cfg line each) *)
IsCell == stage = 1 /\ cell.api = "cwc"
Reads == out.reads
(* the two readings of the property agree: innermost enclosing override = the same code run sequentially *)
LexEqSeq == IsCell => \A k \in 1..Len(Reads) : Reads[k].x = Reads[k].sx /\ Reads[k].y = Reads[k].sy
(* after the computation, normally or with an error, every value is back *)
RestoredAtEnd == IsCell => out.fin = Base
(* no task ever reads a value established in another branch: a sibling never sees the callee's override *)
Isolation == IsCell => \A k \in 1..Len(Reads) :
  /\ Reads[k].x \in {Base[1], OUT} \/ Reads[k].x \div 100 = Reads[k].bi
  /\ Reads[k].y = Base[2] \/ Reads[k].y \div 100 = Reads[k].bi
SiblingSeesOuter == IsCell => \A k \in 1..Len(Reads) : \A i \in 1..Len(cell.br) :
  (cell.br[i].b = "sib" /\ Reads[k].bi = i) => Reads[k].x = (IF cell.outer = 1 THEN OUT ELSE Base[1]) /\ Reads[k].y = Base[2]
(* inside fn - at call time, before and after a block - the slot overridden by call_with_context holds that value *)
CalleeSeesOverride == IsCell =>
  \A i \in 1..Len(cell.br) : cell.br[i].b # "sib" =>
    \A k \in 1..Len(Reads) : Reads[k].l \in {L(i, "call"), L(i, "pre"), L(i, "post"), L(i, "run"), L(i, "a"), L(i, "d")} =>
      LET ov == cell.br[i].ov
          s == La(ov)
          want == V(i, IF Len(ov) = 2 THEN 31 ELSE 30)
      IN (IF s = 1 THEN Reads[k].x ELSE Reads[k].y) = want
(* the parent reads its own value again after the await, and the base value after its with-block *)
ParentReads == IsCell => \A k \in 1..Len(Reads) :
  /\ Reads[k].l \in {"r0", "r1"} => Reads[k].x = (IF cell.outer = 1 THEN OUT ELSE Base[1]) /\ Reads[k].y = Base[2]
  /\ Reads[k].l = "r2" => Reads[k].x = Base[1] /\ Reads[k].y = Base[2]
(* histories: the save/restore discipline composes - leaving every open block gives the base values back, and an
   untouched slot reads its innermost override *)
IsHist == stage = 2
RECURSIVE LeaveAll(_, _)
LeaveAll(st, c) == IF st = <<>> THEN c ELSE LeaveAll(Fr(st), [c EXCEPT ![La(st).s] = La(st).saved])
HistRestores == IsHist => LeaveAll(stk, cur) = basev
HistInnermost == IsHist => \A s \in {1, 2} : EntsOf(s) # {} /\ ~stk[MaxOf(EntsOf(s))].dirty => cur[s] = stk[MaxOf(EntsOf(s))].v
HistSavedChain == IsHist => \A k \in 1..Len(stk) :            \* what a block saved is what the slot held just outside it
  LET below == {j \in 1..(k - 1) : stk[j].s = stk[k].s}
  IN (below # {} /\ ~stk[MaxOf(below)].dirty) => stk[k].saved = stk[MaxOf(below)].v

Export ==
  /\ stage = 1 => PrintT(ToJson([kind |-> "cell", cell |-> cell, out |-> out]))
  /\ (stage = 2 /\ Len(hist) = Depth) => PrintT(ToJson([kind |-> "hist", out |-> HistOut]))
=============================================================================
