SPECIFICATION Spec
CHECK_DEADLOCK FALSE
INVARIANT InFragment
INVARIANT SameOutcome
INVARIANT AwaitedToCompletion
INVARIANT ModeConfined
INVARIANT SyncRefused
INVARIANT Export
