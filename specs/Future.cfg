SPECIFICATION Spec
CHECK_DEADLOCK FALSE
INVARIANT AtMostOneRun
INVARIANT NotifiedOncePerCompletion
INVARIANT NotifiedOnlyWhenComplete
INVARIANT BornComplete
INVARIANT Export
PROPERTY SingleAssignment
PROPERTY AllNotified
