SPECIFICATION Spec
CHECK_DEADLOCK FALSE
INVARIANT SafeRunsAll
INVARIANT OkMeansAllRan
INVARIANT RaisesIffFailed
INVARIANT FirstError
INVARIANT NoGhostCalls
INVARIANT SubEffect
INVARIANT OnceOnce
INVARIANT SingleFlush
INVARIANT Export
