----------------------------- MODULE DiagLife -----------------------------
(* C18 (c) - str / repr / dump of every asynq object never raise in any state; format_error accepts any
   exception with or without traceback.

   The specification contributes the LIFECYCLE of every object kind: one small state machine per kind (table T:
   kind, state, operation, next state).  TLC enumerates every operation history of every kind up to Depth; the
   harness drives a real object along each history and, after every operation - i.e. in every state, at the
   moment the object is in it (inside the task body, inside _flush, ...) - calls str(), repr(), .dump(),
   asynq.debug.str/repr on the object and str/repr/dump on the scheduler.  The prescribed result of every step
   is <<"ok">> (the diagnostics returned); anything raised is a violation.

   Value kinds: the kinds that HOLD a user value (a future's / item's / task's value, a scoped value's default,
   set and override value, the override contexts' value, generator.Value) are enumerated with every kind of value:
   None, int, str, empty tuple, 1-tuple, 2-tuple, list, dict, a string full of '%' characters - all "ordinary":
   the diagnostics must not raise - and an object whose own __repr__ raises ("badrepr": nothing prescribed, "any").

   format_error is an enumerated product (kind "format_error"): exception kind x explicit tb argument x
   filter_traceback on/off x syntax highlighting on/off; prescribed: <<"none">> for error None, else <<"str">>. *)
EXTENDS Integers, Sequences, FiniteSets, TLC, Json, IOUtils

Depth == IF "DEPTH" \in DOMAIN IOEnv THEN atoi(IOEnv.DEPTH) ELSE 5

Tr(k, rows) == {<<k, x[1], x[2], x[3]>> : x \in rows}
T ==
  Tr("future",  {<<"none", "create", "uncomputed">>,                          \* Future(provider)
                 <<"uncomputed", "compute_ok", "value">>, <<"uncomputed", "compute_raise", "error">>,
                 <<"uncomputed", "set_error", "error">>,
                 <<"uncomputed", "set_self", "selfvalue">>,                     \* a future whose value is itself
                 <<"uncomputed", "set_cycle", "cyclevalue">>,                   \* ... whose value contains itself
                 <<"uncomputed", "set_mutual", "mutualvalue">>,                 \* ... whose value is a future whose value is this one
                 <<"value", "reset", "uncomputed">>, <<"error", "reset", "uncomputed">>,
                 <<"selfvalue", "reset", "uncomputed">>, <<"cyclevalue", "reset", "uncomputed">>,
                 <<"mutualvalue", "reset", "uncomputed">>}) \cup
  Tr("const",   {<<"none", "create", "value">>}) \cup                           \* ConstFuture
  Tr("errfut",  {<<"none", "create", "error">>}) \cup                           \* ErrorFuture
  Tr("task",    {<<"none", "create", "new">>,                                   \* AsyncTask
                 <<"new", "start", "running">>,                                   \* inside its own body
                 <<"running", "block", "blocked">>,                               \* awaits a batch item (seen from _flush)
                 <<"running", "block_child", "blocked_child">>,                   \* awaits a task that awaits a batch item
                 <<"blocked", "resume", "resumed">>, <<"blocked_child", "resume", "resumed">>,
                 <<"blocked", "resume_err", "handling">>,                         \* the item's error is thrown in at the yield
                 <<"running", "return", "value">>, <<"resumed", "return", "value">>, <<"handling", "return", "value">>,
                 <<"running", "raise", "error">>, <<"resumed", "raise", "error">>, <<"handling", "raise", "error">>}) \cup
  Tr("batch",   {<<"none", "create", "empty">>,                                 \* a BatchBase subclass
                 <<"empty", "add", "items">>, <<"items", "add", "items">>,
                 <<"empty", "flush_begin", "flushing_empty">>, <<"items", "flush_begin", "flushing">>,    \* inside _flush
                 <<"flushing_empty", "flush_end", "flushed_empty">>, <<"flushing", "flush_end", "flushed">>,
                 <<"flushing_empty", "flush_fail", "cancelled">>, <<"flushing", "flush_fail", "cancelled">>,
                 <<"empty", "cancel", "cancelled">>, <<"items", "cancel", "cancelled">>}) \cup
  Tr("dbatch",  {<<"none", "create", "empty">>,                                 \* asynq.batching.DebugBatch
                 <<"empty", "add", "items">>, <<"items", "add", "items">>,
                 <<"items", "flush_begin", "flushing">>, <<"flushing", "flush_end", "flushed">>,
                 <<"empty", "flush", "flushed_empty">>,
                 <<"empty", "cancel", "cancelled">>, <<"items", "cancel", "cancelled">>}) \cup
  Tr("item",    {<<"none", "create", "pending">>,                               \* a BatchItemBase subclass, by the state of its batch
                 <<"pending", "flush_begin", "in_flush">>,
                 <<"in_flush", "set", "set_in_flush">>, <<"in_flush", "set_error", "err_in_flush">>,
                 <<"set_in_flush", "flush_end", "value">>, <<"err_in_flush", "flush_end", "error">>,
                 <<"in_flush", "flush_end", "error">>,                            \* never set: AssertionError
                 <<"in_flush", "flush_fail", "error">>, <<"set_in_flush", "flush_fail", "value">>,
                 <<"pending", "cancel", "error">>}) \cup
  Tr("ditem",   {<<"none", "create", "pending">>,                               \* DebugBatchItem
                 <<"pending", "flush", "value">>, <<"pending", "cancel", "error">>}) \cup
  Tr("sched",   {<<"none", "create", "idle">>,                                  \* TaskScheduler
                 <<"idle", "enter_task", "in_task">>,
                 <<"in_task", "nested", "nested">>,                               \* a synchronous call inside a task
                 <<"in_task", "schedule_batch", "with_batches">>,                 \* inside a task while a batch is scheduled
                 <<"with_batches", "flush", "in_flush">>,                         \* inside a batch flush
                 <<"in_task", "finish", "idle_after">>, <<"nested", "finish", "idle_after">>,
                 <<"with_batches", "finish", "idle_after">>, <<"in_flush", "finish", "idle_after">>}) \cup
  Tr("scoped",  {<<"none", "create", "default">>,                               \* AsyncScopedValue
                 <<"default", "set", "set">>,
                 <<"default", "override_enter", "overridden">>, <<"set", "override_enter", "overridden">>,
                 <<"overridden", "override_exit", "restored">>}) \cup
  Tr("override", {<<"none", "create", "inactive">>,                             \* AsyncScopedValue.override(...) context
                 <<"inactive", "enter", "active">>, <<"active", "pause", "paused">>, <<"paused", "resume", "active">>,
                 <<"active", "exit", "exited">>}) \cup
  Tr("propoverride", {<<"none", "create", "inactive">>,                         \* async_override(obj, name, value) context
                 <<"inactive", "enter", "active">>, <<"active", "pause", "paused">>, <<"paused", "resume", "active">>,
                 <<"active", "exit", "exited">>}) \cup
  Tr("agen",    {<<"none", "create", "fresh">>,                                 \* an @async_generator() object
                 <<"fresh", "next_task", "pending">>,                             \* advanced, the yielded task not yet computed
                 <<"pending", "compute", "advanced">>,
                 <<"advanced", "next_value", "advanced_value">>,
                 <<"advanced_value", "next_stop", "stopped">>, <<"stopped", "next_stop", "stopped">>,
                 \* the consumer gives up early: the underlying generator is closed
                 <<"fresh", "close", "closed">>, <<"pending", "close", "closed">>, <<"advanced", "close", "closed">>,
                 <<"advanced_value", "close", "closed">>}) \cup
  Tr("agenfail", {<<"none", "create", "fresh">>,                                \* an async generator whose body raises after an awaited step
                 <<"fresh", "next_task", "pending">>,
                 <<"pending", "compute_fail", "failed">>,                         \* the yielded task fails with the body's error
                 <<"failed", "next_after", "failed_again">>}) \cup
  Tr("agvalue", {<<"none", "create", "made">>})                                  \* asynq.generator.Value

Kinds == {x[1] : x \in T}
StatesOf(k) == {x[4] : x \in {y \in T : y[1] = k}}

(* format_error product *)
ExcKinds == {"task_raised",        \* raised inside an asynq task and caught by the caller: has _task / _traceback
             "task_chained",       \* raised inside a task while handling another task's error
             "plain_new",          \* constructed, never raised
             "plain_raised",       \* raised and caught outside asynq: __traceback__ only
             "cause", "context",   \* chained: raise .. from .. / raised inside an except block
             "prepared",           \* qcore prepare_for_reraise: has _traceback, no _task
             "task_only",          \* has _task but no _traceback
             "tb_none",            \* _traceback attribute is None
             "base",               \* a BaseException subclass that is not an Exception, raised and caught
             "base_new",           \* ... constructed, never raised
             "none"}               \* error is None
Cells == [exc : ExcKinds, tb : {"no", "yes"}, filter : {"on", "off"}, highlight : {"on", "off"}]
NoCell == [exc |-> "-", tb |-> "-", filter |-> "-", highlight |-> "-"]

Holders == {"future", "const", "task", "item", "ditem", "scoped", "override", "propoverride", "agvalue"}
Ordinary == {"none", "int", "str", "tuple0", "tuple1", "tuple2", "list", "dict", "percent"}
ValueKinds == Ordinary \cup {"badrepr"}

VARIABLES kind, val, st, cell, hist
vars == <<kind, val, st, cell, hist>>

Init == /\ \/ kind \in Kinds /\ cell = NoCell /\ val \in (IF kind \in Holders THEN ValueKinds ELSE {"-"})
           \/ kind = "format_error" /\ cell \in Cells /\ val = "-"
        /\ st = "none" /\ hist = <<>>

Step == /\ kind # "format_error" /\ Len(hist) < Depth
        /\ \E x \in T : /\ x[1] = kind /\ x[2] = st
                        /\ st' = x[4]
                        /\ hist' = Append(hist, [op |-> x[3], st |-> x[4], res |-> IF val = "badrepr" THEN <<"any">> ELSE <<"ok">>])
        /\ UNCHANGED <<kind, val, cell>>

FormatError == /\ kind = "format_error" /\ hist = <<>>
               /\ st' = "done"
               /\ hist' = <<[op |-> "format_error", st |-> "done", res |-> IF cell.exc = "none" THEN <<"none">> ELSE <<"str", "names">>]>>     \* faithful: the text names the exception (class and message)
               /\ UNCHANGED <<kind, val, cell>>

Next == Step \/ FormatError
Spec == Init /\ [][Next]_vars

(* ---- on the model ---- *)
DiagnosticsTotal == \A n \in 1..Len(hist) : (kind # "format_error" /\ val \in Ordinary \cup {"-"}) => hist[n].res = <<"ok">>
FormatErrorTotal == (kind = "format_error" /\ hist # <<>>) => hist[1].res \in {<<"str", "names">>, <<"none">>} /\ (hist[1].res = <<"none">> <=> cell.exc = "none")
StateDeclared == kind # "format_error" => st \in StatesOf(kind) \cup {"none"}
(* every declared state is reachable from "none" (so every (kind, state) pair is visited when Depth is large enough) *)
RECURSIVE Reach(_, _)
Reach(k, S) == LET N == S \cup {x[4] : x \in {y \in T : y[1] = k /\ y[2] \in S}} IN IF N = S THEN S ELSE Reach(k, N)
ASSUME \A k \in Kinds : Reach(k, {"none"}) = StatesOf(k) \cup {"none"}

ASSUME PrintT(ToJson([pairs |-> {<<x[1], x[4]>> : x \in T}]))
Export == hist # <<>> => PrintT(ToJson([kind |-> kind, val |-> val, st |-> st, h |-> hist, cell |-> cell]))
=============================================================================
