SPECIFICATION Spec
CHECK_DEADLOCK FALSE
INVARIANT ConventionsAgree
INVARIANT SyncFnWins
INVARIANT BoundOnce
INVARIANT ClassificationConsistent
INVARIANT Export
PROPERTY CallsIndependent
