----------------------------- MODULE DiagGlue -----------------------------
(* C18 (a) - traceback gluing and format_asynq_stack.

   A chain of task levels 1 -> 2 -> ... -> d: level i creates the task of level i+1 and awaits it by `yield`
   (optionally an outer task, level 0, calls level 1 synchronously).  Level r raises E(r): the bottom level
   (r = d) in its own body, a level r < d after its child has returned.  Every level i < r awaits its child
   with mode[i]:
       pass     no handler                 reraise  `except Exception: raise`
       new      `except Exception: raise N(i)`      catch    `except Exception:` swallow, return a value
   sync = 1: the bottom level first waits for a batch item, so every level of the chain is suspended and later
   resumed by the scheduler before anything is raised.  style: how a level awaits its child / raises
   ("plain" `yield t`, "list" `yield [t]`, "helper" E is raised in a plain helper function called by level r).

   State: the exception in flight carries `tb`, the sequence of frames (level numbers, -1 = the helper frame) of
   its traceback, outermost first; every task has a `creator`.  One action per thing the chain does:
   Enter (a level's body starts, creates and awaits its child), Bottom, Up (a level gets its child's outcome),
   Deliver (the caller gets the outcome).  Probes record what format_asynq_stack() called inside level i must
   list: the task and each task that created it, outermost first.

   Prescriptions (the property): the exception that reaches the caller has a traceback with one frame per task
   level, in call order, ending at the raising frame; format_asynq_stack() = creator chain, outermost first.
   Nothing is prescribed for __context__/__cause__ or for the text of the frames. *)
EXTENDS Integers, Sequences, FiniteSets, TLC, Json, IOUtils

EnvInt(n, dflt) == IF n \in DOMAIN IOEnv THEN atoi(IOEnv[n]) ELSE dflt
MaxD == EnvInt("MAXD", 4)
Deep == EnvInt("DEEP", 0)            \* > 0: only chains of depth Deep, Deep \div 2 with at most one handler

Modes == {"pass", "reraise", "new", "catch"}
Styles == {"plain", "list", "helper"}
NoTask == 0 - 9

(* below a `catch` nothing is in flight any more: the modes of the levels above it are irrelevant (all pass) *)
ModeSets(r) == IF Deep = 0
               THEN {m \in [1..(r - 1) -> Modes] : \A k \in 1..(r - 1) : m[k] = "catch" => \A j \in 1..(k - 1) : m[j] = "pass"}
               ELSE {[i \in 1..(r - 1) |-> "pass"]}
                    \cup {[i \in 1..(r - 1) |-> IF i = k THEN x ELSE "pass"] : k \in {1, r \div 2, r - 1} \cap (1..(r - 1)), x \in Modes \ {"pass"}}
Depths == IF Deep = 0 THEN 1..MaxD ELSE {Deep, Deep \div 2}
Raisers(d) == IF Deep = 0 THEN 1..d ELSE {1, d \div 2, d} \cap (1..d)

VARIABLES d, r, mode, sync, style, outer,     \* the chain (chosen in Init)
          pc, lvl, creator, exc, probes, outcome
vars == <<d, r, mode, sync, style, outer, pc, lvl, creator, exc, probes, outcome>>

NoExc == [kind |-> "none", origin |-> 0, tb |-> <<>>]

Init == /\ d \in Depths /\ r \in Raisers(d) /\ mode \in ModeSets(r)
        /\ sync \in {0, 1} /\ style \in (IF Deep = 0 THEN Styles ELSE {"plain"}) /\ outer \in (IF Deep = 0 THEN {0, 1} ELSE {0})
        /\ pc = "down" /\ lvl = 1 - outer
        /\ creator = [i \in 0..d |-> NoTask]
        /\ exc = NoExc /\ probes = <<>> /\ outcome = <<"pending">>

RECURSIVE Chain(_, _)
Chain(cr, i) == IF cr[i] = NoTask THEN <<i>> ELSE Chain(cr, cr[i]) \o <<i>>
Probe(i, where) == [lvl |-> i, at |-> where, stack |-> Chain(creator, i)]
Probed(i) == Deep = 0 \/ i \in {1, d \div 2, d}          \* deep chains: format_asynq_stack() only at three levels
AddProbe(i, where) == IF Probed(i) THEN Append(probes, Probe(i, where)) ELSE probes

RaiseAt(i) == [kind |-> "E", origin |-> i, tb |-> IF style = "helper" THEN <<i, 0 - 1>> ELSE <<i>>]

(* the body of level i starts: format_asynq_stack() is probed, the child task is created (creator = i) and awaited *)
Enter == /\ pc = "down" /\ lvl < d
         /\ probes' = AddProbe(lvl, "entry")
         /\ creator' = [creator EXCEPT ![lvl + 1] = lvl]
         /\ lvl' = lvl + 1
         /\ UNCHANGED <<d, r, mode, sync, style, outer, pc, exc, outcome>>

(* the bottom level: (waits for a batch item if sync = 1,) probes, then raises (r = d) or returns *)
Bottom == /\ pc = "down" /\ lvl = d
          /\ probes' = AddProbe(d, "entry")
          /\ exc' = IF r = d THEN RaiseAt(d) ELSE NoExc
          /\ pc' = "up" /\ lvl' = d - 1
          /\ UNCHANGED <<d, r, mode, sync, style, outer, creator, outcome>>

(* level lvl >= 1 gets the outcome of the child it awaits *)
Up == /\ pc = "up" /\ lvl >= 1
      /\ IF exc.kind = "none"
         THEN /\ exc' = IF lvl = r THEN RaiseAt(lvl) ELSE NoExc
              /\ probes' = probes
         ELSE LET m == mode[lvl] IN
              /\ exc' = CASE m \in {"pass", "reraise"} -> [exc EXCEPT !.tb = <<lvl>> \o exc.tb]      \* gluing: this level's frame in front
                          [] m = "new" -> [kind |-> "N", origin |-> lvl, tb |-> <<lvl>>]
                          [] m = "catch" -> NoExc
              /\ probes' = IF m = "pass" THEN probes ELSE AddProbe(lvl, "handler")
      /\ lvl' = lvl - 1
      /\ UNCHANGED <<d, r, mode, sync, style, outer, pc, creator, outcome>>

(* the outer task (level 0) called level 1 synchronously: a plain Python call, its frame is in front *)
UpOuter == /\ pc = "up" /\ lvl = 0 /\ outer = 1
           /\ exc' = IF exc.kind = "none" THEN exc ELSE [exc EXCEPT !.tb = <<0>> \o exc.tb]
           /\ lvl' = 0 - 1
           /\ UNCHANGED <<d, r, mode, sync, style, outer, pc, creator, probes, outcome>>

Deliver == /\ pc = "up" /\ lvl = 0 - outer
           /\ outcome' = IF exc.kind = "none" THEN <<"val">> ELSE <<"err", exc.kind, exc.origin, exc.tb>>
           /\ pc' = "done"
           /\ UNCHANGED <<d, r, mode, sync, style, outer, lvl, creator, exc, probes>>

Next == Enter \/ Bottom \/ Up \/ UpOuter \/ Deliver
Spec == Init /\ [][Next]_vars

(* ---- the property, on the model ---- *)
TaskFrames(tb) == SelectSeq(tb, LAMBDA x : x >= 0)
(* C18.glue: while an exception is in flight its traceback has exactly one frame per level it has crossed,
   in call order, ending at the raising frame *)
Glued == exc.kind # "none" =>
           /\ TaskFrames(exc.tb) = [j \in 1..(exc.origin - lvl) |-> lvl + j]
           /\ exc.tb[Len(exc.tb)] = IF style = "helper" /\ exc.kind = "E" THEN 0 - 1 ELSE exc.origin
GluedAtCaller == (pc = "done" /\ outcome[1] = "err") =>
           TaskFrames(outcome[4]) = [j \in 1..(outcome[3] + outer) |-> j - outer]
(* C18.stack: a probe inside level i lists i and each task that created it, outermost first *)
StackIsCreatorChain == \A n \in 1..Len(probes) :
           probes[n].stack = [j \in 1..(probes[n].lvl + outer) |-> j - outer]
CaughtMeansValue == pc = "done" => ((outcome[1] = "val") <=> (\E k \in 1..(r - 1) : mode[k] = "catch"))
EveryLevelProbed == (pc = "done" /\ Deep = 0) => {probes[n].lvl : n \in {m \in 1..Len(probes) : probes[m].at = "entry"}} = (1 - outer)..d

Export == (pc = "done") => PrintT(ToJson([d |-> d, r |-> r, mode |-> mode, sync |-> sync, style |-> style, outer |-> outer,
                                          outcome |-> outcome, probes |-> probes]))
=============================================================================
