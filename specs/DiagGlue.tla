----------------------------- MODULE DiagGlue -----------------------------
(* C18 (a) - traceback gluing and format_asynq_stack.

   A chain of task levels 1 -> 2 -> ... -> d: level i creates the task of level i+1 and awaits it by `yield`
   (optionally an outer task, level 0, calls level 1 synchronously).  Level r raises E(r): the bottom level
   (r = d) in its own body, a level r < d after its child has returned.  Every level i < r awaits its child
   with mode[i]:
       pass     no handler                 reraise  `except Exception: raise`
       new      `except Exception: raise N(i)`      catch    `except Exception:` swallow, return a value
   sync = 1: the bottom level first waits for a batch item, so every level of the chain is suspended and later
   resumed by the scheduler before anything is raised.  style: how a level awaits its child / raises
   ("plain" `yield t`, "list" `yield [t]`, "helper" E is raised in a plain helper function called by level r).

   State: the exception in flight carries `tb`, the sequence of frames (level numbers, -1 = the helper frame) of
   its traceback, outermost first; every task has a `creator`.  One action per thing the chain does:
   Enter (a level's body starts, creates and awaits its child), Bottom, Up (a level gets its child's outcome),
   Deliver (the caller gets the outcome).  Probes record what format_asynq_stack() called inside level i must
   list: the task and each task that created it, outermost first.

   Session: before the chain, zero or one EARLIER top-level computation runs on the same thread (tasks P1 -> P2,
   P2 awaits a batch item) and ends in one of: value / exception from a task / exception from the batch flush /
   an AsyncContext whose resume() raises when the suspended P2 is continued after the flush / an AsyncContext
   whose pause() raises when P2 is suspended / the NonAsyncContext assertion; the error is handled by the
   awaiting task P1 ("task") or by the caller ("caller").  `active` is the task whose body is executing (what a
   newly created task records as its creator).  However a computation ends, no task is executing afterwards: the
   tasks of the later computation are created by that computation's own tasks only.

   Retrievals: `retr` says how the top task's outcome is asked for.  <<"call">>: one synchronous call.  Otherwise
   the task object is kept and asked several times - "value" (value(), raises the stored error), "error" (error(),
   returns it; seen through format_error), "yield" (awaited by `yield`, only inside a task) - by the top-level
   caller (outer = 0) or inside the body of the outer task (outer = 1; there the last retrieval is not caught and
   travels on to the caller).  Every caught retrieval k is made in its own helper function site_k (frame
   SiteBase + k).  The stored error keeps its glued traceback: EVERY retrieval shows its own site frame followed
   by one frame per task level, in call order, ending at the raising frame - never frames of earlier retrieval
   sites.

   No source: `nosrc` is the set of levels whose functions are generated code (built with exec/compile from a
   string: no source text can be retrieved for their frames).  Nothing in the prescriptions depends on it: the
   stack still lists every level and the diagnostics never raise.

   Hand-over: the creator chain may differ from the await chain.  hand = h: level h creates the task of level
   h+1 but does not await it; it hands it to whoever awaits h (level h-1, or the top-level caller if h = 1) and
   then completes - with a value (hend = "value") or by failing, the error being caught by the awaiter (hend =
   "fail").  The awaiter then awaits the task of level h+1.  Level h+1 and everything below still has h in its
   creator chain - whatever became of h -, while an exception raised below h never crosses h: the glued traceback
   has one frame per level of the AWAIT chain (h is not in it).

   Prescriptions (the property): the exception that reaches the caller has a traceback with one frame per task
   level, in call order, ending at the raising frame; format_asynq_stack() = creator chain, outermost first -
   exactly the computation's own tasks, nothing from an earlier computation.
   Nothing is prescribed for __context__/__cause__, for the text of the frames or for the outcome of the
   earlier computation. *)
EXTENDS Integers, Sequences, FiniteSets, TLC, Json, IOUtils

EnvInt(n, dflt) == IF n \in DOMAIN IOEnv THEN atoi(IOEnv[n]) ELSE dflt
MaxD == EnvInt("MAXD", 4)
Deep == EnvInt("DEEP", 0)            \* > 0: only chains of depth Deep, Deep \div 2 with at most one handler
RetrD == EnvInt("RETRD", 3)          \* chains of depth <= RetrD are also asked for their outcome several times
NoSrcD == EnvInt("NOSRCD", 3)        \* chains of depth <= NoSrcD are also built with generated (source-less) functions
HandD == EnvInt("HANDD", 3)          \* chains of depth <= HandD are also run with a hand-over at every level
PriorD == EnvInt("PRIORD", 3)        \* chains of depth <= PriorD are also run after every kind of earlier computation
Stale == EnvInt("STALE", 0)          \* non-vacuity switch: 1 = a failed resume() leaves P2 active (TLC then refutes the stack invariants)

Modes == {"pass", "reraise", "new", "catch"}
Styles == {"plain", "list", "helper"}
NoTask == 0 - 9
Priors == {"value", "task_exc", "flush_exc", "resume_raises", "pause_raises", "nonasync"}
SiteBase == 500                      \* frame of the helper function in which retrieval k is made and caught: SiteBase + k
RetrSets(o) == IF o = 0
               THEN {<<"value", "value">>, <<"value", "error">>, <<"error", "value">>, <<"value", "value", "value">>}
               ELSE {<<"value", "value">>, <<"error", "value">>, <<"value", "yield">>, <<"value", "value", "yield">>}
NoHand == 0 - 5
P1 == 1001                           \* the tasks of the earlier computation
P2 == 1002

(* below a `catch` nothing is in flight any more: the modes of the levels above it are irrelevant (all pass) *)
ModeSets(r) == IF Deep = 0
               THEN {m \in [1..(r - 1) -> Modes] : \A k \in 1..(r - 1) : m[k] = "catch" => \A j \in 1..(k - 1) : m[j] = "pass"}
               ELSE {[i \in 1..(r - 1) |-> "pass"]}
                    \cup {[i \in 1..(r - 1) |-> IF i = k THEN x ELSE "pass"] : k \in {1, r \div 2, r - 1} \cap (1..(r - 1)), x \in Modes \ {"pass"}}
Depths == IF Deep = 0 THEN 1..MaxD ELSE {Deep, Deep \div 2}
Raisers(d) == IF Deep = 0 THEN 1..d ELSE {1, d \div 2, d} \cap (1..d)

VARIABLES d, r, mode, sync, style, outer,     \* the chain (chosen in Init)
          prior, phandled,                     \* the earlier computation of the session (chosen in Init)
          retr,                                \* how the outcome of the top task is retrieved (chosen in Init)
          nosrc, hand, hend,                   \* generated functions; hand-over level and what becomes of it (chosen in Init)
          pc, lvl, active, creator, exc, probes, outcome,
          rk, sights                           \* next retrieval, what every caught retrieval saw
vars == <<d, r, mode, sync, style, outer, prior, phandled, retr, nosrc, hand, hend, pc, lvl, active, creator, exc, probes, outcome, rk, sights>>
cfgvars == <<d, r, mode, sync, style, outer, prior, phandled, retr, nosrc, hand, hend>>

NoExc == [kind |-> "none", origin |-> 0, tb |-> <<>>]

Init == /\ d \in Depths /\ r \in Raisers(d) /\ mode \in ModeSets(r)
        /\ sync \in {0, 1} /\ style \in (IF Deep = 0 THEN Styles ELSE {"plain"}) /\ outer \in (IF Deep = 0 THEN {0, 1} ELSE {0})
        /\ prior \in (IF Deep = 0 /\ d <= PriorD THEN {"none"} \cup Priors ELSE {"none"})
        /\ retr \in (IF Deep = 0 /\ d <= RetrD /\ prior = "none" THEN {<<"call">>} \cup RetrSets(outer) ELSE {<<"call">>})
        /\ rk = 1 /\ sights = <<>>
        /\ nosrc \in (IF Deep = 0 /\ d <= NoSrcD /\ prior = "none" /\ retr = <<"call">>
                      THEN {{}} \cup {{p} : p \in (1 - outer)..d} \cup {(1 - outer)..d} ELSE {{}})
        /\ hand \in (IF Deep = 0 /\ d <= HandD /\ outer = 0 /\ prior = "none" /\ retr = <<"call">> /\ nosrc = {}
                     THEN {NoHand} \cup {h \in 1..(d - 1) : h # r /\ (h < r => mode[h] = "pass")} ELSE {NoHand})
        /\ hend \in (IF hand = NoHand THEN {"-"} ELSE {"value", "fail"})
        /\ phandled \in (IF prior \in {"none", "value"} THEN {"-"} ELSE {"task", "caller"})
        /\ pc = (IF prior = "none" THEN "down" ELSE "prior") /\ lvl = 1 - outer
        /\ active = NoTask
        /\ creator = [i \in (0..d) \cup {P1, P2} |-> NoTask]
        /\ exc = NoExc /\ probes = <<>> /\ outcome = <<"pending">>

RECURSIVE Chain(_, _)
Chain(cr, i) == IF cr[i] = NoTask THEN <<i>> ELSE Chain(cr, cr[i]) \o <<i>>
Probe(cr, i, where) == [lvl |-> i, at |-> where, stack |-> Chain(cr, i)]
Probed(i) == Deep = 0 \/ i \in {1, d \div 2, d}          \* deep chains: format_asynq_stack() only at three levels
AddProbe(cr, i, where) == IF Probed(i) THEN Append(probes, Probe(cr, i, where)) ELSE probes
(* the top task of a computation is created by whatever task is executing at the moment of the call *)
Born(i) == IF i = 1 - outer THEN [creator EXCEPT ![i] = active] ELSE creator

(* ---- the earlier computation ---- *)
PriorRun ==        \* P1 runs, creates and awaits P2; P2 runs until it awaits the batch item (or fails to suspend)
  /\ pc = "prior"
  /\ creator' = [creator EXCEPT ![P1] = active, ![P2] = P1]
  /\ active' = NoTask /\ pc' = "prior_flush"
  /\ UNCHANGED <<cfgvars, lvl, exc, probes, outcome, rk, sights>>
PriorFlush ==      \* the batch is flushed (or raises); P2 is continued - or fails without running, if resume() raises -
  /\ pc = "prior_flush"                                         \* and P1 gets P2's value or error
  /\ active' = P1 /\ pc' = "prior_up"
  /\ UNCHANGED <<cfgvars, lvl, creator, exc, probes, outcome, rk, sights>>
PriorDeliver ==    \* the earlier computation is over, whatever its outcome: nothing is executing
  /\ pc = "prior_up"
  /\ active' = (IF Stale = 1 /\ prior = "resume_raises" THEN P2 ELSE NoTask)
  /\ pc' = "down"
  /\ UNCHANGED <<cfgvars, lvl, creator, exc, probes, outcome, rk, sights>>

RaiseAt(i) == [kind |-> "E", origin |-> i, tb |-> IF style = "helper" THEN <<i, 0 - 1>> ELSE <<i>>]

(* the body of level i starts: format_asynq_stack() is probed, the child task is created (creator = i) and awaited
   (i = hand: the child is created, handed to the awaiter of i, i completes - hend - and the awaiter awaits the child:
   the next body to start is the child's either way, and its creator is i) *)
Enter == /\ pc = "down" /\ lvl < d
         /\ probes' = AddProbe(Born(lvl), lvl, "entry")
         /\ active' = lvl
         /\ creator' = [Born(lvl) EXCEPT ![lvl + 1] = lvl]        \* created while lvl is executing
         /\ lvl' = lvl + 1
         /\ UNCHANGED <<cfgvars, pc, exc, outcome, rk, sights>>

(* the bottom level: (waits for a batch item if sync = 1,) probes, then raises (r = d) or returns *)
Bottom == /\ pc = "down" /\ lvl = d
          /\ probes' = AddProbe(Born(d), d, "entry")
          /\ creator' = Born(d) /\ active' = d
          /\ exc' = IF r = d THEN RaiseAt(d) ELSE NoExc
          /\ pc' = "up" /\ lvl' = d - 1
          /\ UNCHANGED <<cfgvars, outcome, rk, sights>>

(* level lvl >= 1 gets the outcome of the child it awaits *)
Up == /\ pc = "up" /\ lvl >= 1 /\ lvl # hand
      /\ IF exc.kind = "none"
         THEN /\ exc' = IF lvl = r THEN RaiseAt(lvl) ELSE NoExc
              /\ probes' = probes
         ELSE LET m == mode[lvl] IN
              /\ exc' = CASE m \in {"pass", "reraise"} -> [exc EXCEPT !.tb = <<lvl>> \o exc.tb]      \* gluing: this level's frame in front
                          [] m = "new" -> [kind |-> "N", origin |-> lvl, tb |-> <<lvl>>]
                          [] m = "catch" -> NoExc
              /\ probes' = IF m = "pass" THEN probes ELSE AddProbe(creator, lvl, "handler")
      /\ lvl' = lvl - 1 /\ active' = lvl
      /\ UNCHANGED <<cfgvars, pc, creator, outcome, rk, sights>>

(* the outer task (level 0) called level 1 synchronously: a plain Python call, its frame is in front *)
(* the level that handed its child over is not on the await chain: the child's outcome goes to the awaiter of that level *)
UpSkip == /\ pc = "up" /\ lvl = hand
          /\ lvl' = lvl - 1
          /\ UNCHANGED <<cfgvars, pc, active, creator, exc, probes, outcome, rk, sights>>

(* a caught retrieval of the top task's stored outcome (the top-level caller: all of them; the outer task: all
   but the last).  The stored error is not changed by being retrieved. *)
Caught == IF outer = 0 THEN Len(retr) ELSE Len(retr) - 1
Sight(k) == [k |-> k, kind |-> retr[k],
             tb |-> IF exc.kind = "none" THEN <<>>
                    ELSE IF retr[k] = "error" THEN exc.tb ELSE <<SiteBase + k>> \o exc.tb]
Retrieve == /\ pc = "up" /\ lvl = 0 /\ retr # <<"call">> /\ rk <= Caught
            /\ sights' = Append(sights, Sight(rk)) /\ rk' = rk + 1
            /\ UNCHANGED <<cfgvars, pc, lvl, active, creator, exc, probes, outcome>>

UpOuter == /\ pc = "up" /\ lvl = 0 /\ outer = 1 /\ (retr = <<"call">> \/ rk > Caught)
           /\ exc' = IF exc.kind = "none" THEN exc ELSE [exc EXCEPT !.tb = <<0>> \o exc.tb]
           /\ lvl' = 0 - 1 /\ active' = 0
           /\ UNCHANGED <<cfgvars, pc, creator, probes, outcome, rk, sights>>

Deliver == /\ pc = "up" /\ lvl = 0 - outer /\ (outer = 1 \/ retr = <<"call">> \/ rk > Caught)
           /\ outcome' = IF exc.kind = "none" THEN <<"val">> ELSE <<"err", exc.kind, exc.origin, exc.tb>>
           /\ pc' = "done" /\ active' = NoTask
           /\ UNCHANGED <<cfgvars, lvl, creator, exc, probes, rk, sights>>

Next == UpSkip \/ Retrieve \/ PriorRun \/ PriorFlush \/ PriorDeliver \/ Enter \/ Bottom \/ Up \/ UpOuter \/ Deliver
Spec == Init /\ [][Next]_vars

(* ---- the property, on the model ---- *)
TaskFrames(tb) == SelectSeq(tb, LAMBDA x : x >= 0 /\ x < SiteBase)
Awaiting(levels) == SelectSeq(levels, LAMBDA x : x # hand)       \* the levels of the await chain among `levels`
(* C18.glue: while an exception is in flight its traceback has exactly one frame per level it has crossed,
   in call order, ending at the raising frame *)
Glued == exc.kind # "none" =>
           /\ TaskFrames(exc.tb) = Awaiting([j \in 1..(exc.origin - lvl) |-> lvl + j])
           /\ exc.tb[Len(exc.tb)] = IF style = "helper" /\ exc.kind = "E" THEN 0 - 1 ELSE exc.origin
GluedAtCaller == (pc = "done" /\ outcome[1] = "err") =>
           TaskFrames(outcome[4]) = Awaiting([j \in 1..(outcome[3] + outer) |-> j - outer])
(* C18.stack: a probe inside level i lists i and each task that created it, outermost first *)
StackIsCreatorChain == \A n \in 1..Len(probes) :
           probes[n].stack = [j \in 1..(probes[n].lvl + outer) |-> j - outer]
(* ... and nothing else: no task of an earlier computation, because between computations nothing is executing *)
OwnTasksOnly == \A n \in 1..Len(probes) : \A j \in 1..Len(probes[n].stack) : probes[n].stack[j] \in (1 - outer)..d
IdleBetweenComputations == (pc \in {"prior", "done"} \/ (pc = "down" /\ lvl = 1 - outer)) => active = NoTask
(* every retrieval: its own site, then one frame per task level in call order ending at the raising frame *)
RetrievalsGlued == \A n \in 1..Len(sights) : LET s == sights[n] IN
           s.tb # <<>> =>
             /\ TaskFrames(s.tb) = [j \in 1..exc.origin |-> j]
             /\ {j \in 1..Len(s.tb) : s.tb[j] >= SiteBase} = (IF s.kind = "error" THEN {} ELSE {1})
             /\ s.kind # "error" => s.tb[1] = SiteBase + s.k
             /\ s.tb[Len(s.tb)] = IF style = "helper" /\ exc.kind = "E" THEN 0 - 1 ELSE exc.origin
AllRetrieved == (pc = "done" /\ retr # <<"call">>) => Len(sights) = Caught
CaughtMeansValue == pc = "done" => ((outcome[1] = "val") <=> (\E k \in 1..(r - 1) : mode[k] = "catch"))
EveryLevelProbed == (pc = "done" /\ Deep = 0) => {probes[n].lvl : n \in {m \in 1..Len(probes) : probes[m].at = "entry"}} = (1 - outer)..d

Export == (pc = "done") => PrintT(ToJson([d |-> d, r |-> r, mode |-> mode, sync |-> sync, style |-> style, outer |-> outer,
                                          prior |-> prior, phandled |-> phandled, retr |-> retr, sights |-> sights,
                                          nosrc |-> nosrc, hand |-> hand, hend |-> hend,
                                          outcome |-> outcome, probes |-> probes]))
=============================================================================
