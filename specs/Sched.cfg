SPECIFICATION Spec
CHECK_DEADLOCK FALSE
INVARIANT NoClauseViolated
INVARIANT NeverStuck
INVARIANT CleanAtEnd
INVARIANT FramesBounded
