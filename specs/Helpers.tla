------------------------------ MODULE Helpers ------------------------------
(* C14 - amap, afilter, afilterfalse, asorted, amax, amin, asift equal map, filter, itertools.filterfalse, sorted,
   max, min and a two-way partition; aretry runs its body min(k+1, max_tries) times; the per-element calls of one
   helper invocation share one flush.

   An ENUMERATING ORACLE, not a state machine with interleavings: the complete product of
     helper x input sequence (length <= MaxLen over None and three keys, so duplicates, equal keys with
     unorderable payloads and None elements all occur) x element kind x iterable kind x call form x
     key/predicate kind x reverse   (+ aretry: k x max_tries x what attempt k+1 does x listed classes x body kind)
   is the set of initial states; Out(cell) is the result the built-in gives, written with TLA+ operators;
   TLC prints every cell with its prescribed output (Export), checks the oracle's own algebra (invariants below),
   and harness/check_c14.py runs the real helper on every cell, compares, and ALSO runs the Python built-in on
   the same input to validate this transcription.

   An input element is [k, p]: k = its key (-1 = the element is None), p = its position in the input (its
   identity).  Element kinds: "obj" = objects carrying k and p that define no ordering (comparing two of them
   raises TypeError) and are truthy iff k > 0; "int" = the plain integer k (None stays None).
   The asynchronous key/predicate/map function is K(e) = e.k (None -> 1); amap's function returns K(e) + 10.
   fk = "none": no function (key=None / predicate None), "plain": an @asynq function, "block": an @asynq function
   that blocks on one DebugBatchItem before answering.
   aretry cells: fk = the kind of async callable that is retried: "plain" = @asynq plain body, "block" = @asynq generator
   body (blocks on a DebugBatchItem), "proxy" = an @async_proxy() function, "wrap" = a make_async_decorator wrapper;
   form = when an attempt fails: "await" = while the returned future is computed, "call" = at call time, before a
   future is returned (possible for proxy / wrap only).  The property counts attempts and says nothing about when an
   attempt raises: the prescription is the same. *)
EXTENDS Naturals, Integers, Sequences, FiniteSets, TLC, Json, IOUtils

MaxLen == IF "MAXLEN" \in DOMAIN IOEnv THEN atoi(IOEnv.MAXLEN) ELSE 3
Part == IF "PART" \in DOMAIN IOEnv THEN IOEnv.PART ELSE "all"        \* optional: one helper per TLC run

VARIABLES stage, cell
vars == <<stage, cell>>

Keys == {-1, 0, 1, 2}
Elems(xs) == [p \in 1..Len(xs) |-> [k |-> xs[p], p |-> p]]
K(e) == IF e.k = -1 THEN 1 ELSE e.k
Truthy(e) == e.k > 0                        \* bool(element): None and 0 / objects with k = 0 are falsy
(* element kinds whose members are EQUAL (==) although the key/predicate tells them apart - the built-ins work on
   positions and identities, never on ==:  "eq1": key 0/1/2 is the value 1 / True / 1.0;  "eq0": 0 / False / 0.0;
   "rec": like "obj" but every two of them compare equal (a permissive __eq__) and hash alike *)
EqValues == {"eq0", "eq1"}
EqKinds == {"rec", "eq0", "eq1"}
Enc(e, ek) == IF e.k = -1 THEN <<-1, 0>> ELSE IF ek \in {"int", "eq0", "eq1"} THEN <<e.k, 0>> ELSE <<e.k, e.p>>
EncAll(es, ek) == [j \in 1..Len(es) |-> Enc(es[j], ek)]

(* ---------------------------------------------------------------- the built-ins, transcribed *)
(* F(m, e): the sort key of e.  m = "K": the key function;  m = "own": key=None, the element itself is compared.
   P(m, e): the predicate.      m = "K": truth of K(e);      m = "own": predicate None, truth of the element. *)
(* "flat": key=None over elements that are all equal (eq0 / eq1): nothing precedes anything;
   "all" / "nil": predicate None over eq1 (every non-None element is truthy) / eq0 (every element is falsy) *)
F(m, e) == IF m = "K" THEN K(e) ELSE IF m = "flat" THEN 0 ELSE e.k
P(m, e) == CASE m = "K" -> K(e) > 0 [] m = "all" -> e.k # -1 [] m = "nil" -> FALSE [] OTHER -> Truthy(e)
OwnMode(ek) == IF ek \in EqValues THEN "flat" ELSE "own"
TruthMode(ek) == IF ek = "eq1" THEN "all" ELSE IF ek = "eq0" THEN "nil" ELSE "own"
Map(es) == [j \in 1..Len(es) |-> <<K(es[j]) + 10, 0>>]
Filter(m, es) == SelectSeq(es, LAMBDA e : P(m, e))
FilterFalse(m, es) == SelectSeq(es, LAMBDA e : ~P(m, e))
(* sorted(): ascending (reverse: descending) in the key, and STABLE in both directions: the elements with one key
   value stay in their input order.  Keys range over -1..2, so the result is the concatenation of the input's
   subsequences per key value (SortOracleOK below checks sortedness, stability and permutation on it). *)
Bucket(m, es, v) == SelectSeq(es, LAMBDA e : F(m, e) = v)
StableSort(m, es, rev) ==
  IF rev THEN Bucket(m, es, 2) \o Bucket(m, es, 1) \o Bucket(m, es, 0) \o Bucket(m, es, -1)
  ELSE Bucket(m, es, -1) \o Bucket(m, es, 0) \o Bucket(m, es, 1) \o Bucket(m, es, 2)
FirstMax(m, es) == es[CHOOSE j \in 1..Len(es) : /\ \A l \in 1..Len(es) : F(m, es[l]) <= F(m, es[j])
                                                /\ \A l \in 1..(j - 1) : F(m, es[l]) < F(m, es[j])]
FirstMin(m, es) == es[CHOOSE j \in 1..Len(es) : /\ \A l \in 1..Len(es) : F(m, es[l]) >= F(m, es[j])
                                                /\ \A l \in 1..(j - 1) : F(m, es[l]) > F(m, es[j])]
Sift(m, es) == <<Filter(m, es), FilterFalse(m, es)>>
RetryExecs(k, mt) == IF k + 1 < mt THEN k + 1 ELSE mt            \* min(k+1, max_tries)
(* comparing the elements themselves (key=None): objects are unorderable, None is unorderable *)
Unorderable(es, ek) == Len(es) >= 2 /\ (ek \in {"obj", "rec"} \/ \E j \in 1..Len(es) : es[j].k = -1)

(* ---------------------------------------------------------------- cells *)
Cell(h, xs, ek, it, form, fk, rev, k, mt, x, ec) ==
  [h |-> h, xs |-> xs, ek |-> ek, it |-> it, form |-> form, fk |-> fk, rev |-> rev, k |-> k, mt |-> mt, x |-> x, ec |-> ec]
Its == {"list", "tuple", "gen", "iter", "map", "reversed", "chain"}
(* "list", "tuple": re-iterable; the rest are ONE-SHOT iterators of different types: a generator, iter(list),
   a map object, reversed(list), itertools.chain(...) - the built-ins accept them all and so must the helpers *)
SeqsN(n) == [1..n -> Keys]
PerElement(h, n) == {Cell(h, xs, "obj", it, "one", fk, 0, 0, 1, "ok", "one") : xs \in SeqsN(n), it \in Its, fk \in {"plain", "block"}}
                    \cup {Cell(h, xs, ek, it, "one", "plain", 0, 0, 1, "ok", "one") : xs \in SeqsN(n), ek \in EqKinds, it \in {"list", "gen"}}
NoFunction(h, n, revs) == {Cell(h, xs, ek, it, "one", "none", r, 0, 1, "ok", "one") : xs \in SeqsN(n), ek \in {"obj", "int"}, it \in Its, r \in revs}
                          \cup {Cell(h, xs, ek, "list", "one", "none", r, 0, 1, "ok", "one") : xs \in SeqsN(n), ek \in EqKinds, r \in revs}
(* long inputs (more per-element calls than any plausible block size) for the one-batching-round clause *)
LongSizes == {257, 600}
Long(n) == [p \in 1..n |-> (p % 4) - 1]
LongCells(h, n) == IF h = "aretry" THEN {} ELSE
  {Cell(h, Long(n), "obj", it, "one", "block", r, 0, 1, "ok", "one") : it \in {"list", "gen", "iter"}, r \in (IF h = "asorted" THEN {0, 1} ELSE {0})}
Extreme(h, n) ==
  PerElement(h, n) \cup NoFunction(h, n, {0})
  \cup (IF n = 0 THEN {} ELSE {Cell(h, xs, ek, "list", "var", fk, 0, 0, 1, "ok", "one") : xs \in SeqsN(n), ek \in {"obj", "int"}, fk \in {"none", "plain", "block"}})
  \cup (IF n # 0 THEN {} ELSE {Cell(h, <<>>, "obj", "list", "zero", fk, 0, 0, 1, "ok", "one") : fk \in {"none", "plain"}})
  \cup (IF n \notin {0, 2} THEN {} ELSE {Cell(h, IF n = 0 THEN <<>> ELSE <<1, 2>>, "int", "list", "kw", fk, 0, 0, 1, "ok", "one") : fk \in {"none", "plain"}})
HelperNames == {"amap", "afilter", "afilterfalse", "asift", "asorted", "amax", "amin", "aretry"}
(* the cells of helper h over inputs of length n *)
CellsOf(h, n) ==
  CASE n > MaxLen -> LongCells(h, n)
    [] h \in {"amap", "afilterfalse", "asift"} -> PerElement(h, n)
    [] h = "afilter" -> PerElement(h, n) \cup NoFunction(h, n, {0})
    [] h = "asorted" ->
         {Cell(h, xs, "obj", it, "one", fk, r, 0, 1, "ok", "one") : xs \in SeqsN(n), it \in Its, fk \in {"plain", "block"}, r \in {0, 1}}
         \cup {Cell(h, xs, ek, it, "one", "plain", r, 0, 1, "ok", "one") : xs \in SeqsN(n), ek \in EqKinds, it \in {"list", "gen"}, r \in {0, 1}}
         \cup NoFunction(h, n, {0, 1})
    [] h \in {"amax", "amin"} -> Extreme(h, n)
    [] h = "aretry" ->
         IF n # 0 THEN {} ELSE
         {c \in {Cell(h, <<>>, "obj", "list", at, fk, 0, k, mt, x, ec) :
                    fk \in {"plain", "block", "proxy", "wrap"}, at \in {"await", "call"},
                    k \in 0..4, mt \in (-1)..4, x \in {"ok", "unlisted"}, ec \in {"one", "tuple"}} :
            c.form = "await" \/ c.fk \in {"proxy", "wrap"}}       \* an @asynq body never runs at call time
(* stage 0: a stub naming helper and input length (so that TLC's workers share the enumeration); stage 1: a cell *)
Stubs == {Cell(h, <<>>, "obj", "list", "stub", "none", 0, n, 1, "ok", "one") : h \in (IF Part = "all" THEN HelperNames ELSE {Part}), n \in (0..MaxLen) \cup LongSizes}

(* ---------------------------------------------------------------- prescribed output of a cell *)
Val(s) == <<"val", s>>
Err(c) == <<"err", c>>
ExtremeRes(c, es) ==
  LET args == IF c.form = "var" /\ Len(es) = 1 THEN "notiterable" ELSE "ok" IN
  IF c.form \in {"zero", "kw"} \/ args = "notiterable" THEN Err("TypeError")
  ELSE IF Len(es) = 0 THEN Err("ValueError")
  ELSE IF c.fk = "none"
       THEN IF Unorderable(es, c.ek) THEN Err("TypeError")
            ELSE Val(<<Enc(IF c.h = "amax" THEN FirstMax(OwnMode(c.ek), es) ELSE FirstMin(OwnMode(c.ek), es), c.ek)>>)
       ELSE Val(<<Enc(IF c.h = "amax" THEN FirstMax("K", es) ELSE FirstMin("K", es), c.ek)>>)
Res(c) ==
  LET es == Elems(c.xs) IN
  CASE c.h = "amap" -> Val(Map(es))
    [] c.h = "afilter" -> Val(EncAll(Filter(IF c.fk = "none" THEN TruthMode(c.ek) ELSE "K", es), c.ek))
    [] c.h = "afilterfalse" -> Val(EncAll(FilterFalse("K", es), c.ek))
    [] c.h = "asift" -> <<"val2", EncAll(Sift("K", es)[1], c.ek), EncAll(Sift("K", es)[2], c.ek)>>
    [] c.h = "asorted" -> IF c.fk = "none"
                          THEN IF Unorderable(es, c.ek) THEN Err("TypeError") ELSE Val(EncAll(StableSort(OwnMode(c.ek), es, c.rev = 1), c.ek))
                          ELSE Val(EncAll(StableSort("K", es, c.rev = 1), c.ek))
    [] c.h \in {"amax", "amin"} -> ExtremeRes(c, es)
    [] c.h = "aretry" -> IF c.mt < 1 THEN Err("AssertionError")         \* refused when decorating
                         ELSE IF c.k >= c.mt THEN Err("Listed")          \* the last allowed attempt raised a listed exception
                         ELSE IF c.x = "unlisted" THEN Err("Unlisted")   \* anything else is re-raised at once
                         ELSE Val(<<<<7, 0>>>>)
(* one batching round: every per-element call is issued before the first flush, so a blocking function costs
   exactly one flush on a non-empty input; -1 = not prescribed *)
Flushes(c) == IF c.h # "aretry" /\ c.fk = "block" /\ Len(c.xs) > 0 /\ Res(c)[1] # "err" THEN 1 ELSE 0 - 1
Execs(c) == IF c.h # "aretry" THEN 0 - 1 ELSE IF c.mt < 1 THEN 0 ELSE RetryExecs(c.k, c.mt)
Out(c) == [res |-> Res(c), flushes |-> Flushes(c), execs |-> Execs(c)]

Init == stage = 0 /\ cell \in Stubs
Next == stage = 0 /\ stage' = 1 /\ cell' \in CellsOf(cell.h, cell.k)
Spec == Init /\ [][Next]_vars

(* ---------------------------------------------------------------- the oracle's own algebra *)
IsSorted(m, r, rev) == \A j, l \in 1..Len(r) : j < l =>
   /\ (IF rev THEN F(m, r[j]) >= F(m, r[l]) ELSE F(m, r[j]) <= F(m, r[l]))
   /\ (F(m, r[j]) = F(m, r[l]) => r[j].p < r[l].p)                 \* stable in both directions
IsPermutation(r, es) == Len(r) = Len(es) /\ {r[j] : j \in 1..Len(r)} = {es[j] : j \in 1..Len(es)}
Small == stage = 1 /\ Len(cell.xs) <= 8       \* the algebra is checked on the short inputs (quadratic in the length)
SortOracleOK == Small => LET es == Elems(cell.xs) IN
  \A rev \in BOOLEAN, m \in {"K", "own", "flat"} : IsSorted(m, StableSort(m, es, rev), rev) /\ IsPermutation(StableSort(m, es, rev), es)
ExtremesOK == Small => LET es == Elems(cell.xs) IN Len(es) > 0 => \A m \in {"K", "own", "flat"} :
  /\ FirstMax(m, es) = Head(StableSort(m, es, TRUE)) /\ FirstMin(m, es) = Head(StableSort(m, es, FALSE))
PartitionOK == Small => LET es == Elems(cell.xs) IN \A m \in {"K", "own", "all", "nil"} :
  /\ Sift(m, es)[1] = Filter(m, es) /\ Sift(m, es)[2] = FilterFalse(m, es)
  /\ Len(Filter(m, es)) + Len(FilterFalse(m, es)) = Len(es)
  /\ IsPermutation(Filter(m, es) \o FilterFalse(m, es), es)
RetryOK == stage = 1 /\ cell.h = "aretry" /\ cell.mt >= 1 =>
  /\ Execs(cell) >= 1 /\ Execs(cell) <= cell.mt /\ Execs(cell) <= cell.k + 1
  /\ (Execs(cell) = cell.k + 1 \/ Execs(cell) = cell.mt)
  /\ (Res(cell) = Err("Listed") <=> cell.k >= cell.mt)

Export == stage = 1 => PrintT(ToJson([cell |-> cell, out |-> Out(cell)]))
=============================================================================
