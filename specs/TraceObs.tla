------------------------------ MODULE TraceObs ------------------------------
(* Trace validation: every trace recorded from the real code (harness/realize.py) is run through
   the monitor Obs!Step; the verdict of a trace is the set of clause ids it violates, printed as one
   JSON line per trace.  All traces of a file are checked in one TLC run (tid is chosen in Init). *)
EXTENDS Obs, Json, IOUtils

Traces == JsonDeserialize(IOEnv.TRACES)      \* <<[id, prog, events]>>

VARIABLES tid, l, S, bad
vars == <<tid, l, S, bad>>

Init == /\ tid \in 1..Len(Traces)
        /\ l = 1
        /\ S = InitObs(Traces[tid].prog)
        /\ bad = {}

Consume == /\ l <= Len(Traces[tid].events)
           /\ LET r == Step(S, Traces[tid].events[l]) IN
              /\ S' = r.S
              /\ bad' = bad \cup {<<l, c>> : c \in r.bad}
           /\ l' = l + 1
           /\ UNCHANGED tid

Finish == /\ l = Len(Traces[tid].events) + 1
          /\ PrintT(ToJson([verdict |-> Traces[tid].id, n |-> Len(Traces[tid].events),
                            bad |-> {ToString(x[1]) \o ":" \o x[2] : x \in bad}]))
          /\ l' = l + 1
          /\ S' = InitObs(Traces[tid].prog)     \* collapse: nothing else to keep
          /\ UNCHANGED <<tid, bad>>

Next == Consume \/ Finish
Spec == Init /\ [][Next]_vars
=============================================================================
