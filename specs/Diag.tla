------------------------------- MODULE Diag -------------------------------
(* C18 (b) - filter_traceback only collapses COMPLETE runs of asynq boilerplate lines into one marker each
   and leaves every other line untouched and in order.

   Abstract alphabet.  asynq's matcher knows 11 pattern strings; a traceback line is abstracted to the SET of
   pattern strings it contains (substring relations matter: "..._continue" is inside "..._continue_on_generator",
   "reraise" inside "six.reraise", "value" inside "...FutureBase.value").  12 line classes, one letter each:
     c {A1}      ... in asynq.async_task.AsyncTask._continue
     g {A1,A2}   ... in asynq.async_task.AsyncTask._continue_on_generator
     k {F1}      ... in asynq.decorators.AsyncDecorator.__call__
     v {F2,V}    ... in asynq.futures.FutureBase.value
     e {F3}      ... in asynq.futures.FutureBase.raise_if_error
     r {R}       ... in reraise
     s {R,SR}        six.reraise(type(error), error, error._traceback)
     u {V}           raise value          (any line that merely contains the word "value")
     a {C1}      ... in asynq.decorators.AsyncDecorator.asynq
     p {C2}      ... in asynq.decorators.AsyncProxyDecorator._call_pure
     y {C3}      ... in asynq.decorators.async_call
     f {}        a foreign line
   A boilerplate RUN is a list of patterns for consecutive lines (one asynq-internal frame sequence); run k is
   COMPLETE at line i of a text iff line i+j-1 contains pattern j for every j (and the text is long enough).

   The contract, written twice:
     declaratively - Faithful(t, out): out is t with some complete runs replaced by their marker, every other
                     line kept, in order;  NoRunLeft(t, out): no complete run survives among the kept lines;
     constructively - Admissible(t): apply every maximal set of pairwise disjoint complete runs.
   Where complete runs overlap (only possible for run 1 inside g g g g ...) the property does not say which one
   is collapsed: every member of Admissible(t) is accepted.  Greedy(t) is the obvious left-to-right reference.
   TLC enumerates every text (three families, see Init/Next), checks the invariants below on the model and prints
   text + admissible outputs; harness/replay_c18.py renders every text into concrete traceback lines, runs the
   real asynq.debug.filter_traceback and compares.

   output encoding: a sequence of integers, i > 0 = input line i untouched, -k = the marker of run k. *)
EXTENDS Integers, Sequences, FiniteSets, TLC, Json, IOUtils

EnvInt(n, dflt) == IF n \in DOMAIN IOEnv THEN atoi(IOEnv[n]) ELSE dflt
MaxLines  == EnvInt("LINES", 4)     \* family "lines":  every text of <= MaxLines lines over the 12 classes
MaxShort  == EnvInt("SHORT", 6)     \* family "short":  every text of <= MaxShort lines over {c, g, v, f}
MaxBlocks == EnvInt("BLOCKS", 3)    \* family "blocks": every text of <= MaxBlocks blocks (see Blocks)

Pat == [c |-> {"A1"}, g |-> {"A1", "A2"}, k |-> {"F1"}, v |-> {"F2", "V"}, e |-> {"F3"}, r |-> {"R"},
        s |-> {"R", "SR"}, u |-> {"V"}, a |-> {"C1"}, p |-> {"C2"}, y |-> {"C3"}, f |-> {}]
Classes == DOMAIN Pat
ShortClasses == {"c", "g", "v", "f"}

Runs == << <<"A1", "A2", "A2">>,                                       \* marker 1  ___asynq_continue___
           <<"F1", "F2", "F2", "F3", "R", "SR", "R", "V">>,            \* marker 2  ___asynq_future_raise_if_error___
           <<"C1", "C2", "C2", "C2", "C3">> >>                          \* marker 3  ___asynq_call_pure___
NRuns == Len(Runs)
RunLen(k) == Len(Runs[k])

(* the line a genuine asynq frame sequence shows for each pattern *)
Canon == [A1 |-> "c", A2 |-> "g", F1 |-> "k", F2 |-> "v", F3 |-> "e", R |-> "r", SR |-> "s", V |-> "u",
          C1 |-> "a", C2 |-> "p", C3 |-> "y"]
Full(k) == [j \in 1..RunLen(k) |-> Canon[Runs[k][j]]]
Blocks == {Full(k) : k \in 1..NRuns}                                                                 \* a full run
          \cup UNION {{SubSeq(Full(k), 1, n) : n \in 1..(RunLen(k) - 1)} : k \in 1..NRuns}            \* every proper prefix
          \cup UNION {{SubSeq(Full(k), n, RunLen(k)) : n \in 2..RunLen(k)} : k \in 1..NRuns}          \* every proper suffix
          \cup {<<"f">>}                                                                            \* a foreign line

(* ---------------------------------------------------------------- the contract *)
CompleteAt(t, i, k) == /\ i + RunLen(k) - 1 <= Len(t)
                       /\ \A j \in 1..RunLen(k) : Runs[k][j] \in Pat[t[i + j - 1]]
Occ(t) == {o \in (1..Len(t)) \X (1..NRuns) : CompleteAt(t, o[1], o[2])}
Cover(o) == o[1]..(o[1] + RunLen(o[2]) - 1)
Disjoint(S) == \A o1, o2 \in S : o1 # o2 => Cover(o1) \cap Cover(o2) = {}
Covered(S) == UNION {Cover(o) : o \in S}
Selections(t) == {S \in SUBSET Occ(t) : /\ Disjoint(S)
                                        /\ \A o \in Occ(t) : Cover(o) \cap Covered(S) # {}}

RECURSIVE Apply(_, _, _)
Apply(t, S, i) == IF i > Len(t) THEN <<>>
                  ELSE IF \E o \in S : o[1] = i
                       THEN LET o == CHOOSE x \in S : x[1] = i IN <<0 - o[2]>> \o Apply(t, S, i + RunLen(o[2]))
                       ELSE <<i>> \o Apply(t, S, i + 1)
Admissible(t) == {Apply(t, S, 1) : S \in Selections(t)}

RECURSIVE Greedy(_, _)
Greedy(t, i) == IF i > Len(t) THEN <<>>
                ELSE IF \E k \in 1..NRuns : CompleteAt(t, i, k)
                     THEN LET k == CHOOSE x \in 1..NRuns : CompleteAt(t, i, x) /\ \A z \in 1..(x - 1) : ~CompleteAt(t, i, z)
                          IN <<0 - k>> \o Greedy(t, i + RunLen(k))
                     ELSE <<i>> \o Greedy(t, i + 1)

(* the declarative statement, over an output alone *)
RECURSIVE Faithful(_, _, _)
Faithful(t, out, i) ==      \* out accounts for lines i.. of t: kept lines in place, each marker for one complete run
  IF out = <<>> THEN i = Len(t) + 1
  ELSE IF Head(out) > 0 THEN Head(out) = i /\ Faithful(t, Tail(out), i + 1)
       ELSE LET k == 0 - Head(out) IN k \in 1..NRuns /\ CompleteAt(t, i, k) /\ Faithful(t, Tail(out), i + RunLen(k))
Kept(out) == {out[n] : n \in {m \in 1..Len(out) : out[m] > 0}}
Markers(out) == Cardinality({m \in 1..Len(out) : out[m] < 0})
NoRunLeft(t, out) == \A o \in Occ(t) : ~(Cover(o) \subseteq Kept(out))

(* ---------------------------------------------------------------- enumeration *)
VARIABLES family, text, nblk, adm        \* adm = Admissible(text), computed once per text
vars == <<family, text, nblk, adm>>

Init == family \in {"lines", "short", "blocks"} /\ text = <<>> /\ nblk = 0 /\ adm = Admissible(<<>>)
Next == /\ \/ /\ family = "lines" /\ Len(text) < MaxLines
              /\ \E c \in Classes : text' = Append(text, c)
              /\ UNCHANGED <<family, nblk>>
           \/ /\ family = "short" /\ Len(text) < MaxShort
              /\ \E c \in ShortClasses : text' = Append(text, c)
              /\ UNCHANGED <<family, nblk>>
           \/ /\ family = "blocks" /\ nblk < MaxBlocks
              /\ \E b \in Blocks : text' = text \o b
              /\ nblk' = nblk + 1 /\ UNCHANGED family
        /\ adm' = Admissible(text')
Spec == Init /\ [][Next]_vars

(* ---------------------------------------------------------------- the property, on the model *)
OnlyCompleteRunsCollapsed == \A out \in adm : Faithful(text, out, 1)
EveryCompleteRunCollapsed == \A out \in adm : NoRunLeft(text, out)
KeptLinesInOrder == \A out \in adm : \A m, n \in 1..Len(out) : (m < n /\ out[m] > 0 /\ out[n] > 0) => out[m] < out[n]
LinesAccountedFor == \A out \in adm :
                        LET ms == {m \in 1..Len(out) : out[m] < 0}
                            RECURSIVE Sum(_)
                            Sum(S) == IF S = {} THEN 0 ELSE LET x == CHOOSE x \in S : TRUE IN RunLen(0 - out[x]) + Sum(S \ {x})
                        IN Cardinality(Kept(out)) + Sum(ms) = Len(text)
SomeOutput == adm # {}
GreedyAdmissible == Greedy(text, 1) \in adm
UniqueUnlessOverlap == Disjoint(Occ(text)) => /\ Cardinality(adm) = 1
                                              /\ \A out \in adm : Markers(out) = Cardinality(Occ(text))
NoRunNoChange == Occ(text) = {} => adm = {[i \in 1..Len(text) |-> i]}

(* ---------------------------------------------------------------- export *)
RECURSIVE Cat(_)
Cat(s) == IF s = <<>> THEN "" ELSE Head(s) \o Cat(Tail(s))
RECURSIVE OutStr(_)
OutStr(o) == IF o = <<>> THEN "" ELSE (IF Head(o) > 0 THEN ToString(Head(o)) ELSE "M" \o ToString(0 - Head(o))) \o "," \o OutStr(Tail(o))
RECURSIVE SetToSeq(_)
SetToSeq(S) == IF S = {} THEN <<>> ELSE LET x == CHOOSE x \in S : TRUE IN <<x>> \o SetToSeq(S \ {x})

ASSUME PrintT(ToJson([table |-> [c \in Classes |-> SetToSeq(Pat[c])], runs |-> Runs, nblocks |-> Cardinality(Blocks)]))
Export == PrintT(ToJson([t |-> Cat(text), o |-> SetToSeq({OutStr(x) : x \in adm}), f |-> family]))
=============================================================================
