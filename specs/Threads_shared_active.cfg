SPECIFICATION Spec
CHECK_DEADLOCK FALSE
CONSTANT N = 2
CONSTANT Shared = {"active"}
INVARIANT C16_own
