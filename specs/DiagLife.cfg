SPECIFICATION Spec
CHECK_DEADLOCK FALSE
INVARIANT DiagnosticsTotal
INVARIANT FormatErrorTotal
INVARIANT StateDeclared
INVARIANT Export
