SPECIFICATION Spec
CHECK_DEADLOCK FALSE
INVARIANT InOrder
INVARIANT NothingLost
INVARIANT OnlyValues
INVARIANT StartedIsUncomputed
INVARIANT Export
PROPERTY TakeNoMore
PROPERTY StopForEver
PROPERTY EarlyAdvance
