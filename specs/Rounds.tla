------------------------------- MODULE Rounds -------------------------------
(* The ORDER-FREE reference semantics of batching (what "maximal batching" means, C04 / C05.prio), for
   yield-only programs in the sequential domain.  There is no stack, no flag, no traversal order here:

     a configuration says which segment every task has reached, which tasks are complete (ok / failed)
     and which issued batch items are answered;
     SATURATE: run every runnable task (one whose awaited futures are all complete) until none is left -
       the result does not depend on the order (tasks only interact through completion), so the
       smallest runnable task is taken;
     then, if the root is not complete, FLUSH one whole pending batch of greatest priority
       (base priority of its kind, number of items): all unanswered items of that kind travel together.

   Accepts(P, fl) decides whether a sequence fl of flush compositions (sets of item ids) is one this
   semantics allows.  It is evaluated by the monitor on the flushes of every real trace and (through the
   same monitor) on every behaviour of the implementation-shaped specification Sched.tla:
   that is the refinement  Sched => Rounds  at the level of flush compositions. *)
EXTENDS PLang

Segs(P, t) == P.tasks[t].segs
YieldLeaves(P, t, k) == TermLeaves(P, t, k)      \* <<[g, n, f]>>

InitCfg(P, root) ==
  [ pc   |-> [t \in 1..NTasks(P) |-> IF t = root THEN 0 ELSE -1],     \* -1: not created; k: segment k was run, waiting on its yield
    done |-> [t \in 1..NTasks(P) |-> "no"],
    answered |-> {},
    issued |-> {} ]                                                    \* unanswered items: <<fid, kind>>

LeafReady(P, c, l) == CASE l.g = "I" -> l.f \in c.answered
                        [] l.g = "T" -> c.done[l.n] # "no"
                        [] OTHER -> TRUE
LeafFails(P, c, l) == CASE l.g = "I" -> IsX(ItemOut(P.kinds[l.n].flush, l.n, l.f))
                        [] l.g = "T" -> c.done[l.n] = "fail"
                        [] l.g \in {"Bad", "E", "LF"} -> TRUE
                        [] OTHER -> FALSE

Runnable(P, c, t) ==
  /\ c.pc[t] >= 0 /\ c.done[t] = "no"
  /\ c.pc[t] = 0 \/ \A i \in 1..Len(YieldLeaves(P, t, c.pc[t])) : LeafReady(P, c, YieldLeaves(P, t, c.pc[t])[i])

RunOne(P, c, t) ==       \* task t receives the result of its last yield and runs its next segment
  LET k0 == c.pc[t]
      failed == k0 > 0 /\ \E i \in 1..Len(YieldLeaves(P, t, k0)) : LeafFails(P, c, YieldLeaves(P, t, k0)[i])
  IN IF failed /\ ~Segs(P, t)[k0].term.catch THEN [c EXCEPT !.done[t] = "fail"]
     ELSE LET k == k0 + 1
              tm == Segs(P, t)[k].term
          IN CASE tm.k = "raise" -> [c EXCEPT !.done[t] = "fail", !.pc[t] = k]
               [] tm.k \in {"return", "result"} -> [c EXCEPT !.done[t] = "ok", !.pc[t] = k]
               [] tm.k = "yield" ->
                    LET ls == NewLeaves(P, t, k)
                        kids == {ls[i].n : i \in {j \in 1..Len(ls) : ls[j].g = "T"}}
                        items == {<<ls[i].f, ls[i].n>> : i \in {j \in 1..Len(ls) : ls[j].g = "I"}}
                    IN [c EXCEPT !.pc = [u \in DOMAIN @ |-> IF u = t THEN k ELSE IF u \in kids /\ @[u] = -1 THEN 0 ELSE @[u]],
                                 !.issued = @ \cup items]

RECURSIVE Saturate(_, _)
Saturate(P, c) ==
  LET rs == {t \in 1..NTasks(P) : Runnable(P, c, t)}
  IN IF rs = {} THEN c ELSE Saturate(P, RunOne(P, c, CHOOSE t \in rs : \A u \in rs : t <= u))

KindsPending(c) == {x[2] : x \in c.issued}
BatchOf(c, k) == {x[1] : x \in {y \in c.issued : y[2] = k}}
Prio(P, c, k) == <<P.kinds[k].base, Cardinality(BatchOf(c, k))>>
LexLess(p, q) == p[1] < q[1] \/ (p[1] = q[1] /\ p[2] < q[2])
Greatest(P, c) == {k \in KindsPending(c) : \A j \in KindsPending(c) : ~LexLess(Prio(P, c, k), Prio(P, c, j))}

RECURSIVE AcceptsFrom(_, _, _, _, _, _)
AcceptsFrom(P, root, c0, fl, i, strict) ==
  LET c == Saturate(P, c0) IN
  IF c.done[root] # "no" THEN i > Len(fl)                   \* the computation is complete: no further flush
  ELSE /\ i <= Len(fl)
       /\ \E k \in (IF strict THEN Greatest(P, c) ELSE KindsPending(c)) :
             /\ BatchOf(c, k) = fl[i]
             /\ AcceptsFrom(P, root, [c EXCEPT !.answered = @ \cup fl[i], !.issued = {x \in @ : x[2] # k}], fl, i + 1, strict)

\* C04: every flush happens at saturation and carries ALL pending requests of its kind (whatever the priority)
AcceptsMaximal(P, root, fl) == AcceptsFrom(P, root, InitCfg(P, root), fl, 1, FALSE)
\* C05: ... and the flushed kind is one of greatest priority
Accepts(P, root, fl) == AcceptsFrom(P, root, InitCfg(P, root), fl, 1, TRUE)
RoundsDomain(P) == YieldOnly(P) /\ SeqDomain(P) /\ Len(P.calls) = 1 /\ NoBaseRaise(P)
=============================================================================
