SPECIFICATION Spec
CHECK_DEADLOCK FALSE
CONSTANT N = 2
CONSTANT Shared = {"prof"}
INVARIANT C16_own
