SPECIFICATION Spec
CHECK_DEADLOCK FALSE
INVARIANT OnlyCompleteRunsCollapsed
INVARIANT EveryCompleteRunCollapsed
INVARIANT KeptLinesInOrder
INVARIANT LinesAccountedFor
INVARIANT SomeOutput
INVARIANT GreedyAdmissible
INVARIANT UniqueUnlessOverlap
INVARIANT NoRunNoChange
INVARIANT Export
