SPECIFICATION Spec
CHECK_DEADLOCK FALSE
INVARIANT StoreMatchesLru
INVARIANT SizeBound
INVARIANT NeverShare
INVARIANT ReturnedOwn
INVARIANT RaiseNotCached
INVARIANT InstanceGone
INVARIANT NoTtlBoundary
INVARIANT OneRecomputation
INVARIANT Export
PROPERTY HitRunsNothing
PROPERTY EvictsLeastRecent
PROPERTY OtherFunctionUntouched
