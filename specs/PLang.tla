------------------------------- MODULE PLang -------------------------------
(* The program language shared by every core specification and by the Python harness, and its
   REFERENCE SEMANTICS: plain sequential, depth-first evaluation (the oracle named by C01/C02/C07).

   A program is a JSON document (harness/plang.py); TLC reads it with JsonDeserialize, so
     prog.tasks[t].segs[k] = [ops |-> <<[o |-> "enter"|"exit"|"read"|"sync"|"spawn", a |-> int]>>,
                               term |-> [k |-> "yield"|"return"|"result"|"raise", catch |-> BOOLEAN, s |-> Struct]]
     Struct = [g |-> tag, n |-> int, xs |-> <<Struct>>]     tags  N T I C E L LF Bad  Tup Lst Dct
     prog.kinds[k] = [base |-> int, flush |-> "ok"|"itemerr"|"skip"|"raise"|"spawn"]
     prog.ctxs[c]  = [type |-> "async"|"override"|"oapi"|"attr"|"nonasync"|"timer"|"cleanup", var |-> int, val |-> int, faulty |-> "-"|"pause"|"resume"]
     prog.calls    = <<[root |-> t, conv |-> "call"|"value"]>>      (a session when longer than 1)
   Values and resolved structures share the shape [g, n, xs] because TLC cannot compare mixed types. *)
EXTENDS Naturals, Integers, Sequences, FiniteSets, SequencesExt, TLC

FID0 == 100000
Fid(t, k, p) == FID0 + t * 1000 + k * 50 + p      \* id of the leaf future created by task t, segment k, leaf position p

Val(g, n, xs) == [g |-> g, n |-> n, xs |-> xs]
VNone     == Val("none", 0, <<>>)
VX(vid)   == Val("x", vid, <<>>)                   \* an exception, identified by its schedule-independent id
VC(c)     == Val("c", c, <<>>)
VIv(f)    == Val("iv", f, <<>>)
IsX(v)    == v.g = "x"
IsBaseX(v) == v.g = "x" /\ v.n >= 500000 /\ v.n < 700000      \* 5xxxxx: a BaseException subclass, 6xxxxx: AsyncTaskCancelledError (GeneratorExit family)      \* derives from BaseException only: `except Exception` lets it pass

IsContainer(s) == s.g \in {"Tup", "Lst", "Dct"}
LowerTag(g) == IF g = "Tup" THEN "tup" ELSE IF g = "Lst" THEN "lst" ELSE "dct"


(* ---------------- resolved structures (what a task really yielded; leaves are future ids) ------ *)
RECURSIVE LeafSeq(_)        \* future ids in structure order, left to right
LeafSeq(s) == IF s.g = "F" THEN <<s.n>>
              ELSE IF IsContainer(s) THEN FlattenSeq([i \in 1..Len(s.xs) |-> LeafSeq(s.xs[i])])
              ELSE <<>>
Leaves(s) == Range(LeafSeq(s))

RECURSIVE HasBad(_)
HasBad(s) == IF s.g = "Bad" THEN TRUE
             ELSE IF IsContainer(s) THEN \E i \in 1..Len(s.xs) : HasBad(s.xs[i]) ELSE FALSE

RECURSIVE OrderedLeafSeq(_) \* leaves reachable through tuples and lists only (C03.order is silent about dicts)
OrderedLeafSeq(s) == IF s.g = "F" THEN <<s.n>>
                     ELSE IF s.g \in {"Tup", "Lst"} THEN FlattenSeq([i \in 1..Len(s.xs) |-> OrderedLeafSeq(s.xs[i])])
                     ELSE <<>>

RECURSIVE DictLeaves(_, _)  \* leaves that occur (also) below a dict
DictLeaves(s, under) == IF s.g = "F" THEN (IF under THEN {s.n} ELSE {})
                        ELSE IF IsContainer(s) THEN UNION {DictLeaves(s.xs[i], under \/ s.g = "Dct") : i \in 1..Len(s.xs)}
                        ELSE {}
FirstOccurrences(q) == SelectSeq([i \in 1..Len(q) |-> IF \E j \in 1..(i - 1) : q[j] = q[i] THEN -1 ELSE q[i]], LAMBDA x : x # -1)

(* Unwrap a resolved structure against an outcome table out[f] = [done, v, u]: the first failure in
   structure order wins (an exception outcome or a non-future object).  Result [v, u, bad]:
   v = unwrapped value or VX(id) of the winning failure, u = uid of that exception instance (0 if
   none / not known), bad = TRUE when the failure is a non-future object. *)
RECURSIVE UnwrapR(_, _)
UnwrapR(s, out) ==
  IF s.g = "N" THEN [v |-> VNone, u |-> 0, bad |-> FALSE]
  ELSE IF s.g = "Bad" THEN [v |-> VX(50000), u |-> 0, bad |-> TRUE]
  ELSE IF s.g = "F" THEN
        IF s.n \in DOMAIN out THEN [v |-> out[s.n].v, u |-> out[s.n].u, bad |-> FALSE]
        ELSE [v |-> Val("unknown", s.n, <<>>), u |-> 0, bad |-> FALSE]
  ELSE LET rs == [i \in 1..Len(s.xs) |-> UnwrapR(s.xs[i], out)]
           fails == {i \in 1..Len(s.xs) : IsX(rs[i].v)}
       IN IF fails # {} THEN rs[CHOOSE i \in fails : \A j \in fails : i <= j]
          ELSE [v |-> Val(LowerTag(s.g), 0, [i \in 1..Len(s.xs) |-> rs[i].v]), u |-> 0, bad |-> FALSE]

(* ---------------- static structures (program text) ------------------------------------------- *)
(* static leaves with their positions: sequence of [g, n, f] in structure order.  A leaf Rep(j) is the very same
   object as leaf j of the structure (written twice); it stands for that leaf everywhere *)
RECURSIVE SLeaves(_, _, _, _)
SLeaves(t, k, s, p) ==
  IF IsContainer(s) THEN
     LET RECURSIVE Go(_, _, _)
         Go(i, acc, pp) == IF i > Len(s.xs) THEN [l |-> acc, p |-> pp]
                           ELSE LET r == SLeaves(t, k, s.xs[i], pp) IN Go(i + 1, acc \o r.l, r.p)
     IN Go(1, <<>>, p)
  ELSE [l |-> <<[g |-> IF s.g = "D" THEN "T" ELSE s.g, n |-> s.n, f |-> IF s.g \in {"T", "D"} THEN s.n ELSE Fid(t, k, p + 1)]>>, p |-> p + 1]
StaticLeaves(t, k, s) == LET raw == SLeaves(t, k, s, 0).l IN [i \in 1..Len(raw) |-> IF raw[i].g = "Rep" THEN raw[raw[i].n] ELSE raw[i]]

(* the structure yielded at segment k of task t: `reuse` = k0 > 0 means the very object yielded at segment k0 is yielded again *)
IsReuse(P, t, k) == P.tasks[t].segs[k].term.reuse # 0
\* a re-yield may first APPEND new futures to the (list) object: term.s of the re-yielding segment is then a list of them
ExtStruct(P, t, k) == P.tasks[t].segs[k].term.s
HasExt(P, t, k) == IsReuse(P, t, k) /\ ExtStruct(P, t, k).g = "Lst"
BaseSeg(P, t, k) == P.tasks[t].segs[k].term.reuse
TermStruct(P, t, k) ==
  IF ~IsReuse(P, t, k) THEN P.tasks[t].segs[k].term.s
  ELSE LET base == P.tasks[t].segs[BaseSeg(P, t, k)].term.s
       IN IF HasExt(P, t, k) THEN Val("Lst", 0, base.xs \o ExtStruct(P, t, k).xs) ELSE base
NewLeaves(P, t, k) ==     \* the leaves created when segment k yields (none for a plain re-yield)
  IF ~IsReuse(P, t, k) THEN StaticLeaves(t, k, P.tasks[t].segs[k].term.s)
  ELSE IF HasExt(P, t, k) THEN StaticLeaves(t, k, ExtStruct(P, t, k)) ELSE <<>>
TermLeaves(P, t, k) ==
  IF ~IsReuse(P, t, k) THEN NewLeaves(P, t, k)
  ELSE StaticLeaves(t, BaseSeg(P, t, k), P.tasks[t].segs[BaseSeg(P, t, k)].term.s) \o NewLeaves(P, t, k)

ItemOut(mode, kind, f) ==       \* what a flush of that kind does to item f (a function of the item only)
  LET odd == (f % 2) = 1 IN
  CASE mode = "itemerr" /\ odd -> VX(20000 + kind)
    [] mode = "skip" /\ odd    -> VX(40000)
    [] mode = "raise" /\ odd   -> VX(30000 + kind)
    [] OTHER                   -> VIv(f)

BatchOut(mode, kind) == IF mode = "raise" THEN VX(30000 + kind) ELSE VNone     \* outcome of the batch object itself

LeafOutStatic(P, g, n, f, TO(_)) ==
  CASE g = "N"   -> VNone
    [] g = "Bad" -> VX(50000)
    [] g \in {"T", "D"} -> TO(n)
    [] g = "I"   -> ItemOut(P.kinds[n].flush, n, f)
    [] g = "B"   -> BatchOut(P.kinds[n].flush, n)
    [] g = "C"   -> VC(n)
    [] g = "E"   -> VX(200000 + f - FID0)
    [] g = "L"   -> VIv(f)
    [] g = "LF"  -> VX(300000 + f - FID0)

(* ---------------- reference semantics: sequential depth-first evaluation ---------------------- *)
RECURSIVE TaskOut(_, _)
RECURSIVE SOutT(_, _, _, _)
SOutT(P, s, p, tab) ==      \* [v |-> value or first failure in structure order, p |-> last leaf position used]
  IF IsContainer(s) THEN
     LET RECURSIVE Go(_, _, _)
         Go(i, acc, pp) == IF i > Len(s.xs) THEN [vs |-> acc, p |-> pp]
                           ELSE LET r == SOutT(P, s.xs[i], pp, tab) IN Go(i + 1, Append(acc, r.v), r.p)
         r == Go(1, <<>>, p)
         fails == {i \in 1..Len(r.vs) : IsX(r.vs[i])}
     IN [v |-> IF fails # {} THEN r.vs[CHOOSE i \in fails : \A j \in fails : i <= j]
               ELSE Val(LowerTag(s.g), 0, r.vs),
         p |-> r.p]
  ELSE LET e == tab[p + 1]
           TO(u) == TaskOut(P, u)
       IN [v |-> LeafOutStatic(P, e.g, e.n, e.f, TO), p |-> p + 1]
SOut(P, t, k) == SOutT(P, TermStruct(P, t, k), 0, TermLeaves(P, t, k))     \* what the yield at segment k of t evaluates to

TaskOut(P, t) ==            \* the value task t returns, or VX(id) of the exception it fails with
  LET segs == P.tasks[t].segs
      RECURSIVE Go(_, _)
      Go(k, recvs) ==
        LET seg == segs[k]
            RECURSIVE Ops(_, _)
            Ops(i, rs) == IF i > Len(seg.ops) THEN [ok |-> TRUE, x |-> VNone, rs |-> rs]
                          ELSE IF seg.ops[i].o = "sync"
                               THEN LET v == TaskOut(P, seg.ops[i].a) IN
                                    IF IsX(v) THEN [ok |-> FALSE, x |-> v, rs |-> rs]
                                    ELSE Ops(i + 1, Append(rs, v))
                               ELSE IF seg.ops[i].o = "ival"     \* item.value(): the request is answered on the spot
                               THEN LET v == ItemOut(P.kinds[seg.ops[i].a].flush, seg.ops[i].a, Fid(t, k, 30 + i - 1)) IN
                                    IF IsX(v) THEN [ok |-> FALSE, x |-> v, rs |-> rs]
                                    ELSE Ops(i + 1, Append(rs, v))
                               ELSE Ops(i + 1, rs)
            o == Ops(1, recvs)
        IN IF ~o.ok THEN o.x
           ELSE CASE seg.term.k = "yield" ->
                       LET r == SOut(P, t, k).v IN
                       IF IsX(r) THEN (IF seg.term.catch /\ ~IsBaseX(r) THEN Go(k + 1, Append(o.rs, Val("caught", r.n, <<>>))) ELSE r)
                       ELSE Go(k + 1, Append(o.rs, r))
                  [] seg.term.k \in {"return", "result"} ->
                       IF seg.term.k = "return" /\ seg.term.ret # 0 THEN Val("fut", seg.term.ret, <<>>) ELSE Val("r", t, o.rs)
                  [] seg.term.k = "raise" -> VX(10000 + t * 100 + k)
                  [] seg.term.k = "raiseb" -> VX(500000 + t * 100 + k)
                  [] seg.term.k = "raisec" -> VX(600000 + t * 100 + k)
  IN Go(1, <<>>)

(* ---------------- static predicates on programs ---------------------------------------------- *)
NTasks(P) == Len(P.tasks)
AllOps(P) == UNION {{<<t, k, i>> : i \in 1..Len(P.tasks[t].segs[k].ops)} : <<t, k>> \in
                     UNION {{<<t, k>> : k \in 1..Len(P.tasks[t].segs)} : t \in 1..NTasks(P)}}
OpAt(P, x) == P.tasks[x[1]].segs[x[2]].ops[x[3]]
NoNestKind(P) == \A k \in 1..Len(P.kinds) : P.kinds[k].flush # "nest"
RECURSIVE HasBatchLeaf(_)
HasBatchLeaf(s) == IF s.g = "B" THEN TRUE ELSE IF IsContainer(s) THEN \E i \in 1..Len(s.xs) : HasBatchLeaf(s.xs[i]) ELSE FALSE
NoBatchLeaves(P) == \A t \in 1..Len(P.tasks) : \A k \in 1..Len(P.tasks[t].segs) : ~HasBatchLeaf(P.tasks[t].segs[k].term.s)
YieldOnly(P) == NoNestKind(P) /\ NoBatchLeaves(P) /\ \A x \in AllOps(P) : OpAt(P, x).o \notin {"sync", "ival", "cancelb", "fail"}
HasCtxType(P, ty) == \E c \in 1..Len(P.ctxs) : P.ctxs[c].type = ty
NoFaultyCtx(P) == \A c \in 1..Len(P.ctxs) : P.ctxs[c].faulty = "-"
NoSpawnKind(P) == \A k \in 1..Len(P.kinds) : P.kinds[k].flush \notin {"spawn", "throw", "nest"}
NoThrowKind(P) == \A k \in 1..Len(P.kinds) : P.kinds[k].flush # "throw"
\* exceptions that end a computation from outside the data flow: the runaway-recursion RuntimeError (80000) and
\* an exception raised by BatchBase.flush() itself (31000 + kind)
IsEscape(v) == IsX(v) /\ (v.n = 80000 \/ (v.n >= 31000 /\ v.n < 32000))
NoStackLimit(P) == "maxstack" \notin DOMAIN P
NoKillOps(P) == \A x \in AllOps(P) : OpAt(P, x).o \notin {"cancelb", "fail"}      \* nobody completes batches / tasks from outside
NoBaseRaise(P) == \A t \in 1..Len(P.tasks) : \A k \in 1..Len(P.tasks[t].segs) : P.tasks[t].segs[k].term.k \notin {"raiseb", "raisec"}
\* the value a scoped variable / attribute has outside every override (the last scoped value holds None, written -1)
SvDefault(P, i) == IF i = P.nvars /\ P.nvars >= 2 THEN 0 - 1 ELSE 0
HasDedup(P, t) == "dedup" \in DOMAIN P.tasks[t]
NoDedup(P) == \A t \in 1..Len(P.tasks) : ~HasDedup(P, t)
\* (function, normalised arguments, binding: plain function / method of instance 1 or 2 / static method); one thread
DedupKey(P, t) == <<P.tasks[t].dedup.fn, P.tasks[t].dedup.key, P.tasks[t].dedup.bind>>
SeqDomain(P) == NoFaultyCtx(P) /\ ~HasCtxType(P, "nonasync") /\ NoSpawnKind(P) /\ NoStackLimit(P) /\ NoDedup(P) /\ NoKillOps(P)   \* where sequential evaluation is the oracle

(* every task is named at most once (as T leaf or sync target) in the whole program *)
TaskRefs(P) ==     \* sequence of referenced task ids, with repetitions
  FlattenSeq([t \in 1..NTasks(P) |->
    FlattenSeq([k \in 1..Len(P.tasks[t].segs) |->
      LET seg == P.tasks[t].segs[k]
          fromOps == SelectSeq([i \in 1..Len(seg.ops) |-> IF seg.ops[i].o = "sync" THEN seg.ops[i].a ELSE 0], LAMBDA x : x # 0)
          ls == IF seg.term.k = "yield" THEN StaticLeaves(t, k, seg.term.s) ELSE <<>>
          fromT == SelectSeq([i \in 1..Len(ls) |-> IF ls[i].g = "T" THEN ls[i].n ELSE 0], LAMBDA x : x # 0)
      IN fromOps \o fromT])])
TreeShaped(P) == LET r == TaskRefs(P) IN \A i, j \in 1..Len(r) : i # j => r[i] # r[j]

SingleKind(P) == Len(P.kinds) = 1

(* longest chain of sequentially dependent requests, for tree-shaped yield-only single-kind programs:
   Fin(t, s) = number of flushes after which t is complete when it starts after s flushes *)
RECURSIVE Fin(_, _, _)
Fin(P, t, s) ==
  LET segs == P.tasks[t].segs
      RECURSIVE Go(_, _)
      Go(k, cur) ==
        IF k > Len(segs) THEN cur
        ELSE LET seg == segs[k] IN
             IF seg.term.k # "yield" THEN cur
             ELSE LET ls == NewLeaves(P, t, k)     \* what a re-yielded object held before is complete already
                      times == {cur} \cup {IF ls[i].g = "I" THEN cur + 1
                                           ELSE IF ls[i].g = "T" THEN Fin(P, ls[i].n, cur) ELSE cur : i \in 1..Len(ls)}
                      nxt == CHOOSE m \in times : \A x \in times : x <= m
                      \* an uncaught failure ends the task at this yield (after all siblings finished)
                      r == SOut(P, t, k).v
                  IN IF IsX(r) /\ ~(seg.term.catch /\ ~IsBaseX(r)) THEN nxt ELSE Go(k + 1, nxt)
  IN Go(1, s)
CriticalPath(P, root) == Fin(P, root, 0)
=============================================================================
