SPECIFICATION Spec
CHECK_DEADLOCK FALSE
INVARIANT BodyRunsOnce
INVARIANT NoItemLeftPending
INVARIANT ItemsBeforeBatch
INVARIANT AnnouncedOnce
INVARIANT Precedence
INVARIANT ActiveMovedBeforeBody
INVARIANT ActiveIsPending
INVARIANT Export
PROPERTY OneTransition
PROPERTY OutcomeStable
PROPERTY NoItemIntoFinished
