SPECIFICATION Spec
CHECK_DEADLOCK FALSE
CONSTANT N = 2
CONSTANT Shared = {"dbatch"}
INVARIANT C16_own
