SPECIFICATION Spec
CHECK_DEADLOCK FALSE
CONSTANT N = 3
CONSTANT Shared = {}
INVARIANT C16_own
