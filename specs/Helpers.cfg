SPECIFICATION Spec
CHECK_DEADLOCK FALSE
INVARIANT SortOracleOK
INVARIANT ExtremesOK
INVARIANT PartitionOK
INVARIANT RetryOK
INVARIANT Export
