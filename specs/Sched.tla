------------------------------- MODULE Sched -------------------------------
(* Implementation-shaped specification of asynq's TaskScheduler, AsyncTask, BatchBase and the
   context machinery, written to be BOUND to the code (one step per turn of the _execute loop, one
   step per flush, bodies run segment by segment, synchronous re-entry as an explicit frame stack).

   The PROGRAM is a variable chosen in Init from a family (JSON list of [prog |-> ...] entries, IOEnv.PROGS) and never changes; the
   only nondeterminism afterwards is what the code leaves open: the choice among pending batches
   of equal greatest priority (set iteration order).  One TLC run = family x all schedules.

   Every step emits the OBSERVABLE events the harness records from the real code; they are fed to the
   monitor Obs!Step, so the clauses of C01-C08 are evaluated on the abstract observable state at
   every event (bad = {} is the invariant), by the very same operators that judge real traces.

   Correspondence with the code (asynq/scheduler.py, async_task.py, batching.py, contexts.py):
     m.stack  = TaskScheduler._tasks          m.sbat  = TaskScheduler._batches
     m.active = TaskScheduler.active_task     frames  = the Python call stack of wait_for/_continue
     m.tk[t]  = AsyncTask fields: deps=_dependencies, dsched=_dependencies_scheduled,
                lastv=_last_value, ctxs=_contexts, cact=_contexts_active, gen=_generator state
     m.out[f] = FutureBase._value/_error      m.bt / m.cur = batches and the active batch per kind *)
EXTENDS Obs, Json, IOUtils

Entries == JsonDeserialize(IOEnv.PROGS)      \* <<[prog |-> program, ...]>>
MaxStackDefault == 1000000

VARIABLES pid, m, frames, obs, bad
vars == <<pid, m, frames, obs, bad>>

P == Entries[pid].prog

(* ---------------- frames -------------------------------------------------------------------- *)
FCall(ix)            == [f |-> "call", a |-> ix, b |-> 0, c |-> 0, d |-> 0]
FWait(root, base, ph) == [f |-> "wait", a |-> root, b |-> base, c |-> ph, d |-> 0]   \* ph: 1 loop, 2 exec, 3 post
FBody(t, k, i, old)  == [f |-> "body", a |-> t, b |-> k, c |-> i, d |-> old]
Top(F) == F[Len(F)]
Pop(F) == SubSeq(F, 1, Len(F) - 1)
SetTop(F, fr) == [F EXCEPT ![Len(F)] = fr]

(* ---------------- machine state helpers ------------------------------------------------------ *)
\* every event is appended to the log; the virtual clock (what AsyncTimer reads) advances inside task code only:
\* by the task's number at the start of each segment and by 1 at its end
Ev(M, e) == [M EXCEPT !.evs = Append(@, e), !.clk = IF e.e = "SegBegin" THEN @ + e.t ELSE IF e.e = "SegEnd" THEN @ + 1 ELSE @]
TkRec == [st |-> "absent", reg |-> FALSE, by |-> 0, pc |-> 0, lastv |-> Val("N", 0, <<>>), deps |-> <<>>,
          dsched |-> FALSE, cact |-> FALSE, ctxs |-> <<>>, gen |-> "new", recvs |-> <<>>, dcb |-> FALSE, ys |-> EmptyFn]

InitM(Pg) ==
  [ tk |-> [t \in 1..Len(Pg.tasks) |-> TkRec],
    out |-> EmptyFn, ib |-> EmptyFn, lz |-> EmptyFn,
    bt |-> EmptyFn, cur |-> [k \in 1..Len(Pg.kinds) |-> 0], bcount |-> [k \in 1..Len(Pg.kinds) |-> 0],
    stack |-> <<>>, sbat |-> {}, active |-> 0,
    clk |-> 0, tm |-> EmptyFn,       \* virtual clock; AsyncTimer contexts: c -> [tot |-> total_time, last |-> _last_start_time]
    cx |-> EmptyFn, sv |-> [v \in 1..(2 * Pg.nvars) |-> SvDefault(Pg, v)], saved |-> EmptyFn,
    running |-> {},         \* tasks whose generator is executing right now (AsyncTask.running)
    reg |-> EmptyFn,        \* DeduplicateDecorator.tasks: (function, key) -> task
    uidc |-> 0, round |-> 0, sched |-> <<>>, evs |-> <<>>, stuck |-> FALSE ]

IsDone(M, f) == f \in DOMAIN M.out /\ M.out[f].done
MaxStack == IF "maxstack" \in DOMAIN P THEN P.maxstack ELSE MaxStackDefault

SetOut(M, f, d, v, u) == [M EXCEPT !.out = Upd(@, f, FutRec(d, v, u))]
DoneEv(M, f, v, u) == Ev(SetOut(M, f, TRUE, v, u), [e |-> "Done", a |-> f, v |-> v, u |-> u])

(* a task completes: first the deduplicate callback (subscribed when the task was created through the decorator)
   unregisters the task if it is still the one registered under its key, then the observable Done *)
TaskDoneEv(M, t, v, u) ==
  LET M1 == IF M.tk[t].dcb /\ DedupKey(P, t) \in DOMAIN M.reg /\ M.reg[DedupKey(P, t)] = t
            THEN [M EXCEPT !.reg = Upd(@, DedupKey(P, t), 0)] ELSE M
  IN DoneEv(M1, t, v, u)

CreateTask(M, u, by, reg) ==
  LET M1 == [M EXCEPT !.tk[u].st = "created", !.tk[u].reg = reg, !.tk[u].by = by]
      M2 == SetOut(M1, u, FALSE, VNone, 0)
  IN IF reg THEN Ev(M2, [e |-> "Create", t |-> u, a |-> by]) ELSE M2

RECURSIVE ExtractOrder(_)     \* async_task.extract_futures: tuples/lists backwards, dict values forwards
ExtractOrder(s) ==
  IF s.g = "F" THEN <<s.n>>
  ELSE IF s.g \in {"Tup", "Lst"} THEN FlattenSeq([i \in 1..Len(s.xs) |-> ExtractOrder(s.xs[Len(s.xs) + 1 - i])])
  ELSE IF s.g = "Dct" THEN FlattenSeq([i \in 1..Len(s.xs) |-> ExtractOrder(s.xs[i])])
  ELSE <<>>

(* ---------------- contexts ------------------------------------------------------------------- *)
CtxType(c) == P.ctxs[c].type
SvIndex(c) == IF CtxType(c) \in {"override", "oapi"} THEN P.ctxs[c].var ELSE P.nvars + P.ctxs[c].var   \* scoped values, then attributes
\* "oapi": the context object handed out by the public AsyncScopedValue.override(v) - the harness cannot subclass it, so its
\* resume() / pause() are not observed (no Resume / Pause events); its effect on the value is the same
Silent(c) == CtxType(c) = "oapi"

CtxResume(M, c) ==      \* AsyncContext.resume() of a well-behaved context
  LET M1 == IF Silent(c) THEN M ELSE Ev(M, [e |-> "Resume", a |-> c]) IN
  IF CtxType(c) \in {"override", "attr", "oapi"}
  THEN [M1 EXCEPT !.saved = Upd(@, c, M.sv[SvIndex(c)]), !.sv[SvIndex(c)] = P.ctxs[c].val]
  ELSE IF CtxType(c) = "timer" THEN [M1 EXCEPT !.tm[c].last = M.clk]        \* AsyncTimer.resume
  ELSE M1
CtxPause(M, c) ==
  LET M1 == IF Silent(c) THEN M ELSE Ev(M, [e |-> "Pause", a |-> c]) IN
  IF CtxType(c) \in {"override", "attr", "oapi"} THEN [M1 EXCEPT !.sv[SvIndex(c)] = M.saved[c]]
  ELSE IF CtxType(c) = "timer" THEN [M1 EXCEPT !.tm[c].tot = @ + (M.clk - M.tm[c].last)]     \* AsyncTimer.pause
  ELSE M1
\* the with-block of c has been left (__exit__ returned): an AsyncTimer's total_time is final now
CtxLeft(M, c) == IF CtxType(c) = "timer" THEN Ev(M, [e |-> "Timer", a |-> c, b |-> M.tm[c].tot]) ELSE M
CtxExitPause(M, c) == IF CtxType(c) = "nonasync" THEN M ELSE CtxLeft(CtxPause(M, c), c)

(* leave the with-blocks still open in task t, innermost first, as nested `with` statements do *)
RECURSIVE UnwindCtxs(_, _)
UnwindCtxs(M, t) ==
  LET cs == M.tk[t].ctxs IN
  IF cs = <<>> THEN M
  ELSE LET c == cs[Len(cs)]
           M1 == Ev(M, [e |-> "Exit", a |-> c, t |-> t])
           M2 == [M1 EXCEPT !.tk[t].ctxs = SubSeq(cs, 1, Len(cs) - 1)]
           M3 == CtxExitPause(M2, c)
       IN UnwindCtxs(M3, t)

(* AsyncTask._resume_contexts / _pause_contexts.  Result [M, err]: err = TRUE when a NonAsyncContext
   asserted (the error is then handed to _accept_error by the caller). *)
ResumeAll(M, t) ==
  IF M.tk[t].cact THEN [M |-> M, err |-> FALSE] ELSE
  LET cs == M.tk[t].ctxs
      RECURSIVE Go(_, _, _)
      Go(MM, i, err) == IF i > Len(cs) THEN [M |-> MM, err |-> err]
                        ELSE IF CtxType(cs[i]) = "nonasync" THEN Go(MM, i + 1, TRUE)
                        ELSE Go(CtxResume(MM, cs[i]), i + 1, err)
  IN Go([M EXCEPT !.tk[t].cact = TRUE], 1, FALSE)
PauseAll(M, t) ==
  IF ~M.tk[t].cact THEN [M |-> M, err |-> FALSE] ELSE
  LET cs == M.tk[t].ctxs
      RECURSIVE Go(_, _, _)
      Go(MM, i, err) == IF i < 1 THEN [M |-> MM, err |-> err]
                        ELSE IF CtxType(cs[i]) = "nonasync" THEN Go(MM, i - 1, TRUE)
                        ELSE Go(CtxPause(MM, cs[i]), i - 1, err)
  IN Go([M EXCEPT !.tk[t].cact = FALSE], Len(cs), FALSE)

(* AsyncTask._computed for a task completed from outside: its generator, suspended at a yield (or not started yet), is closed *)
FailSuspended(M, t, v) ==
  LET u == M.uidc + 1
      M0 == [M EXCEPT !.uidc = u]
      started == M.tk[t].gen = "open"
      M1 == IF started THEN ResumeAll(M0, t).M ELSE M0  \* contexts are active while close() runs the __exit__s
      M2 == IF started THEN Ev(M1, [e |-> "Closed", t |-> t, k |-> M.tk[t].pc]) ELSE M1
      M3 == UnwindCtxs(M2, t)
      M4 == [M3 EXCEPT !.tk[t].gen = "none", !.tk[t].deps = <<>>, !.tk[t].lastv = Val("N", 0, <<>>), !.tk[t].st = "done"]
  IN TaskDoneEv(M4, t, v, u)

(* ---------------- batches -------------------------------------------------------------------- *)
NewBatchOnly(M, kind) ==
  LET n == M.bcount[kind] + 1
      bid == kind * 1000 + n
  IN Ev(SetOut([M EXCEPT !.bcount[kind] = n, !.cur[kind] = bid,
                         !.bt = Upd(@, bid, [kind |-> kind, items |-> <<>>, st |-> "pending"])], bid, FALSE, VNone, 0),
        [e |-> "NewBatch", b |-> bid, a |-> kind])

NewItem(M, kind, fid, t) ==
  LET needB == M.cur[kind] = 0
      n == M.bcount[kind] + 1
      bid == IF needB THEN kind * 1000 + n ELSE M.cur[kind]
      M1 == IF needB THEN NewBatchOnly(M, kind) ELSE M
      M2 == [M1 EXCEPT !.bt[bid].items = Append(@, fid), !.ib = Upd(@, fid, bid)]
  IN Ev(SetOut(M2, fid, FALSE, VNone, 0), [e |-> "NewItem", a |-> fid, b |-> bid, t |-> t])

(* BatchBase.flush() as the scheduler calls it: _compute -> _try_switch_active_batch, _flush (the
   harness body by mode), set_value/set_error -> _computed (unset items get an error) -> on_computed *)
FlushBatch(M, b, by) ==
  LET B == M.bt[b]
      kind == B.kind
      mode == P.kinds[kind].flush
      items == B.items
      M0 == [M EXCEPT !.cur[kind] = IF @ = b THEN 0 ELSE @, !.bt[b].st = "flushing"]
      M1 == Ev(M0, [e |-> "FlushBegin", b |-> b, a |-> by, xs |-> items])
      odd(f) == (f % 2) = 1
      \* the body: sets values / errors item by item
      RECURSIVE Body(_, _)
      Body(MM, i) ==
        IF i > Len(items) THEN MM
        ELSE LET f == items[i] IN
             IF mode = "itemerr" /\ odd(f)
             THEN LET u == MM.uidc + 1 IN Body(DoneEv([MM EXCEPT !.uidc = u], f, VX(20000 + kind), u), i + 1)
             ELSE IF mode \in {"skip", "raise"} /\ odd(f) THEN Body(MM, i + 1)
             ELSE Body(DoneEv(MM, f, VIv(f), 0), i + 1)
      M2 == Body(M1, 1)
      raised == mode = "raise"
      eu == M2.uidc + 1
      M3 == IF raised THEN Ev([M2 EXCEPT !.uidc = eu], [e |-> "FlushEnd", b |-> b, a |-> 1, u |-> eu, v |-> VX(30000 + kind)])
            ELSE IF mode = "spawn"
                 THEN Ev(NewItem(M2, kind, Fid(90 + kind, (b % 1000) % 20, 1), 0), [e |-> "FlushEnd", b |-> b, a |-> 0, u |-> 0, v |-> VNone])
                 ELSE Ev(M2, [e |-> "FlushEnd", b |-> b, a |-> 0, u |-> 0, v |-> VNone])
      \* BatchBase._computed: every item still unset gets the flush error, or "wasn't set"
      RECURSIVE Rest(_, _)
      Rest(MM, i) ==
        IF i > Len(items) THEN MM
        ELSE LET f == items[i] IN
             IF IsDone(MM, f) THEN Rest(MM, i + 1)
             ELSE IF raised THEN Rest(DoneEv(MM, f, VX(30000 + kind), eu), i + 1)
             ELSE LET u == MM.uidc + 1 IN Rest(DoneEv([MM EXCEPT !.uidc = u], f, VX(40000), u), i + 1)
      M4 == Rest(M3, 1)
      M5 == [M4 EXCEPT !.bt[b].st = "flushed"]
      M6 == Ev(M5, [e |-> "BatchDone", b |-> b, a |-> IF raised THEN 1 ELSE 0])
  IN IF raised THEN DoneEv(M6, b, VX(30000 + kind), eu) ELSE DoneEv(M6, b, VNone, 0)     \* the batch itself is a future

(* ---------------- building a yielded structure (harness Run.build, left to right) ------------- *)
RECURSIVE Build(_, _, _, _, _, _)
Build(M, t, k, s, p, tab) ==  \* -> [M, s (resolved), p (last leaf position used)]; tab = StaticLeaves of the whole structure
  IF IsContainer(s) THEN
     LET RECURSIVE Go(_, _, _, _)
         Go(MM, i, acc, pp) == IF i > Len(s.xs) THEN [M |-> MM, s |-> Val(s.g, 0, acc), p |-> pp]
                               ELSE LET r == Build(MM, t, k, s.xs[i], pp, tab) IN Go(r.M, i + 1, Append(acc, r.s), r.p)
     IN Go(M, 1, <<>>, p)
  ELSE LET fid == Fid(t, k, p + 1) IN
    CASE s.g = "N"   -> [M |-> M, s |-> Val("N", 0, <<>>), p |-> p + 1]
      [] s.g = "Bad" -> [M |-> M, s |-> Val("Bad", 0, <<>>), p |-> p + 1]
      [] s.g = "Rep" ->      \* the same object as an earlier leaf of this structure: nothing is created
           LET e == tab[p + 1] IN
           [M |-> M, s |-> IF e.g \in {"N", "Bad"} THEN Val(e.g, 0, <<>>) ELSE Val("F", e.f, <<>>), p |-> p + 1]
      [] s.g = "T"   -> [M |-> IF M.tk[s.n].st = "absent" THEN CreateTask(M, s.n, t, TRUE) ELSE M,
                         s |-> Val("F", s.n, <<>>), p |-> p + 1]
      [] s.g = "B"   ->      \* the pending batch object of that kind itself
           LET M1 == IF M.cur[s.n] = 0 THEN NewBatchOnly(M, s.n) ELSE M
           IN [M |-> M1, s |-> Val("F", M1.cur[s.n], <<>>), p |-> p + 1]
      [] s.g = "D"   ->      \* DeduplicateDecorator.asynq for call site s.n
           LET K == DedupKey(P, s.n)
               w == IF K \in DOMAIN M.reg THEN M.reg[K] ELSE 0
           IN IF w = 0
              THEN LET M1 == CreateTask(M, s.n, t, TRUE)
                       M2 == [M1 EXCEPT !.reg = Upd(@, K, s.n), !.tk[s.n].dcb = TRUE]
                   IN [M |-> Ev(M2, [e |-> "DedupCall", t |-> t, a |-> s.n, b |-> s.n]), s |-> Val("F", s.n, <<>>), p |-> p + 1]
              ELSE IF w \in M.running            \* task.running: hand out a fresh, unregistered task
              THEN [M |-> Ev(CreateTask(M, s.n, t, TRUE), [e |-> "DedupCall", t |-> t, a |-> s.n, b |-> s.n]),
                    s |-> Val("F", s.n, <<>>), p |-> p + 1]
              ELSE [M |-> Ev(M, [e |-> "DedupCall", t |-> t, a |-> s.n, b |-> w]), s |-> Val("F", w, <<>>), p |-> p + 1]
      [] s.g = "I"   -> [M |-> NewItem(M, s.n, fid, t), s |-> Val("F", fid, <<>>), p |-> p + 1]
      [] s.g = "C"   -> [M |-> Ev(SetOut(M, fid, TRUE, VC(s.n), 0), [e |-> "NewFut", a |-> fid, b |-> 1, v |-> VC(s.n), u |-> 0]),
                         s |-> Val("F", fid, <<>>), p |-> p + 1]
      [] s.g = "E"   -> LET u == M.uidc + 1
                            v == VX(200000 + fid - FID0) IN
                        [M |-> Ev(SetOut([M EXCEPT !.uidc = u], fid, TRUE, v, u), [e |-> "NewFut", a |-> fid, b |-> 2, v |-> v, u |-> u]),
                         s |-> Val("F", fid, <<>>), p |-> p + 1]
      [] s.g \in {"L", "LF"} ->
                        [M |-> Ev([SetOut(M, fid, FALSE, VNone, 0) EXCEPT !.lz = Upd(@, fid, s.g)],
                                  [e |-> "NewFut", a |-> fid, b |-> IF s.g = "L" THEN 3 ELSE 4, v |-> VNone, u |-> 0]),
                         s |-> Val("F", fid, <<>>), p |-> p + 1]

(* ---------------- running task bodies (AsyncTask._continue and the generated body) ------------ *)
(* Results are [M, F]: machine state and frame stack.  While a body runs, Top(F) is its body frame. *)
RECURSIVE Continue(_, _, _)
RECURSIVE StartSeg(_, _, _, _, _, _)
RECURSIVE RunOps(_, _, _, _, _)
RECURSIVE RunTerm(_, _, _, _)

Epilogue(M, F, t) ==          \* tail of TaskScheduler._continue_with_task
  [M |-> [M EXCEPT !.active = Top(F).d, !.tk[t].dsched = FALSE, !.running = @ \ {t}], F |-> Pop(F)]

SegEndEv(M, t, k, b, s) == Ev(M, [e |-> "SegEnd", t |-> t, k |-> k, b |-> b, s |-> s, a |-> M.active])

BodyRaise(M, F, t, v, u) ==   \* the body lets exception (v,u) escape: with-blocks are left, the task fails with it
  LET M1 == UnwindCtxs(M, t)
      M2 == [M1 EXCEPT !.tk[t].gen = "none", !.tk[t].deps = <<>>, !.tk[t].lastv = Val("N", 0, <<>>), !.tk[t].st = "done"]
  IN Epilogue(TaskDoneEv(M2, t, v, u), F, t)

BodyReturn(M, F, t, ret) ==     \* ret # 0: the body returns the (never awaited) task object `ret` itself
  LET M1 == UnwindCtxs(M, t)
      M2 == [M1 EXCEPT !.tk[t].gen = "none", !.tk[t].deps = <<>>, !.tk[t].lastv = Val("N", 0, <<>>), !.tk[t].st = "done"]
  IN Epilogue(TaskDoneEv(M2, t, IF ret # 0 THEN Val("fut", ret, <<>>) ELSE Val("r", t, M.tk[t].recvs), 0), F, t)

Continue(M, F, t) ==          \* one turn of `while True` in AsyncTask._continue
  LET uw == UnwrapR(M.tk[t].lastv, M.out)
      M1 == [M EXCEPT !.tk[t].lastv = Val("N", 0, <<>>), !.tk[t].deps = <<>>]
  IN IF IsX(uw.v)
     THEN IF uw.bad THEN LET u == M.uidc + 1 IN StartSeg([M1 EXCEPT !.uidc = u], F, t, uw.v, u, TRUE)
          ELSE StartSeg(M1, F, t, uw.v, uw.u, TRUE)
     ELSE StartSeg(M1, F, t, uw.v, 0, FALSE)

StartSeg(M, F, t, v, u, isExc) ==
  LET k == M.tk[t].pc + 1
      M1 == IF ~M.tk[t].reg THEN Ev([M EXCEPT !.tk[t].reg = TRUE], [e |-> "Create", t |-> t, a |-> 0]) ELSE M
      prevCatch == k > 1 /\ P.tasks[t].segs[k - 1].term.catch /\ ~IsBaseX(v)      \* try/except Exception around the yield
      sb == [e |-> "SegBegin", t |-> t, k |-> k, v |-> v, u |-> u, a |-> M.active, xs |-> <<>>]
  IN IF isExc /\ ~prevCatch
     THEN BodyRaise(SegEndEv(Ev(M1, sb), t, k, 5, Val("N", 0, <<>>)), F, t, v, u)
     ELSE LET \* try/except around the with-blocks entered in the previous segment: the caught exception leaves them first
              cs == M1.tk[t].ctxs
              leave == IF isExc /\ k > 1 /\ P.tasks[t].segs[k - 1].term.cscope = 1
                       THEN Cardinality({i \in 1..Len(cs) : M1.cx[cs[i]] = k - 1}) ELSE 0
              RECURSIVE Leave(_, _)
              Leave(MM, n) == IF n = 0 THEN MM
                              ELSE LET cc == MM.tk[t].ctxs
                                       c == cc[Len(cc)]
                                       Ma == Ev(MM, [e |-> "Exit", a |-> c, t |-> t])
                                       Mb == [Ma EXCEPT !.tk[t].ctxs = SubSeq(cc, 1, Len(cc) - 1)]
                                   IN Leave(CtxExitPause(Mb, c), n - 1)
              M1b == Leave(M1, leave)
              M2 == Ev([M1b EXCEPT !.running = @ \cup {t}], sb)
              M3 == IF k = 1 THEN M2
                    ELSE [M2 EXCEPT !.tk[t].recvs = Append(@, IF isExc THEN Val("caught", v.n, <<>>) ELSE v)]
          IN RunOps(M3, SetTop(F, FBody(t, k, 1, Top(F).d)), t, k, 1)

SyncReturn(M, F, t, k, i, u) ==      \* the synchronous call of u made by op i of (t,k) has returned
  LET o == M.out[u]
      M1 == Ev(M, [e |-> "SyncEnd", t |-> t, a |-> u, v |-> o.v, u |-> o.u, b |-> M.active, k |-> Len(M.stack)])
  IN IF IsX(o.v) THEN BodyRaise(SegEndEv(M1, t, k, 6, Val("N", 0, <<>>)), F, t, o.v, o.u)
     ELSE RunOps([M1 EXCEPT !.tk[t].recvs = Append(@, o.v)], F, t, k, i + 1)

RunOps(M, F, t, k, i) ==
  LET ops == P.tasks[t].segs[k].ops IN
  IF i > Len(ops) THEN RunTerm(M, F, t, k)
  ELSE LET o == ops[i] IN
    CASE o.o = "enter" ->
           LET c == o.a
               M1 == Ev(M, [e |-> "Enter", a |-> c, t |-> t])
               M2 == [M1 EXCEPT !.tk[t].ctxs = Append(@, c), !.cx = Upd(@, c, k),      \* cx[c]: the segment in which c was entered
                                !.tm = IF CtxType(c) = "timer" THEN Upd(@, c, [tot |-> 0, last |-> 0]) ELSE @]
               M3 == IF CtxType(c) = "nonasync" THEN M2 ELSE CtxResume(M2, c)
           IN RunOps(M3, F, t, k, i + 1)
      [] o.o = "exit" ->
           LET cs == M.tk[t].ctxs IN
           IF o.a \notin Range(cs) THEN RunOps(M, F, t, k, i + 1)     \* already left by a caught exception
           ELSE LET c == o.a        \* usually the innermost one; a context object may also be left out of order (__exit__ called by hand)
                    M1 == Ev(M, [e |-> "Exit", a |-> c, t |-> t])
                    M2 == [M1 EXCEPT !.tk[t].ctxs = SelectSeq(cs, LAMBDA x : x # c)]
                    M3 == CtxExitPause(M2, c)
                IN RunOps(M3, F, t, k, i + 1)
      [] o.o = "read" ->
           LET x == IF o.a < 100 THEN o.a ELSE P.nvars + (o.a - 100)
           IN RunOps(Ev(M, [e |-> "Read", t |-> t, a |-> o.a, v |-> VC(M.sv[x])]), F, t, k, i + 1)
      [] o.o = "ival" ->          \* BatchItemBase(...).value(): _compute -> batch.flush() directly, not through the scheduler
           LET fid == Fid(t, k, 30 + i - 1)
               M1 == NewItem(M, o.a, fid, t)
               b == M1.ib[fid]
               M2 == IF M1.bt[b].st = "pending" THEN FlushBatch(M1, b, 0) ELSE M1
               oc == M2.out[fid]
               M3 == Ev(M2, [e |-> "IVal", t |-> t, a |-> fid, v |-> oc.v, u |-> oc.u])
           IN IF IsX(oc.v) THEN BodyRaise(SegEndEv(M3, t, k, 6, Val("N", 0, <<>>)), F, t, oc.v, oc.u)
              ELSE RunOps([M3 EXCEPT !.tk[t].recvs = Append(@, oc.v)], F, t, k, i + 1)
      [] o.o = "dirty" ->
           RunOps(Ev([M EXCEPT !.reg = Upd(@, DedupKey(P, o.a), 0)], [e |-> "Dirty", t |-> t, a |-> o.a]), F, t, k, i + 1)
      [] o.o = "cancelb" ->       \* BatchBase.cancel(error) on the pending active batch of that kind, from task code
           LET b == M.cur[o.a] IN
           IF b = 0 THEN RunOps(M, F, t, k, i + 1)
           ELSE LET items == M.bt[b].items
                    u == M.uidc + 1
                    M0 == Ev([M EXCEPT !.uidc = u, !.cur[o.a] = 0, !.bt[b].st = "flushed"], [e |-> "CancelBegin", b |-> b, t |-> t])
                    RECURSIVE Rest(_, _)
                    Rest(MM, j) == IF j > Len(items) THEN MM
                                   ELSE IF IsDone(MM, items[j]) THEN Rest(MM, j + 1)
                                   ELSE Rest(DoneEv(MM, items[j], VX(32000 + o.a), u), j + 1)
                    M1 == DoneEv(Ev(Rest(M0, 1), [e |-> "BatchDone", b |-> b, a |-> 1]), b, VX(32000 + o.a), u)
                IN RunOps(M1, F, t, k, i + 1)
      [] o.o = "fail" ->          \* another task is completed with an error from outside (set_error), if it is pending and not running
           IF M.tk[o.a].st = "created" /\ ~IsDone(M, o.a) /\ o.a \notin M.running /\ ~M.tk[o.a].cact
           THEN LET M0 == Ev(M, [e |-> "Kill", t |-> t, a |-> o.a])
                IN RunOps(FailSuspended(M0, o.a, VX(33000 + o.a)), F, t, k, i + 1)
           ELSE RunOps(M, F, t, k, i + 1)
      [] o.o = "set" ->
           LET x == IF o.a < 100 THEN o.a ELSE P.nvars + (o.a - 100)
           IN RunOps(Ev([M EXCEPT !.sv[x] = o.v], [e |-> "Set", t |-> t, a |-> o.a, b |-> o.v]), F, t, k, i + 1)
      [] o.o = "spawn" ->
           RunOps(IF M.tk[o.a].st = "absent" THEN CreateTask(M, o.a, t, TRUE) ELSE M, F, t, k, i + 1)
      [] o.o = "sync" ->
           LET u == o.a
               M1 == Ev(M, [e |-> "SyncBegin", t |-> t, a |-> u])
               M2 == IF M1.tk[u].st = "absent" THEN CreateTask(M1, u, 0, FALSE) ELSE M1
               F1 == SetTop(F, FBody(t, k, i, Top(F).d))
           IN IF IsDone(M2, u) THEN SyncReturn(M2, F1, t, k, i, u)
              ELSE [M |-> M2, F |-> Append(F1, FWait(u, 0, 1))]
      [] OTHER -> RunOps(M, F, t, k, i + 1)

RunTerm(M, F, t, k) ==
  LET tm == P.tasks[t].segs[k].term IN
  CASE tm.k = "yield" ->
         LET r == IF tm.reuse # 0
                  THEN IF tm.s.g = "Lst"           \* the list yielded before, with new futures appended to it first
                       THEN LET b == Build(M, t, k, tm.s, 0, StaticLeaves(t, k, tm.s))
                            IN [M |-> b.M, s |-> Val("Lst", 0, M.tk[t].ys[tm.reuse].xs \o b.s.xs)]
                       ELSE [M |-> M, s |-> M.tk[t].ys[tm.reuse]]                  \* the object yielded before, again
                  ELSE Build(M, t, k, tm.s, 0, StaticLeaves(t, k, tm.s))
             M1 == SegEndEv(r.M, t, k, 1, r.s)
             deps == ExtractOrder(r.s)
             M2 == [M1 EXCEPT !.tk[t].lastv = r.s, !.tk[t].deps = deps, !.tk[t].pc = k, !.tk[t].gen = "open",
                              !.tk[t].ys = Upd(@, k, r.s)]
         IN IF deps = <<>> THEN Continue(M2, F, t) ELSE Epilogue(M2, F, t)
    [] tm.k = "return" -> BodyReturn(SegEndEv(M, t, k, 2, Val("N", 0, <<>>)), F, t, tm.ret)
    [] tm.k = "result" -> BodyReturn(SegEndEv(M, t, k, 3, Val("N", 0, <<>>)), F, t, 0)
    [] tm.k \in {"raise", "raiseb", "raisec"} -> LET u == M.uidc + 1 IN
                          BodyRaise(SegEndEv([M EXCEPT !.uidc = u], t, k, 4, Val("N", 0, <<>>)), F, t,
                                    VX((IF tm.k = "raise" THEN 10000 ELSE IF tm.k = "raiseb" THEN 500000 ELSE 600000) + t * 100 + k), u)

(* ---------------- one step of the machine --------------------------------------------------- *)
IsBlocked(M, t) == \E i \in 1..Len(M.tk[t].deps) : ~IsDone(M, M.tk[t].deps[i])

\* TaskScheduler._select_batch_to_flush: drop empty / flushed batches, candidates = greatest (base, n)
Live(M) == {b \in M.sbat : M.bt[b].st = "pending" /\ Len(M.bt[b].items) > 0}
PrioOf(M, b) == <<P.kinds[M.bt[b].kind].base, Len(M.bt[b].items)>>
LexLT2(p, q) == p[1] < q[1] \/ (p[1] = q[1] /\ p[2] < q[2])
Maxima(M) == {b \in Live(M) : \A c \in Live(M) : ~LexLT2(PrioOf(M, b), PrioOf(M, c))}

TieChoices(M, F) ==
  IF F # <<>> /\ Top(F).f = "wait" /\ Top(F).c = 3 /\ ~IsDone(M, Top(F).a) /\ Maxima(M) # {} THEN Maxima(M) ELSE {0}

CallReturn(M, F) ==       \* the outermost value() returns to the driver: CallEnd, next call
  LET ix == Top(F).a
      root == P.calls[ix].root
      o == M.out[root]
      M1 == Ev(M, [e |-> "CallEnd", t |-> root, a |-> M.active, k |-> Len(M.stack), b |-> Cardinality(M.sbat),
                   xs |-> [i \in 1..(2 * P.nvars) |-> M.sv[i]], v |-> o.v, u |-> o.u])
  IN [M |-> M1, F |-> IF ix < Len(P.calls) THEN <<FCall(ix + 1)>> ELSE <<>>]

(* an exception (v,u) escapes wait_for (F's top wait frame has already been popped): it reaches the driver, or
   the body that made the synchronous call *)
EscapeTo(M, F, waited, v, u) ==
  LET below == Top(F) IN
  IF below.f = "call"
  THEN LET root == P.calls[below.a].root
           M2 == Ev(M, [e |-> "CallEnd", t |-> root, a |-> M.active, k |-> Len(M.stack), b |-> Cardinality(M.sbat),
                        xs |-> [i \in 1..(2 * P.nvars) |-> M.sv[i]], v |-> v, u |-> u])
       IN [M |-> M2, F |-> IF below.a < Len(P.calls) THEN <<FCall(below.a + 1)>> ELSE <<>>]
  ELSE LET t == below.a
           M2 == Ev(M, [e |-> "SyncEnd", t |-> t, a |-> waited, v |-> v, u |-> u, b |-> M.active, k |-> Len(M.stack)])
       IN BodyRaise(SegEndEv(M2, t, below.b, 6, Val("N", 0, <<>>)), F, t, v, u)

StepM(M, F, choice) ==
  LET fr == Top(F) IN
  CASE fr.f = "call" ->
         \* the driver makes call ix: fn() or fn.asynq().value()
         LET ix == fr.a
             root == P.calls[ix].root
             conv == P.calls[ix].conv
             M1 == Ev(M, [e |-> "CallBegin", t |-> root, a |-> IF conv = "call" THEN 1 ELSE 2])
             M2 == IF M1.tk[root].st = "absent" THEN CreateTask(M1, root, 0, conv # "call") ELSE M1
         IN IF IsDone(M2, root) THEN CallReturn(M2, F) ELSE [M |-> M2, F |-> Append(F, FWait(root, 0, 1))]

    [] fr.f = "body" ->
         \* only reachable when the synchronous call it was waiting for has returned
         SyncReturn(M, F, fr.a, fr.b, fr.c, P.tasks[fr.a].segs[fr.b].ops[fr.c].a)

    [] fr.f = "wait" /\ fr.c = 1 ->          \* wait_for: `while not task.is_computed()` / entry of _execute
         IF IsDone(M, fr.a)
         THEN IF Len(F) >= 2 /\ F[Len(F) - 1].f = "call" THEN CallReturn(M, Pop(F)) ELSE [M |-> M, F |-> Pop(F)]
         ELSE [M |-> [M EXCEPT !.stack = Append(@, fr.a)], F |-> SetTop(F, [FWait(fr.a, Len(M.stack), 2) EXCEPT !.d = fr.d])]

    [] fr.f = "wait" /\ fr.c = 2 ->          \* one turn of the loop in _execute
         IF Len(M.stack) <= fr.b THEN [M |-> M, F |-> SetTop(F, [FWait(fr.a, fr.b, 3) EXCEPT !.d = fr.d])]
         ELSE IF Len(M.stack) > MaxStack THEN
              \* runaway recursion: reset() and RuntimeError, which propagates to whoever called wait_for
              LET u == M.uidc + 1
                  M1 == [M EXCEPT !.stack = <<>>, !.sbat = {}, !.active = 0, !.uidc = u]
              IN EscapeTo(M1, Pop(F), fr.a, VX(80000), u)
         ELSE LET f == M.stack[Len(M.stack)]
                  popped == [M EXCEPT !.stack = SubSeq(@, 1, Len(@) - 1)]
              IN IF IsDone(M, f) THEN [M |-> popped, F |-> F]
                 ELSE IF f \in DOMAIN M.tk THEN
                        \* _handle_async_task
                        IF IsBlocked(M, f) THEN
                           IF M.tk[f].dsched
                           THEN LET r == PauseAll([popped EXCEPT !.tk[f].dsched = FALSE], f)
                                IN [M |-> IF r.err THEN FailSuspended(r.M, f, VX(70000)) ELSE r.M, F |-> F]
                           ELSE LET r == ResumeAll([M EXCEPT !.tk[f].dsched = TRUE], f)
                                    M1 == IF r.err THEN FailSuspended(r.M, f, VX(70000)) ELSE r.M
                                    deps == M1.tk[f].deps
                                    push == SelectSeq(deps, LAMBDA d : ~IsDone(M1, d))
                                IN [M |-> [M1 EXCEPT !.stack = @ \o push], F |-> F]
                        ELSE \* _continue_with_task
                             LET r == ResumeAll(M, f)
                             IN IF r.err THEN [M |-> FailSuspended(r.M, f, VX(70000)), F |-> F]
                                ELSE Continue([r.M EXCEPT !.active = f], Append(F, FBody(f, 0, 0, M.active)), f)
                 ELSE IF f \in DOMAIN M.ib THEN
                        \* a batch item: _schedule_batch, pop
                        [M |-> [popped EXCEPT !.sbat = IF M.bt[M.ib[f]].st = "flushed" THEN @ ELSE @ \cup {M.ib[f]}], F |-> F]
                 ELSE IF f \in DOMAIN M.bt THEN
                        \* a batch object some task waits for: BatchBase._compute, i.e. flushed on the spot (no flush events)
                        [M |-> FlushBatch(popped, f, 0), F |-> F]
                 ELSE \* any other future: computed inline (Future(provider))
                      LET M1 == Ev(popped, [e |-> "Provider", a |-> f]) IN
                      IF M.lz[f] = "L" THEN [M |-> DoneEv(M1, f, VIv(f), 0), F |-> F]
                      ELSE LET u == M1.uidc + 1 IN [M |-> DoneEv([M1 EXCEPT !.uidc = u], f, VX(300000 + f - FID0), u), F |-> F]

    [] fr.f = "wait" /\ fr.c = 3 ->          \* after _execute: done?  else _continue_with_batch
         IF IsDone(M, fr.a) THEN [M |-> M, F |-> SetTop(F, FWait(fr.a, fr.b, 1))]
         ELSE IF choice = 0 THEN
              \* nothing to flush: _continue_with_batch returns None and wait_for loops; that makes progress when
              \* a nested flush answered items while this activation's flags were stale.  Many empty
              \* selections in a row (fr.d counts them; stale flags clear one task level per pass) is a spin: the real wait_for would never return.
              IF fr.d >= 2 * NTasks(P) + 2 THEN [M |-> Ev([M EXCEPT !.stuck = TRUE, !.sbat = Live(M)], [e |-> "Hang"]), F |-> <<>>]
              ELSE [M |-> [M EXCEPT !.sbat = Live(M)], F |-> SetTop(F, [FWait(fr.a, fr.b, 1) EXCEPT !.d = fr.d + 1])]
         ELSE LET b == choice
                  live == Live(M)
                  \* get_priority() is asked of every live batch; the harness steers ties with a third component
                  RECURSIVE Prios(_, _)
                  Prios(MM, S) == IF S = {} THEN MM
                                  ELSE LET x == CHOOSE x \in S : \A y \in S : x <= y IN
                                       Prios(Ev(MM, [e |-> "Prio", b |-> x, xs |-> <<PrioOf(M, x)[1], PrioOf(M, x)[2], IF x = b THEN 1 ELSE 0>>]), S \ {x})
                  M1 == Prios(M, live)
                  M2 == Ev([M1 EXCEPT !.sbat = live \ {b}, !.round = @ + 1, !.sched = Append(@, M.bt[b].kind)], [e |-> "Before", b |-> b])
                  M3 == FlushBatch(M2, b, 1)
                  throws == P.kinds[M.bt[b].kind].flush = "throw"
                  tu == M3.uidc + 1
                  M4 == Ev(IF throws THEN [M3 EXCEPT !.uidc = tu] ELSE M3, [e |-> "After", b |-> b])
              IN IF throws THEN EscapeTo(M4, Pop(F), fr.a, VX(31000 + M.bt[b].kind), tu)      \* flush() itself raised
                 ELSE [M |-> M4, F |-> SetTop(F, FWait(fr.a, fr.b, 1))]

(* ---------------- the specification ----------------------------------------------------------- *)
RECURSIVE Feed(_, _, _, _)
Feed(S, B, evs, i) == IF i > Len(evs) THEN [S |-> S, bad |-> B]
                      ELSE LET r == Step(S, evs[i]) IN Feed(r.S, B \cup r.bad, evs, i + 1)

Init == /\ pid \in 1..Len(Entries)
        /\ m = InitM(Entries[pid].prog)
        /\ frames = <<FCall(1)>>
        /\ obs = InitObs(Entries[pid].prog)
        /\ bad = {}

Next == /\ frames # <<>>
        /\ \E choice \in TieChoices(m, frames) :
             LET r == StepM(m, frames, choice)
                 fd == Feed(obs, bad, r.M.evs, 1)
             IN /\ m' = [r.M EXCEPT !.evs = <<>>]
                /\ frames' = r.F
                /\ obs' = fd.S
                /\ bad' = fd.bad
        /\ UNCHANGED pid

Spec == Init /\ [][Next]_vars
FairSpec == Spec /\ WF_vars(Next)

(* ---------------- properties of the design ---------------------------------------------------- *)
\* every clause, at every event; a check for one property passes its clause prefix (e.g. "C05.") in the environment
\* so that TLC explores the whole family even where a clause of another property has a known finding
ClausePrefix == IF "CLAUSES" \in DOMAIN IOEnv THEN IOEnv.CLAUSES ELSE ""
Own(c) == Len(c) >= Len(ClausePrefix) /\ SubSeq(c, 1, Len(ClausePrefix)) = ClausePrefix
\* clauses recorded as known findings (KNOWN_FINDINGS.txt) are carved out so that TLC keeps looking for other violations
KnownClauses == IF "KNOWNFILE" \in DOMAIN IOEnv /\ IOEnv.KNOWNFILE # "" THEN Range(JsonDeserialize(IOEnv.KNOWNFILE)) ELSE {}
NoClauseViolated == {c \in bad : Own(c) /\ c \notin KnownClauses} = {}
NeverStuck == ~m.stuck                           \* _continue_with_batch always finds a batch while the root is pending
Finished == frames = <<>>
CleanAtEnd == Finished => (m.stack = <<>> /\ m.active = 0)
Terminates == <>Finished                         \* C03.term at design level (under FairSpec)
FramesBounded == Len(frames) <= 1 + 2 * (1 + Cardinality({x \in AllOps(P) : OpAt(P, x).o = "sync"}))   \* C03.depth: no frame per chain link
StackDiscipline == \A i \in 1..Len(frames) : frames[i].f = "wait" /\ frames[i].c \in {2, 3} => Len(m.stack) >= frames[i].b \/ m.stack = <<>>

(* behaviour export: at the end of a run print (program, tie-break schedule) *)
ExportDone == (frames = <<>>) => PrintT(ToJson([beh |-> pid, sched |-> m.sched]))
=============================================================================
