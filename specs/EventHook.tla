------------------------------ MODULE EventHook ------------------------------
(* X01 (extra check, not one of the listed properties) - asynq.tools.AsyncEventHook.

   Statement decided here:
   "AsyncEventHook: trigger( *args) and safe_trigger( *args) call every subscribed handler exactly once with the given
    arguments - synchronous handlers and @asynq() handlers alike (also bound methods, async_proxy functions, handlers
    that block on batch items) - whichever way the hook is triggered (synchronous call, .asynq().value(), yield from a
    task); the batch requests of all async handlers of one trigger share a single flush; subscribe/unsubscribe (also
    `+=`/`-=` if EventHook supports them, and unsubscribing during a trigger if EventHook defines that) take effect
    for the next trigger; trigger propagates the first handler exception (in subscription order) only after every
    async handler yielded alongside it has finished (asynq semantics: siblings complete first) - state exactly what
    the code structure promises for SYNC handlers placed after a failing one and prescribe `any` where nothing is
    promised; safe_trigger runs ALL handlers even if some raise (Exception or BaseException) and then re-raises the
    first error in subscription order, and raises nothing if none failed."

   What qcore.events.EventHook offers (checked on the installed class): subscribe, unsubscribe, trigger, safe_trigger,
   __call__ (= trigger), __iter__, __contains__.  It has NO `+=`/`-=` (no __iadd__/__isub__), so those are not modelled.
   It DOES define unsubscribing during a trigger: EventHook.trigger/safe_trigger iterate over `list(self.handlers)`
   "because some event handlers may mutate the list" - a handler that unsubscribes (itself) while the event is being
   delivered does not disturb the current delivery and is absent from the next one.  Behaviour `once` models that.

   State: hs = the sequence of subscribed handlers in subscription order, each [id, k, b, unk]:
     k (kind): sync (plain function), smeth (bound plain method), async (@asynq() function that does not block),
               ablock (@asynq() function that first blocks on a batch item), proxy (@async_proxy() function returning the
               task of a blocking @asynq() body), ameth (bound @asynq() method)
     b (behaviour): ok, exc (raises an Exception), base (raises a BaseException subclass), falsy (raises an Exception
               whose class defines __bool__ returning False - legal Python), once (ok, and unsubscribes itself)
     unk: TRUE when the statement does not determine whether the handler is still subscribed (a `once` handler whose
               invocation in an earlier failing trigger was not prescribed)
   One action per public operation; the prescribed result of the operation is appended to hist.

   Prescriptions for one trigger over the handlers subscribed when it starts (count: "1" exactly once - started and
   finished before the trigger returned/raised; "0" not called; "le1" the statement is silent, only 'never twice'):

   safe_trigger: every handler "1"; outcome = error of the first failing handler in subscription order, "ok" if none
     fails; one flush containing the batch items of all blocking handlers (none if there is no blocking handler).
   trigger, no SYNC handler fails: every handler "1" - this is what the code structure promises for sync handlers
     placed after a failing ASYNC handler: every sync handler is invoked while the list of futures to yield is being
     built, i.e. before the first async handler starts, so an async failure cannot keep a sync handler from being
     called; all async handlers are yielded together, so all of them finish before the error propagates; outcome =
     error of the first failing async handler in subscription order ("ok" if none); one shared flush.
   trigger, a SYNC handler fails (first one at position fs): sync handlers up to and including fs "1" (delivery is in
     subscription order); NOTHING is promised for sync handlers after fs (EventHook.trigger's note: "other handlers
     won't be invoked") nor for async handlers (no async handler has been yielded alongside the failure: the present
     code never starts them, not even those subscribed before fs) -> "le1", flush "any"; outcome = the error of fs, or,
     if an async handler before fs fails too, either of the two ("first in subscription order" among the handlers
     that ran).
   __call__ (conv "call") is trigger.  Arguments are a function of the step number (0, 1 or 2 positional arguments). *)
EXTENDS Naturals, Sequences, FiniteSets, TLC, Json, IOUtils

Depth == IF "DEPTH" \in DOMAIN IOEnv THEN atoi(IOEnv.DEPTH) ELSE 3
Alpha == IF "ALPHA" \in DOMAIN IOEnv THEN IOEnv.ALPHA ELSE "small"
(* shape "product": subscribe^k followed by ONE trigger (every handler list of length < Depth x every way to trigger);
   shape "free": any operation, the last one a trigger *)
Shape == IF "SHAPE" \in DOMAIN IOEnv THEN IOEnv.SHAPE ELSE "free"
MaxH == IF "MAXH" \in DOMAIN IOEnv THEN atoi(IOEnv.MAXH) ELSE 3

SyncKinds == {"sync", "smeth"}
AsyncKinds == {"async", "ablock", "proxy", "ameth"}
Blocking == {"ablock", "proxy"}
Failing == {"exc", "base", "falsy"}
T(k, b) == [k |-> k, b |-> b]

AlphaFull == {T(k, b) : k \in SyncKinds \cup AsyncKinds, b \in {"ok"} \cup Failing}
             \cup {T("sync", "once"), T("async", "once"), T("ablock", "once")}
AlphaQuick == {T(k, b) : k \in {"sync", "async", "ablock"}, b \in {"ok"} \cup Failing}
              \cup {T("smeth", "exc"), T("ameth", "ok"), T("proxy", "ok"), T("proxy", "falsy"),
                    T("sync", "once"), T("async", "once")}
AlphaSmall == {T("sync", "ok"), T("sync", "once"), T("sync", "exc"), T("async", "once"), T("ablock", "ok"), T("ablock", "falsy")}
AlphaMid == AlphaSmall \cup {T("async", "base"), T("ablock", "once"), T("smeth", "ok"), T("proxy", "exc")}
Types == CASE Alpha = "full" -> AlphaFull [] Alpha = "quick" -> AlphaQuick [] Alpha = "mid" -> AlphaMid [] OTHER -> AlphaSmall

Convs == {"sync", "value", "yield"}

VARIABLES hs, nid, hist
vars == <<hs, nid, hist>>

Min(S) == CHOOSE x \in S : \A y \in S : x <= y
IsSync(h) == h.k \in SyncKinds
Fails(h) == h.b \in Failing
IsTrig(r) == r.op \in {"trigger", "safe_trigger"}
Triggered == \E j \in 1..Len(hist) : IsTrig(hist[j])
Args(n) == [i \in 1..(n % 3) |-> 10 * n + i]

Init == hs = <<>> /\ nid = 1 /\ hist = <<>>

Blank == [op |-> "", conv |-> "", hid |-> 0, k |-> "", b |-> "", args |-> <<>>, subs |-> <<>>, maybe |-> {},
          fails |-> {}, calls |-> <<>>, flush |-> <<"any">>, out |-> [t |-> "ok", who |-> {}], res |-> <<"ok">>]

MayStep == /\ Len(hist) < Depth
           /\ Shape = "product" => ~Triggered
NotLast == Shape = "free" => Len(hist) < Depth - 1       \* the last operation of a free history is a trigger

Subscribe(t) ==
  /\ MayStep /\ NotLast /\ Len(hs) < MaxH
  /\ hs' = Append(hs, [id |-> nid, k |-> t.k, b |-> t.b, unk |-> FALSE])
  /\ nid' = nid + 1
  /\ hist' = Append(hist, [Blank EXCEPT !.op = "subscribe", !.hid = nid, !.k = t.k, !.b = t.b])

Remove(s, i) == [j \in 1..(Len(s) - 1) |-> IF j < i THEN s[j] ELSE s[j + 1]]

Unsubscribe(i) ==
  /\ MayStep /\ NotLast /\ Shape = "free"
  /\ hs' = Remove(hs, i) /\ UNCHANGED nid
  \* a handler that may already have unsubscribed itself: unsubscribe may raise, but afterwards it is certainly gone
  /\ hist' = Append(hist, [Blank EXCEPT !.op = "unsubscribe", !.hid = hs[i].id, !.k = hs[i].k, !.b = hs[i].b,
                                        !.res = IF hs[i].unk THEN <<"any">> ELSE <<"ok">>])

(* ---- the prescription for one trigger ---- *)
N == Len(hs)
FS == {i \in 1..N : IsSync(hs[i]) /\ Fails(hs[i])}
AF == {i \in 1..N : ~IsSync(hs[i]) /\ Fails(hs[i])}
AllF == FS \cup AF
fs == IF FS = {} THEN 0 ELSE Min(FS)

\* would handler i certainly be invoked by this trigger if it is still subscribed?
Sure(safe, i) == safe \/ fs = 0 \/ (IsSync(hs[i]) /\ i <= fs)
Count(safe, i) == IF Sure(safe, i) /\ ~hs[i].unk THEN "1" ELSE "le1"
Pos(id) == IF \E i \in 1..N : hs[i].id = id THEN CHOOSE i \in 1..N : hs[i].id = id ELSE 0
Calls(safe) == [id \in 1..(nid - 1) |-> IF Pos(id) = 0 THEN "0" ELSE Count(safe, Pos(id))]

Outcome(safe) ==
  IF safe THEN IF AllF = {} THEN [t |-> "ok", who |-> {}] ELSE [t |-> "err", who |-> {hs[Min(AllF)].id}]
  ELSE IF fs = 0 THEN IF AF = {} THEN [t |-> "ok", who |-> {}] ELSE [t |-> "err", who |-> {hs[Min(AF)].id}]
       ELSE [t |-> "err", who |-> {hs[fs].id, hs[Min(AllF)].id}]

Flush(safe) ==
  IF (~safe /\ fs # 0) \/ (\E i \in 1..N : hs[i].unk /\ hs[i].k \in Blocking) THEN <<"any">>
  ELSE <<"n", Cardinality({i \in 1..N : hs[i].k \in Blocking})>>

\* a `once` handler that was certainly invoked (if still there) is gone; one whose invocation was not prescribed may
\* or may not be subscribed from now on
RECURSIVE After(_, _)
After(safe, i) ==
  IF i > N THEN <<>>
  ELSE IF hs[i].b = "once" /\ Sure(safe, i) THEN After(safe, i + 1)
       ELSE IF hs[i].b = "once" THEN <<[hs[i] EXCEPT !.unk = TRUE]>> \o After(safe, i + 1)
       ELSE <<hs[i]>> \o After(safe, i + 1)

Trigger(op, conv) ==
  LET safe == op = "safe_trigger" IN
  /\ MayStep
  /\ hs' = After(safe, 1) /\ UNCHANGED nid
  /\ hist' = Append(hist, [Blank EXCEPT !.op = op, !.conv = conv, !.args = Args(Len(hist) + 1),
                                        !.subs = [i \in 1..N |-> hs[i].id],
                                        !.maybe = {hs[i].id : i \in {j \in 1..N : hs[j].unk}},
                                        !.fails = {hs[i].id : i \in AllF},
                                        !.calls = Calls(safe), !.flush = Flush(safe), !.out = Outcome(safe)])

Next == \/ \E t \in Types : Subscribe(t)
        \/ \E i \in 1..Len(hs) : Unsubscribe(i)
        \/ \E c \in Convs : Trigger("trigger", c) \/ Trigger("safe_trigger", c)
        \/ Trigger("trigger", "call")
Spec == Init /\ [][Next]_vars

(* ---- the statement, on the model (over the recorded prescriptions) ---- *)
Trigs == {j \in 1..Len(hist) : IsTrig(hist[j])}
SeqRange(s) == {s[i] : i \in 1..Len(s)}
SureIds(r) == SeqRange(r.subs) \ r.maybe
FirstOf(r, S) == r.subs[Min({i \in 1..Len(r.subs) : r.subs[i] \in S})]

\* safe_trigger runs ALL handlers, whatever fails
SafeRunsAll == \A j \in Trigs : hist[j].op = "safe_trigger" => \A id \in SureIds(hist[j]) : hist[j].calls[id] = "1"
\* a trigger that raises nothing has called every subscribed handler exactly once
OkMeansAllRan == \A j \in Trigs : hist[j].out.t = "ok" => \A id \in SureIds(hist[j]) : hist[j].calls[id] = "1"
\* nothing is raised iff no handler fails; what is raised is the error of a failing handler, and the first failing handler
\* in subscription order is always acceptable; safe_trigger accepts nothing else
RaisesIffFailed == \A j \in Trigs : (hist[j].out.t = "ok") <=> (hist[j].fails = {})
FirstError == \A j \in Trigs : hist[j].out.t = "err" =>
                 /\ hist[j].out.who \subseteq hist[j].fails
                 /\ FirstOf(hist[j], hist[j].fails) \in hist[j].out.who
                 /\ hist[j].op = "safe_trigger" => Cardinality(hist[j].out.who) = 1
\* handlers that are not subscribed are never called; nobody is ever called twice
NoGhostCalls == \A j \in Trigs : \A id \in 1..Len(hist[j].calls) :
                   /\ id \notin SeqRange(hist[j].subs) => hist[j].calls[id] = "0"
                   /\ hist[j].calls[id] \in {"0", "1", "le1"}
\* subscribe / unsubscribe take effect for the next trigger: the handlers of a trigger are exactly those subscribed and not
\* unsubscribed before it, minus `once` handlers that an earlier trigger certainly (or, in `maybe`, possibly) delivered to
SubEffect == \A j \in Trigs :
   LET subd == {hist[i].hid : i \in {x \in 1..(j - 1) : hist[x].op = "subscribe"}}
       unsd == {hist[i].hid : i \in {x \in 1..(j - 1) : hist[x].op = "unsubscribe"}}
       once == {hist[i].hid : i \in {x \in 1..(j - 1) : hist[x].op = "subscribe" /\ hist[x].b = "once"}}
   IN /\ SeqRange(hist[j].subs) \subseteq subd \ unsd
      /\ (subd \ unsd) \ once \subseteq SureIds(hist[j])
      /\ hist[j].maybe \subseteq once
      /\ \A a, b \in 1..Len(hist[j].subs) : a < b => hist[j].subs[a] < hist[j].subs[b]     \* subscription order
\* a `once` handler is delivered to at most one time over the whole history when all its deliveries were prescribed
OnceOnce == \A id \in 1..(nid - 1) :
   Cardinality({j \in Trigs : id <= Len(hist[j].calls) /\ hist[j].calls[id] = "1" /\
                              \E x \in 1..Len(hist) : hist[x].op = "subscribe" /\ hist[x].hid = id /\ hist[x].b = "once"}) <= 1
\* all blocking handlers of one trigger share a single flush
SingleFlush == \A j \in Trigs : hist[j].flush # <<"any">> =>
   hist[j].flush[2] = Cardinality({x \in 1..(j - 1) : hist[x].op = "subscribe" /\ hist[x].k \in Blocking /\ hist[x].hid \in SeqRange(hist[j].subs)})

Export == (Len(hist) > 0 /\ IsTrig(hist[Len(hist)]) /\ (Shape = "product" \/ Len(hist) = Depth))
          => PrintT(ToJson([h |-> hist]))
=============================================================================
