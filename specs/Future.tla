------------------------------- MODULE Future -------------------------------
(* C10 - a future is completed at most once and reports one consistent outcome.

   One object per behaviour (its kind is chosen in Init), one action per public operation, the result
   the property PRESCRIBES for that operation recorded in the history variable.  TLC enumerates every
   operation history up to Depth; every history is replayed into the real object (harness/check_c10.py)
   and each real result is compared with the prescribed one.  "any" = the property does not prescribe.

   kinds: fut_ok / fut_raise = Future(provider) whose provider returns / raises; const = ConstFuture;
          error = ErrorFuture; task_ok / task_raise = AsyncTask of a trivial @asynq() body;
          task_susp = an AsyncTask that is suspended at a yield (blocked on a batch item) while the operations are
          applied to it by a sibling task, and whose generator raises when it is closed;
          batch = a BatchBase subclass with one item, item = that item, batch0 = such a batch with no item at all.
   outcome: <<"none">>, <<"val", x>>, <<"err", x>>;  values and errors are small integers. *)
EXTENDS Naturals, Sequences, FiniteSets, TLC, Json, IOUtils

Depth == IF "DEPTH" \in DOMAIN IOEnv THEN atoi(IOEnv.DEPTH) ELSE 4
Kinds == {"fut_ok", "fut_raise", "const", "error", "task_ok", "task_raise", "task_susp", "batch", "batch0", "item"}

VARIABLES kind, outcome, epoch, runs, subs, notes, hist
vars == <<kind, outcome, epoch, runs, subs, notes, hist>>
(* subs: sequence of "good"|"bad" subscribers; notes[i] = number of notifications subscriber i got in the
   current epoch; runs = provider / body / flush executions in the current epoch *)

None == <<"none">>
Natural(k) ==       \* the outcome the underlying computation produces
  CASE k = "fut_ok" -> <<"val", 5>>   [] k = "fut_raise" -> <<"err", 7>>
    [] k = "const" -> <<"val", 5>>    [] k = "error" -> <<"err", 7>>
    [] k = "task_ok" -> <<"val", 5>>  [] k = "task_raise" -> <<"err", 7>>
    [] k = "task_susp" -> <<"val", 5>>
    [] k = "batch" -> <<"val", 0>>    [] k = "item" -> <<"val", 5>>
    [] k = "batch0" -> <<"val", 0>>
Born(k) == k \in {"const", "error"}              \* complete from construction
Sinking(k) == k \in {"const", "error"}           \* on_computed is a sinking hook: there is no completion to announce

Init == /\ kind \in Kinds
        /\ outcome = IF Born(kind) THEN Natural(kind) ELSE None
        /\ epoch = 0 /\ runs = 0 /\ subs = <<>> /\ notes = <<>> /\ hist = <<>>

Rec(op, arg, res) == [op |-> op, arg |-> arg, res |-> IF (epoch > 0 /\ kind \notin {"fut_ok", "fut_raise"}) /\ op # "reset_unsafe" THEN <<"any">> ELSE res]
\* every subscriber still subscribed is notified; a one-shot subscriber has unsubscribed itself after its first
\* notification, so its count is a lifetime count that stays at 1
NotifyAll == [i \in 1..Len(subs) |-> IF subs[i] = "once" /\ notes[i] >= 1 THEN notes[i] ELSE notes[i] + 1]

(* after reset_unsafe the property prescribes nothing for objects whose computation cannot be repeated
   (a finished generator, a flushed batch): results are "any" from then on *)
Repeatable(k) == k \in {"fut_ok", "fut_raise"}
Loose == epoch > 0 /\ ~Repeatable(kind)

Compute ==          \* value()/error()/call on an uncomputed future runs the computation once and completes it
  /\ outcome' = Natural(kind) /\ runs' = runs + 1 /\ notes' = NotifyAll

Value(op) == /\ Len(hist) < Depth
             /\ IF outcome = None
                THEN /\ Compute
                     /\ hist' = Append(hist, Rec(op, 0, IF Loose THEN <<"any">> ELSE Natural(kind)))
                ELSE /\ UNCHANGED <<outcome, runs, notes>>
                     /\ hist' = Append(hist, Rec(op, 0, IF Loose THEN <<"any">> ELSE outcome))
             /\ UNCHANGED <<kind, epoch, subs>>

Error == /\ Len(hist) < Depth
         /\ IF outcome = None
            THEN /\ Compute
                 \* error() of an uncomputed failing Future may report the error by returning or by raising it
                 /\ hist' = Append(hist, Rec("error", 0, IF Loose THEN <<"any">> ELSE <<"errq">> \o Natural(kind)))
            ELSE /\ UNCHANGED <<outcome, runs, notes>>
                 /\ hist' = Append(hist, Rec("error", 0, IF Loose THEN <<"any">> ELSE <<"errq">> \o outcome))
         /\ UNCHANGED <<kind, epoch, subs>>

IsComputed == /\ Len(hist) < Depth
              /\ hist' = Append(hist, Rec("is_computed", 0, <<"bool", IF outcome = None THEN 0 ELSE 1>>))
              /\ UNCHANGED <<kind, outcome, epoch, runs, subs, notes>>

Set(op, x) == /\ Len(hist) < Depth
              /\ IF outcome = None
                 THEN /\ outcome' = IF op = "set_value" THEN <<"val", x>> ELSE <<"err", x>>
                      /\ notes' = NotifyAll
                      \* completing a suspended task from outside closes its generator; if that cleanup raises, the
                      \* caller may see the exception, but the outcome is set and every subscriber is notified
                      /\ hist' = Append(hist, Rec(op, x, IF kind = "task_susp" THEN <<"any">> ELSE <<"ok">>))
                 ELSE /\ UNCHANGED <<outcome, notes>>
                      /\ hist' = Append(hist, Rec(op, x, <<"already">>))    \* FutureIsAlreadyComputed, nothing changes
              /\ UNCHANGED <<kind, epoch, runs, subs>>

Reset == /\ Len(hist) < Depth
         /\ outcome' = None /\ epoch' = epoch + 1 /\ runs' = 0
         /\ notes' = [i \in 1..Len(subs) |-> IF subs[i] = "once" THEN notes[i] ELSE 0]
         /\ hist' = Append(hist, Rec("reset_unsafe", 0, <<"ok">>))
         /\ UNCHANGED <<kind, subs>>

\* q: "good", "bad" (raises an Exception), "once" (unsubscribes itself when notified - the one-shot idiom)
Subscribe(q) == /\ Len(hist) < Depth /\ Len(subs) < 3
                /\ subs' = Append(subs, q) /\ notes' = Append(notes, 0)
                /\ hist' = Append(hist, Rec("subscribe", IF q = "good" THEN 0 ELSE IF q = "bad" THEN 1 ELSE 2, <<"ok">>))
                /\ UNCHANGED <<kind, outcome, epoch, runs>>

(* what every subscriber has seen so far, compared by the harness after each step *)
Probe == /\ Len(hist) < Depth /\ Len(hist) > 0 /\ hist[Len(hist)].op # "probe"
         /\ hist' = Append(hist, Rec("probe", 0,
                 IF Sinking(kind) THEN <<"notes">> \o [i \in 1..Len(subs) |-> 0]
                 ELSE IF Loose THEN <<"any">> ELSE <<"notes">> \o notes))
         /\ UNCHANGED <<kind, outcome, epoch, runs, subs, notes>>

Next == \/ Value("value") \/ Value("call") \/ Error \/ IsComputed
        \/ \E x \in {1, 2} : Set("set_value", x) \/ Set("set_error", x)
        \/ Reset \/ Subscribe("good") \/ Subscribe("bad") \/ Subscribe("once") \/ Probe
Spec == Init /\ [][Next]_vars

(* ---- the property, on the model ---- *)
SingleAssignment ==      \* the outcome changes only from none, or back to none through reset_unsafe
  [][outcome' # outcome => (outcome = None \/ (outcome' = None /\ epoch' = epoch + 1))]_vars
AtMostOneRun == runs <= 1
NotifiedOncePerCompletion == \A i \in 1..Len(subs) : notes[i] <= 1
NotifiedOnlyWhenComplete == \A i \in 1..Len(subs) : (notes[i] = 1 /\ subs[i] # "once") => outcome # None
AllNotified ==           \* a subscriber present at completion has been notified (also next to a raising one)
  [][(outcome = None /\ outcome' # None) => \A i \in 1..Len(subs) : notes'[i] = 1]_vars
BornComplete == Born(kind) /\ epoch = 0 => outcome # None

Export == (Len(hist) = Depth) => PrintT(ToJson([h |-> hist, kind |-> kind]))
=============================================================================
