---- MODULE DiagGlue_TTrace_1790371765 ----
EXTENDS DiagGlue, Sequences, TLCExt, Toolbox, Naturals, TLC

_expression ==
    LET DiagGlue_TEExpression == INSTANCE DiagGlue_TEExpression
    IN DiagGlue_TEExpression!expression
----

_trace ==
    LET DiagGlue_TETrace == INSTANCE DiagGlue_TETrace
    IN DiagGlue_TETrace!trace
----

_inv ==
    ~(
        TLCGet("level") = Len(_TETrace)
        /\
        phandled = ("caller")
        /\
        creator = ((0 :> -9 @@ 1 :> -9 @@ 1001 :> -9 @@ 1002 :> 1001))
        /\
        lvl = (1)
        /\
        d = (1)
        /\
        outer = (0)
        /\
        active = (1002)
        /\
        sync = (0)
        /\
        mode = (<<>>)
        /\
        exc = ([kind |-> "none", origin |-> 0, tb |-> <<>>])
        /\
        r = (1)
        /\
        pc = ("down")
        /\
        prior = ("resume_raises")
        /\
        probes = (<<>>)
        /\
        style = ("plain")
        /\
        outcome = (<<"pending">>)
    )
----

_init ==
    /\ active = _TETrace[1].active
    /\ outcome = _TETrace[1].outcome
    /\ mode = _TETrace[1].mode
    /\ d = _TETrace[1].d
    /\ r = _TETrace[1].r
    /\ pc = _TETrace[1].pc
    /\ exc = _TETrace[1].exc
    /\ phandled = _TETrace[1].phandled
    /\ outer = _TETrace[1].outer
    /\ probes = _TETrace[1].probes
    /\ prior = _TETrace[1].prior
    /\ creator = _TETrace[1].creator
    /\ lvl = _TETrace[1].lvl
    /\ sync = _TETrace[1].sync
    /\ style = _TETrace[1].style
----

_next ==
    /\ \E i,j \in DOMAIN _TETrace:
        /\ \/ /\ j = i + 1
              /\ i = TLCGet("level")
        /\ active  = _TETrace[i].active
        /\ active' = _TETrace[j].active
        /\ outcome  = _TETrace[i].outcome
        /\ outcome' = _TETrace[j].outcome
        /\ mode  = _TETrace[i].mode
        /\ mode' = _TETrace[j].mode
        /\ d  = _TETrace[i].d
        /\ d' = _TETrace[j].d
        /\ r  = _TETrace[i].r
        /\ r' = _TETrace[j].r
        /\ pc  = _TETrace[i].pc
        /\ pc' = _TETrace[j].pc
        /\ exc  = _TETrace[i].exc
        /\ exc' = _TETrace[j].exc
        /\ phandled  = _TETrace[i].phandled
        /\ phandled' = _TETrace[j].phandled
        /\ outer  = _TETrace[i].outer
        /\ outer' = _TETrace[j].outer
        /\ probes  = _TETrace[i].probes
        /\ probes' = _TETrace[j].probes
        /\ prior  = _TETrace[i].prior
        /\ prior' = _TETrace[j].prior
        /\ creator  = _TETrace[i].creator
        /\ creator' = _TETrace[j].creator
        /\ lvl  = _TETrace[i].lvl
        /\ lvl' = _TETrace[j].lvl
        /\ sync  = _TETrace[i].sync
        /\ sync' = _TETrace[j].sync
        /\ style  = _TETrace[i].style
        /\ style' = _TETrace[j].style

\* Uncomment the ASSUME below to write the states of the error trace
\* to the given file in Json format. Note that you can pass any tuple
\* to `JsonSerialize`. For example, a sub-sequence of _TETrace.
    \* ASSUME
    \*     LET J == INSTANCE Json
    \*         IN J!JsonSerialize("DiagGlue_TTrace_1790371765.json", _TETrace)

=============================================================================

 Note that you can extract this module `DiagGlue_TEExpression`
  to a dedicated file to reuse `expression` (the module in the 
  dedicated `DiagGlue_TEExpression.tla` file takes precedence 
  over the module `DiagGlue_TEExpression` below).

---- MODULE DiagGlue_TEExpression ----
EXTENDS DiagGlue, Sequences, TLCExt, Toolbox, Naturals, TLC

expression == 
    [
        \* To hide variables of the `DiagGlue` spec from the error trace,
        \* remove the variables below.  The trace will be written in the order
        \* of the fields of this record.
        active |-> active
        ,outcome |-> outcome
        ,mode |-> mode
        ,d |-> d
        ,r |-> r
        ,pc |-> pc
        ,exc |-> exc
        ,phandled |-> phandled
        ,outer |-> outer
        ,probes |-> probes
        ,prior |-> prior
        ,creator |-> creator
        ,lvl |-> lvl
        ,sync |-> sync
        ,style |-> style
        
        \* Put additional constant-, state-, and action-level expressions here:
        \* ,_stateNumber |-> _TEPosition
        \* ,_activeUnchanged |-> active = active'
        
        \* Format the `active` variable as Json value.
        \* ,_activeJson |->
        \*     LET J == INSTANCE Json
        \*     IN J!ToJson(active)
        
        \* Lastly, you may build expressions over arbitrary sets of states by
        \* leveraging the _TETrace operator.  For example, this is how to
        \* count the number of times a spec variable changed up to the current
        \* state in the trace.
        \* ,_activeModCount |->
        \*     LET F[s \in DOMAIN _TETrace] ==
        \*         IF s = 1 THEN 0
        \*         ELSE IF _TETrace[s].active # _TETrace[s-1].active
        \*             THEN 1 + F[s-1] ELSE F[s-1]
        \*     IN F[_TEPosition - 1]
    ]

=============================================================================



Parsing and semantic processing can take forever if the trace below is long.
 In this case, it is advised to uncomment the module below to deserialize the
 trace from a generated binary file.

\*
\*---- MODULE DiagGlue_TETrace ----
\*EXTENDS DiagGlue, IOUtils, TLC
\*
\*trace == IODeserialize("DiagGlue_TTrace_1790371765.bin", TRUE)
\*
\*=============================================================================
\*

---- MODULE DiagGlue_TETrace ----
EXTENDS DiagGlue, TLC

trace == 
    <<
    ([phandled |-> "caller",creator |-> (0 :> -9 @@ 1 :> -9 @@ 1001 :> -9 @@ 1002 :> -9),lvl |-> 1,d |-> 1,outer |-> 0,active |-> -9,sync |-> 0,mode |-> <<>>,exc |-> [kind |-> "none", origin |-> 0, tb |-> <<>>],r |-> 1,pc |-> "prior",prior |-> "resume_raises",probes |-> <<>>,style |-> "plain",outcome |-> <<"pending">>]),
    ([phandled |-> "caller",creator |-> (0 :> -9 @@ 1 :> -9 @@ 1001 :> -9 @@ 1002 :> 1001),lvl |-> 1,d |-> 1,outer |-> 0,active |-> -9,sync |-> 0,mode |-> <<>>,exc |-> [kind |-> "none", origin |-> 0, tb |-> <<>>],r |-> 1,pc |-> "prior_flush",prior |-> "resume_raises",probes |-> <<>>,style |-> "plain",outcome |-> <<"pending">>]),
    ([phandled |-> "caller",creator |-> (0 :> -9 @@ 1 :> -9 @@ 1001 :> -9 @@ 1002 :> 1001),lvl |-> 1,d |-> 1,outer |-> 0,active |-> 1001,sync |-> 0,mode |-> <<>>,exc |-> [kind |-> "none", origin |-> 0, tb |-> <<>>],r |-> 1,pc |-> "prior_up",prior |-> "resume_raises",probes |-> <<>>,style |-> "plain",outcome |-> <<"pending">>]),
    ([phandled |-> "caller",creator |-> (0 :> -9 @@ 1 :> -9 @@ 1001 :> -9 @@ 1002 :> 1001),lvl |-> 1,d |-> 1,outer |-> 0,active |-> 1002,sync |-> 0,mode |-> <<>>,exc |-> [kind |-> "none", origin |-> 0, tb |-> <<>>],r |-> 1,pc |-> "down",prior |-> "resume_raises",probes |-> <<>>,style |-> "plain",outcome |-> <<"pending">>])
    >>
----


=============================================================================

---- CONFIG DiagGlue_TTrace_1790371765 ----

INVARIANT
    _inv

CHECK_DEADLOCK
    \* CHECK_DEADLOCK off because of PROPERTY or INVARIANT above.
    FALSE

INIT
    _init

NEXT
    _next

CONSTANT
    _TETrace <- _trace

ALIAS
    _expression
=============================================================================
\* Generated on Fri Sep 25 21:29:27 UTC 2026