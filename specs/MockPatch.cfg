SPECIFICATION Spec
CHECK_DEADLOCK FALSE
INVARIANT Restored
INVARIANT Innermost
INVARIANT SavedChain
INVARIANT ConventionsAgree
INVARIANT OriginalIffRestored
INVARIANT NonCallableAsIs
INVARIANT Export
PROPERTY ReactivationReplaces
