SPECIFICATION Spec
CHECK_DEADLOCK FALSE
INVARIANT Restored
INVARIANT Innermost
INVARIANT SavedChain
INVARIANT ConventionsAgree
INVARIANT NonCallableAsIs
INVARIANT Export
PROPERTY RestoreStep
