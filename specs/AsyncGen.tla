------------------------------ MODULE AsyncGen ------------------------------
(* C17 - async generators deliver their Values in order, and only those.

   One generator per behaviour.  Its BODY is chosen in Init: a sequence over
       "A"  an awaited future            (yield some_async_fn.asynq())
       "V"  a Value with a distinct payload   (yield Value(x))
       "G"  a nested async generator with k Values consumed the documented way
                for task in inner(): v = yield task; if v is END_OF_GENERATOR: continue; yield Value(v)
   and flattened to F, a sequence of  A | V(x) | g  (g = the await of one inner task).  One action per
   public operation; the result the property PRESCRIBES is recorded in hist, so every reachable state is
   one operation history.  TLC enumerates all bodies x all histories up to Depth; each is replayed into a
   real @async_generator() (harness/check_c17.py) and compared result by result.

   What the property fixes and what it leaves open:
     * next() while the previously returned future is not computed -> RuntimeError, nothing advances   [runtime]
       "not computed" includes STARTED: the operation "start" lets the future run until the body's await blocks on a
       batch item; next() issued then (by a sibling task, while the future is suspended) is refused all the same,
       and what compute and the later operations deliver is unchanged
     * next() of an exhausted generator -> StopIteration, for ever                                       [stop]
     * while a Value is still ahead, next() returns a future whose value is that Value                   [fut / val]
     * when NO Value is ahead the property only says that nothing but END_OF_GENERATOR (to be ignored)
       may still come: next() may raise StopIteration at once or return a future whose value is the
       marker.  Result token "tail"; until that future is computed the model does not know which of the
       two happened, the tokens "tailnext"/"tailend" say what is allowed given what was observed
       (see harness/replay_c17.py), consumers are "any".
     * list_of_generator = all remaining Values; take_first(n) = the first n remaining Values ([] for
       n = 0) and the body has not run beyond the step that produced the last of them: p is the greatest
       allowed reading of the body's step counter.  The marker is in no result.
   Awaits inside the body are not prescribed beyond that (what an await returns to the body is C01's business). *)
EXTENDS Naturals, Sequences, FiniteSets, SequencesExt, TLC, Json, IOUtils

EnvInt(name, dflt) == IF name \in DOMAIN IOEnv THEN atoi(IOEnv[name]) ELSE dflt
Depth   == EnvInt("DEPTH", 4)      \* operations per history
MaxLen  == EnvInt("MAXLEN", 4)     \* flat bodies: all of {A,V}^(<= MaxLen)
MaxLenG == EnvInt("MAXLENG", 3)    \* bodies with one nested generator: length <= MaxLenG
MaxK    == EnvInt("MAXK", 2)       \* Values of the nested generator: 0..MaxK
TakeMax == EnvInt("TAKEMAX", 6)    \* take_first(gen, n) for n in 0..TakeMax
MaxCons == EnvInt("MAXCONS", 2)    \* consumer calls per history (take_first twice on one generator)
DepthK  == EnvInt("DEPTHK", 2)     \* operations per history when the Values carry something else than distinct ints
Extra   == EnvInt("EXTRA", 2)      \* histories that contain "start" go on for Extra more operations (what is delivered afterwards)

FlatBodies == UNION {[1..n -> {"A", "V"}] : n \in 0..MaxLen}
(* the nested generator is never directly followed by a Value: whether an inner generator announces its
   end with a marker task or by StopIteration would otherwise decide whether the future returned for that
   Value is born computed - the property does not say *)
NestedBodies == {b \in UNION {[1..n -> {"A", "V", "G"}] : n \in 1..MaxLenG} :
                    /\ Cardinality({i \in 1..Len(b) : b[i] = "G"}) = 1
                    /\ \A i \in 1..Len(b) - 1 : b[i] = "G" => b[i + 1] # "V"}

El(e, v) == [e |-> e, v |-> v]
Flat(b, k) == FlattenSeq([i \in 1..Len(b) |->
                 IF b[i] = "A" THEN <<El("A", 0)>>
                 ELSE IF b[i] = "V" THEN <<El("V", i)>>
                 ELSE FlattenSeq([m \in 1..k |-> <<El("g", 0), El("V", 10 + m)>>])])

(* what Value(...) carries.  The property speaks of "the Values", not of what they are: the same results are prescribed
   for every kind, identified by the object handed back (the replay compares by identity):
     int     distinct plain ints                  none    None, every time
     anyeq   objects whose __eq__ answers True to anything (like unittest.mock.ANY)
     badeq   objects whose __eq__ raises, or returns something that has no truth value (array-like)
     same    one and the same object, yielded every time
     marker  other MarkerObjects that look like END_OF_GENERATOR
   With none/same all payloads are one object, so the recorded results carry 0 for each of them. *)
Kinds == {"int", "none", "anyeq", "badeq", "same", "marker"}

VARIABLES kind, body, k, pos, lastc, started, target, lastv, stopped, tail, ncons, delivered, hist
vars == <<kind, body, k, pos, lastc, started, target, lastv, stopped, tail, ncons, delivered, hist>>
(* pos     = number of elements of F the body has passed (Len(F)+1: the body has returned)
   lastc   = the future last returned by next() is computed (TRUE when there is none)
   started = that future is not computed but has STARTED: a scheduler began to run it and it is suspended in the
             body's await, which blocks on a batch item (in the histories that use "start" every A awaits a batch
             item); sibling tasks run meanwhile.  "Not computed" covers both not started and started.
   target  = where the body will stand once that future is computed
   lastv   = what that future evaluates to
   tail    = a next() was issued with no Value ahead and its outcome has not been resolved by compute
   delivered = payloads handed to the caller so far *)

HasStart == \E i \in 1..Len(hist) : hist[i].op = "start"
DepthOf == IF kind = "int" THEN Depth ELSE DepthK
Bound == IF HasStart THEN DepthOf + Extra ELSE DepthOf
Pay(v) == IF kind \in {"none", "same"} THEN 0 ELSE v

F == Flat(body, k)
L == Len(F)
IsV(j) == F[j].e = "V"
Ahead(p) == {j \in p + 1..L : IsV(j)}
NextV(p) == IF Ahead(p) = {} THEN 0 ELSE CHOOSE j \in Ahead(p) : \A i \in Ahead(p) : j <= i
ValuesIn(a, b) == LET idx == SetToSortSeq({j \in a..b : j <= L /\ IsV(j)}, <) IN [i \in 1..Len(idx) |-> F[idx[i]].v]
ValuesFrom(p) == ValuesIn(p + 1, L)
AllValues == ValuesIn(1, L)
NthV(p, n) == SetToSortSeq(Ahead(p), <)[n]
(* the body increments a counter before every A, before every Value it yields, and when it returns *)
Cnt(p) == Cardinality({j \in 1..L : j <= p /\ F[j].e \in {"A", "V"}}) + (IF p = L + 1 THEN 1 ELSE 0)

R(kd, vs, p) == [k |-> kd, vs |-> vs, p |-> p]
Tok(kd) == R(kd, <<>>, 0)
NoFut == Tok("none")
Rec(op, n, res) == [op |-> op, n |-> n, res |-> [res EXCEPT !.vs = [i \in 1..Len(res.vs) |-> Pay(res.vs[i])]]]

Init == /\ kind \in Kinds
        /\ \/ body \in FlatBodies /\ k = 0
           \/ body \in NestedBodies /\ k \in 0..MaxK
        /\ pos = 0 /\ lastc = TRUE /\ started = FALSE /\ target = 0 /\ lastv = NoFut
        /\ stopped = FALSE /\ tail = FALSE /\ ncons = 0 /\ delivered = <<>> /\ hist = <<>>

Same(xs) == UNCHANGED xs

OpNext ==
  /\ Len(hist) < Bound
  /\ UNCHANGED <<kind, body, k, ncons, started>>
  /\ IF tail THEN
        /\ hist' = Append(hist, Rec("next", 0, Tok("tailnext")))
        /\ Same(<<pos, lastc, target, lastv, stopped, tail, delivered>>)
     ELSE IF ~lastc THEN
        /\ hist' = Append(hist, Rec("next", 0, Tok("runtime")))
        /\ Same(<<pos, lastc, target, lastv, stopped, tail, delivered>>)
     ELSE IF stopped THEN
        /\ hist' = Append(hist, Rec("next", 0, Tok("stop")))
        /\ Same(<<pos, lastc, target, lastv, stopped, tail, delivered>>)
     ELSE IF NextV(pos) = pos + 1 THEN       \* a Value comes at once: the future is born computed
        /\ hist' = Append(hist, Rec("next", 0, Tok("fut")))
        /\ pos' = pos + 1 /\ target' = pos + 1 /\ lastv' = R("val", <<F[pos + 1].v>>, 0)
        /\ delivered' = Append(delivered, F[pos + 1].v)
        /\ Same(<<lastc, stopped, tail>>)
     ELSE IF NextV(pos) # 0 THEN             \* awaits first: the body stands at its first await until computed
        /\ hist' = Append(hist, Rec("next", 0, Tok("fut")))
        /\ pos' = pos + 1 /\ target' = NextV(pos) /\ lastv' = R("val", <<F[NextV(pos)].v>>, 0)
        /\ lastc' = FALSE
        /\ Same(<<stopped, tail, delivered>>)
     ELSE                                    \* no Value ahead
        /\ hist' = Append(hist, Rec("next", 0, Tok("tail")))
        /\ tail' = TRUE
        /\ Same(<<pos, lastc, target, lastv, stopped, delivered>>)

OpCompute ==      \* .value() of the future last returned by next()
  /\ Len(hist) < Bound
  /\ lastv # NoFut \/ tail
  /\ UNCHANGED <<kind, body, k, ncons>>
  /\ started' = FALSE
  /\ IF tail THEN
        /\ hist' = Append(hist, Rec("compute", 0, Tok("tailend")))
        /\ pos' = L + 1 /\ stopped' = TRUE /\ tail' = FALSE /\ lastc' = TRUE /\ lastv' = Tok("any")
        /\ Same(<<target, delivered>>)
     ELSE IF ~lastc THEN
        /\ hist' = Append(hist, Rec("compute", 0, lastv))
        /\ pos' = target /\ lastc' = TRUE /\ delivered' = delivered \o lastv.vs
        /\ Same(<<target, lastv, stopped, tail>>)
     ELSE
        /\ hist' = Append(hist, Rec("compute", 0, lastv))
        /\ Same(<<pos, lastc, target, lastv, stopped, tail, delivered>>)

(* consumers: op = "list" takes everything, op = "take" the first n *)
Consume(op, n) ==
  /\ Len(hist) < Bound /\ ncons < MaxCons
  /\ ~started            \* while the future is suspended only siblings run: they call next(); compute lets it finish
  /\ ncons' = ncons + 1
  /\ UNCHANGED <<kind, body, k, target, lastv, lastc, started>>
  /\ IF op = "take" /\ n = 0 THEN          \* nothing is needed: nothing advances, whatever the state
        /\ hist' = Append(hist, Rec(op, n, R("lst", <<>>, IF tail THEN Cnt(L + 1) ELSE Cnt(pos))))
        /\ Same(<<pos, stopped, tail, delivered>>)
     ELSE IF tail THEN
        /\ hist' = Append(hist, Rec(op, n, Tok("any")))
        /\ Same(<<pos, stopped, tail, delivered>>)
     ELSE IF ~lastc THEN
        /\ hist' = Append(hist, Rec(op, n, Tok("runtime")))
        /\ Same(<<pos, stopped, tail, delivered>>)
     ELSE LET vs == IF stopped THEN <<>> ELSE ValuesFrom(pos) IN
          IF op = "take" /\ n <= Len(vs) THEN
             /\ hist' = Append(hist, Rec(op, n, R("lst", SubSeq(vs, 1, n), Cnt(NthV(pos, n)))))
             /\ pos' = NthV(pos, n) /\ delivered' = delivered \o SubSeq(vs, 1, n)
             /\ Same(<<stopped, tail>>)
          ELSE
             /\ hist' = Append(hist, Rec(op, n, R("lst", vs, Cnt(L + 1))))
             /\ pos' = L + 1 /\ stopped' = TRUE /\ delivered' = delivered \o vs
             /\ Same(<<tail>>)

(* the future returned last begins to run (its awaiter yields it together with a sibling task): it gets as far as the
   body's pending await, which blocks on a batch item, and stays suspended there until compute.  Nothing observable
   changes; what matters is that next() issued by the sibling in this state is still "before the previously returned
   task is computed". *)
OpStart ==
  /\ Len(hist) < DepthOf /\ kind = "int"        \* what the Values carry plays no part in this
  /\ ~lastc /\ ~started /\ ~tail /\ F[pos].e = "A"
  /\ started' = TRUE
  /\ hist' = Append(hist, Rec("start", 0, Tok("ok")))
  /\ UNCHANGED <<kind, body, k, pos, lastc, target, lastv, stopped, tail, ncons, delivered>>

Next == OpNext \/ OpStart \/ OpCompute \/ Consume("list", 0) \/ \E n \in 0..TakeMax : Consume("take", n)
Spec == Init /\ [][Next]_vars

(* ---- the property, on the model ---- *)
Stepped == hist' # hist
InOrder == delivered = ValuesIn(1, pos)                         \* exactly the Values passed, in program order
NothingLost == stopped => delivered = AllValues
OnlyValues == \A i \in 1..Len(hist) : \A j \in 1..Len(hist[i].res.vs) : hist[i].res.vs[j] \in {Pay(x) : x \in Range(AllValues)}
TakeNoMore ==      \* take_first(n) hands out at most n Values and leaves the body at the last one it handed out
  [][Stepped /\ Last(hist').op = "take" /\ Last(hist').res.k = "lst" =>
        /\ Len(delivered') - Len(delivered) <= Last(hist').n
        /\ \/ pos' = pos
           \/ pos' <= L /\ IsV(pos') /\ Len(delivered') - Len(delivered) = Last(hist').n
           \/ pos' = L + 1 /\ Len(delivered') - Len(delivered) < Last(hist').n]_vars
StopForEver == [][stopped => stopped' /\ (Stepped /\ Last(hist').op = "next" => Last(hist').res.k = "stop")]_vars
StartedIsUncomputed == started => ~lastc /\ ~tail /\ ~stopped
EarlyAdvance ==    \* advancing before the previous future is computed raises RuntimeError and moves nothing
  [][~lastc /\ Stepped /\ Last(hist').op \notin {"compute", "start"} /\ ~(Last(hist').op = "take" /\ Last(hist').n = 0) =>
        Last(hist').res.k = "runtime" /\ pos' = pos /\ delivered' = delivered]_vars

Export == (Len(hist) = Bound) => PrintT(ToJson([kind |-> kind, body |-> body, k |-> k, h |-> hist]))
=============================================================================
