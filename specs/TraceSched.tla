----------------------------- MODULE TraceSched -----------------------------
(* Trace validation against the implementation-shaped specification itself: the actions of Sched are
   re-used unchanged and constrained by the events recorded from the real code (Prio events, whose
   order is set-iteration order, are left out on both sides).  TLC infers the only thing that is not
   logged - which of the equal-priority batches was taken - from the events that follow.

   This is the DRIFT detector: a trace that Sched cannot reproduce means the code no longer behaves as
   the model says.  It is never a property verdict by itself (see DESIGN.md, verdict policy). *)
EXTENDS Sched

VARIABLES l, drift
tvars == <<pid, m, frames, obs, bad, l, drift>>

Tr == Entries[pid].events

TInit == Init /\ l = 1 /\ drift = 0

NoPrio(evs) == SelectSeq(evs, LAMBDA e : e.e # "Prio")
\* the number of batches still registered in the scheduler at the end of a call is an observation, not behaviour
Norm(e) == IF e.e = "CallEnd" THEN [e EXCEPT !.b = 0] ELSE e

TNext == /\ frames # <<>>
         /\ drift = 0
         /\ \E choice \in TieChoices(m, frames) :
              LET r == StepM(m, frames, choice)
                  evs == NoPrio(r.M.evs)
                  n == Len(evs)
                  mism == {i \in 1..n : l + i - 1 > Len(Tr) \/ Norm(Tr[l + i - 1]) # Norm(evs[i])}
                  ok == mism = {}
                  first == IF ok THEN 0 ELSE CHOOSE i \in mism : \A j \in mism : i <= j
              IN /\ m' = [r.M EXCEPT !.evs = <<>>]
                 /\ frames' = IF ok THEN r.F ELSE <<>>
                 /\ l' = IF ok THEN l + n ELSE l + first - 1
                 /\ drift' = IF ok THEN 0 ELSE 1
                 /\ IF ok THEN TRUE
                    ELSE PrintT(ToJson([tdrift |-> Entries[pid].id, at |-> l + first - 1, exp |-> evs[first],
                                        got |-> IF l + first - 1 <= Len(Tr) THEN Tr[l + first - 1] ELSE [e |-> "END"]]))
         /\ UNCHANGED <<pid, obs, bad>>

TDone == /\ frames = <<>> /\ drift = 0
         /\ PrintT(ToJson([tdone |-> Entries[pid].id, l |-> l, n |-> Len(Tr)]))
         /\ drift' = 2
         /\ UNCHANGED <<pid, m, frames, obs, bad, l>>

TSpec == TInit /\ [][TNext \/ TDone]_tvars
=============================================================================
