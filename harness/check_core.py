"""Checks for the scheduler-core properties C01-C08 (and the clauses of C10/C11 observable in core traces).

    check_core.py <ID> [--tier quick|thorough] [--replay FILE]

Loop (DESIGN.md 3.3): (A) TLC model-checks Sched.tla on program families x all tie-break schedules with every
clause as an invariant; (B) every behaviour TLC explored is replayed, steered, into scratch builds of the
real code; (C) the recorded traces (plus larger seeded-random programs under random tie-breaks, plus families
the model does not cover) are validated by TLC against the monitor TraceObs.tla => verdict, and against
Sched.tla itself (TraceSched) => drift report.
"""
import argparse
import collections
import json
import os
import sys
import time

sys.path.insert(0, os.path.dirname(os.path.abspath(__file__)))
import common
import pipeline
import plang
from common import MachineryError, Scratch, Verdict

# per property: clause prefix(es), model families [(profile, n_quick, n_thorough)], monitor-only families, builds
CONF = {
    "C01": dict(prefixes=("C01.",), builds=("pure", "cy"),
                model=[("plain", 150, 1500), ("dag", 120, 1500), ("kinds3", 80, 1200), ("sync", 120, 1500),
                       ("ctx", 60, 600), ("faults", 100, 1200), ("everything", 120, 2000), ("lazyfail", 60, 600), ("ival", 80, 1000),
                       ("again", 150, 1500), ("nonasync", 80, 800), ("batchleaf", 100, 1000), ("basefaults", 100, 1000)],
                monitor_only=[("cleanup", 250, 2500), ("nestself", 150, 1500)],
                big=[("big", 25, 400), ("everything", 100, 2000)], enum=True),
    "C02": dict(prefixes=("C02.",), builds=("pure",),
                model=[("faults", 500, 5000), ("lazyfail", 250, 2500), ("syncfaults", 250, 3000), ("ctxfaults", 200, 2000), ("basefaults", 300, 3000),
                       ("everything", 200, 3000), ("cancel", 250, 2500), ("flushfaults", 150, 1500)],
                big=[("faults", 400, 5000)]),
    "C03": dict(prefixes=("C03.",), builds=("pure",),
                model=[("plain", 300, 3000), ("dag", 400, 4000), ("spawn", 200, 2000), ("sync", 250, 2500), ("ival", 200, 2000), ("spawnsync", 200, 2000), ("again", 250, 2500),
                       ("faults", 150, 2000), ("everything", 150, 2000), ("basefaults", 150, 1500)],
                big=[("big", 60, 800), ("dag", 300, 3000)], deep=True, liveness=True),
    "C04": dict(prefixes=("C04.",), builds=("pure",),
                model=[("plain", 400, 4000), ("dag", 300, 3000), ("kinds3", 300, 3000), ("faults", 200, 2500), ("ctx", 150, 1500), ("again", 200, 2000), ("flushfaults", 200, 2000)],
                monitor_only=[("helpers", 500, 5000)],
                big=[("big", 80, 1000), ("kinds3", 300, 3000)], enum=True),
    "C05": dict(prefixes=("C05.",), builds=("pure",),
                model=[("kinds3", 500, 5000), ("faults", 300, 3000), ("sync", 250, 2500), ("spawn", 200, 2000),
                       ("syncfaults", 150, 2000), ("throw", 250, 2500), ("ival", 300, 3000), ("overflowbatch", 250, 2500), ("cancel", 300, 3000), ("batchleaf", 250, 2500)],
                monitor_only=[("nestflush", 500, 5000), ("nestself", 300, 3000)],
                big=[("kinds3", 400, 4000), ("big", 40, 600)], enum=True),
    "C06": dict(prefixes=("C06.",), builds=("pure",),
                model=[("ctx", 400, 4000), ("ctxsync", 300, 3000), ("ctxfaults", 300, 3000), ("nonasync", 300, 3000), ("nonasyncfaults", 400, 4000), ("kill", 400, 4000),
                       ("override", 150, 1500), ("overridenonasync", 150, 1500), ("ctxnonlifo", 250, 2500), ("timer", 250, 2500), ("timersync", 150, 1500), ("timerfaults", 150, 1500)],
                monitor_only=[("faultyexit", 300, 3000)],
                big=[("ctxsync", 300, 3000), ("nonasync", 200, 2000)]),
    "C07": dict(prefixes=("C07.",), builds=("pure",),
                model=[("override", 400, 5000), ("overridesync", 300, 3500), ("overridefaults", 300, 3500), ("ctx", 100, 1500),
                       ("overridedag", 500, 5000), ("overrideset", 400, 4000), ("overrideapi", 300, 3000), ("overridenonasync", 250, 2500)],
                monitor_only=[("overridefaulty", 300, 3000)],
                big=[("overridesync", 300, 3000), ("overridefaults", 300, 3000)]),
    "C08": dict(prefixes=("C08.",), builds=("pure",),
                model=[("session", 400, 4000), ("syncfaults", 200, 2500), ("overflow", 300, 3000), ("overflowbatch", 400, 4000), ("sync", 150, 1500), ("throw", 250, 2500), ("spawnsync", 300, 3000), ("lazyfail", 150, 1500),
                       ("cancelsession", 300, 3000)],
                monitor_only=[("sessionfaulty", 400, 4000), ("faultyctx", 250, 2500), ("faultysync", 250, 2500), ("faultyalways", 400, 4000), ("faultyexit", 200, 2000)],
                big=[("session", 300, 3000)], fresh=True),
    "C12": dict(prefixes=("C12.",), builds=("pure",),
                model=[("dedup", 400, 2500), ("dedupdirty", 500, 3500), ("dedupsync", 250, 1500), ("dedupself", 500, 2500),
                       ("dedupcatch", 300, 2500), ("dedupvar", 250, 2000)],
                big=[("dedupdirty", 500, 2500)]),
}


# debug options under which a third of every family is run as well (natural schedule)
OPTION_SETS = [{"KEEP_DEPENDENCIES": True}, {"ENABLE_COMPLEX_ASSERTIONS": False},
               {"KEEP_DEPENDENCIES": True, "COLLECT_PERF_STATS": True}, {"DUMP_NEW_TASKS": True, "DUMP_SCHEDULE_BATCH": True, "DUMP_FLUSH_BATCH": True}]


def features(prog):
    s = json.dumps(prog)
    f = []
    for tag, key in (("sync", '"o": "sync"'), ("ctx", '"o": "enter"'), ("nonasync", '"type": "nonasync"'),
                     ("faultyctx", '"faulty": "pause"'), ("faultyctx", '"faulty": "resume"'), ("lazyfail", '"g": "LF"'),
                     ("bad", '"g": "Bad"'), ("raise", '"k": "raise"'), ("catch", '"catch": true'), ("maxstack", '"maxstack"')):
        if key in s and tag not in f:
            f.append(tag)
    if len(prog["calls"]) > 1:
        f.append("session")
    if any(k["flush"] != "ok" for k in prog["kinds"]):
        f.append("flushfault")
    return "+".join(f) or "plain"


def nontrivial(pid, ev):
    """Is this trace a non-trivial case for property pid?  (rule strings in RULES)"""
    names = [e["e"] for e in ev]
    if pid == "C01":
        return sum(1 for e in ev if e["e"] == "SegBegin" and e["k"] > 1) >= 2
    if pid == "C02":
        return any(e["e"] == "SegBegin" and e["v"]["g"] == "x" for e in ev)
    if pid == "C03":
        return sum(1 for e in ev if e["e"] == "SegBegin" and e["k"] > 1) >= 2 and names.count("Create") >= 3
    if pid == "C04":
        return any(e["e"] == "FlushBegin" and len(e["xs"]) >= 2 for e in ev) and names.count("Before") >= 1
    if pid == "C05":
        # two batches asked for their priority in one selection round
        run = 0
        for n in names:
            run = run + 1 if n == "Prio" else 0
            if run >= 2:
                return True
        return False
    if pid == "C06":
        # some context paused by suspension (a Pause not directly preceded by its Exit)
        for i, e in enumerate(ev):
            if e["e"] == "Pause" and not (i > 0 and ev[i - 1]["e"] == "Exit" and ev[i - 1]["a"] == e["a"]):
                return True
        return False
    if pid == "C07":
        return any(e["e"] == "Read" and e["v"]["n"] != 0 for e in ev) or \
            (names.count("Resume") >= 3 and any(e["e"] == "Read" for e in ev))
    if pid == "C08":
        return names.count("CallEnd") >= 2 or "SyncEnd" in names
    if pid == "C12":
        return any(e["e"] == "DedupCall" and e["a"] != e["b"] for e in ev) or \
            (names.count("DedupCall") >= 2 and "Dirty" in names)
    return True


RULES = {
    "C01": "program run to completion under one tie-break schedule; non-trivial = at least two task resumptions with a received value",
    "C02": "non-trivial = some task had an exception delivered at a yield",
    "C03": "non-trivial = >= 3 tasks created and >= 2 resumptions after a yield",
    "C04": "non-trivial = some scheduler flush carried >= 2 items",
    "C05": "non-trivial = some selection round compared >= 2 pending batches",
    "C06": "non-trivial = some context was paused by suspension of its task (not by leaving the block)",
    "C07": "non-trivial = a scoped read returned an overridden value, or >= 3 resumes with a read",
    "C08": "non-trivial = a session of >= 2 computations on one scheduler, or a nested synchronous call",
    "C12": "non-trivial = some call was handed an in-flight task of another call site, or >= 2 calls with a dirty() in the history",
}


def sample_traces(traces, n=2, maxev=30):
    out = []
    for t in traces[:n]:
        out.append({"program": t["prog"], "events_head": t["events"][:maxev], "n_events": len(t["events"])})
    return out


def solo_of(prog, ix):
    p = dict(prog)
    p["calls"] = [prog["calls"][ix]]
    return p


def _map_leaves(s, bmap):
    if s.get("xs"):
        return {"g": s["g"], "n": s["n"], "xs": [_map_leaves(x, bmap) for x in s["xs"]]}
    if s["g"] == "F" and s["n"] in bmap:
        return {"g": "F", "n": bmap[s["n"]], "xs": []}
    return s


def normalise_subtrace(ev):
    """events of one computation of a session, with batch ids and exception uids renumbered from scratch"""
    bmap, umap, bcount = {}, {}, {}
    out = []
    for e in ev:
        e = dict(e)
        if e["e"] == "NewBatch":
            k = e["a"]
            bcount[k] = bcount.get(k, 0) + 1
            bmap[e["b"]] = k * 1000 + bcount[k]
        if "b" in e and e["e"] in ("NewBatch", "NewItem", "Before", "After", "FlushBegin", "FlushEnd", "BatchDone", "Prio", "CancelBegin"):
            e["b"] = bmap.get(e["b"], e["b"])
        if e["e"] == "Done" and e["a"] in bmap:          # a batch is a future too
            e["a"] = bmap[e["a"]]
        if e["e"] == "SegEnd" and "s" in e:
            e["s"] = _map_leaves(e["s"], bmap)
        if e["e"] == "SegBegin" and e.get("xs"):
            e["xs"] = [bmap.get(x, x) for x in e["xs"]]
        if e.get("u"):
            if e["u"] not in umap:
                umap[e["u"]] = len(umap) + 1
            e["u"] = umap[e["u"]]
        if e["e"] == "CallEnd":
            e["b"] = 0   # number of batches left in the scheduler: observation only
        out.append(e)
    return out


def split_calls(ev):
    parts, cur = [], None
    for e in ev:
        if e["e"] == "CallBegin":
            cur = []
        if cur is not None:
            cur.append(e)
        if e["e"] == "CallEnd" and cur is not None:
            parts.append(cur)
            cur = None
    return parts


def main():
    ap = argparse.ArgumentParser()
    ap.add_argument("pid")
    ap.add_argument("--tier", default=None)
    ap.add_argument("--replay", default=None)
    a = ap.parse_args()
    pid = a.pid
    tier = a.tier or common.tier()
    os.environ["VERIF_TIER"] = tier
    if pid == "C08":
        os.environ["VERIF_HANDOVER"] = "1"      # realize.py: scheduler hand-over before the first value() call (C08 only)
    conf = CONF[pid]
    seed = common.seed()
    t0 = time.time()
    ti = 1 if tier == "quick" else 2
    verdict = Verdict(pid)
    cov = collections.OrderedDict()
    with Scratch("core-" + pid) as sc:
        if a.replay:
            return replay(a.replay, pid, sc)
        builds = {}
        for b in conf["builds"]:
            if b == "cy" and tier == "quick" and os.environ.get("VERIF_SKIP_CY") == "1":
                continue
            builds[b] = sc.build(b)

        # ---- (A) model checking of Sched.tla over the families, with behaviour export -------------------
        fam = []
        for prof, *ns in conf["model"]:
            fam += [(prof, p) for p in plang.sample(prof, seed, ns[ti - 1])]
        if conf.get("enum"):
            if tier == "quick":
                en = plang.enum_trees(2, 2, 2, ("ok",), ((0, 0),)) + plang.enum_trees(3, 1, 2, ("ok",), ((1, 0),))
                if pid == "C01":
                    en = en[::2]          # C01 replays on two builds: every second program of the complete family (the rest in thorough)
                desc = "all tree programs with <=2 tasks x <=2 yields x <=2 leaves, and <=3 tasks x 1 yield, 2 kinds"
            else:
                bs = ((0, 0), (1, 0), (0, 1))
                en = plang.enum_trees(2, 2, 2, ("ok",), bs) + plang.enum_trees(3, 2, 2, ("ok",), bs, child_nseg=1) + \
                    plang.enum_trees(4, 1, 2, ("ok",), bs)
                desc = "all tree programs with <=2 tasks x <=2 yields, <=3 tasks (children 1 yield), <=4 tasks x 1 yield; <=2 leaves/yield, 2 kinds, 3 priority assignments"
            if pid == "C01":
                em = plang.enum_empties()
                en = en + em
                desc += "; %d programs yielding future-free structures ({}, [], (), None, containers of them) twice in siblings and root" % len(em)
            fam += [("enum", p) for p in en]
            cov["enumerated_family"] = "%s: %d programs, every one model-checked under all schedules and replayed" % (desc, len(en))
        if pid == "C03":
            depths = (20, 60) if tier == "quick" else (30, 45, 60)     # values nest with depth; the JSON reader stops at 255 levels
            ch = [plang.chain(d, v) for d in depths for v in ("plain", "list", "batch")]
            fam += [("chain", p) for p in ch]
            cov["chain_programs_validated_by_tlc"] = "chains of depth %s (plain / through lists / batch at the bottom): model-checked and their real traces validated" % (depths,)
        if pid in ("C08", "C05"):
            en = plang.enum_overflow()
            fam += [("enum_overflow", p) for p in en]
            cov["enumerated_family"] = "runaway recursion with 1-3 readers blocked on a pending batch, then a second computation: %d programs, all schedules" % len(en)
        if pid == "C12":
            if tier == "quick":
                en = plang.enum_dedup(3, (1,), 2) + plang.enum_dedup(3, (2,), 2, bind="inst1", key=2, spell0=2) + \
                    plang.enum_dedup(2, (1, 2), 2, body_kind=2, catching=True) + plang.enum_dedup(2, (1,), 2, fn=11) + \
                    plang.enum_dedup(2, (1,), 2, fn=11, bind="inst1", spell0=1)
            else:
                en = plang.enum_dedup(3, (1, 2), 2) + plang.enum_dedup(2, (1, 2), 3) + plang.enum_dedup(3, (2,), 2, bind="inst1", key=2, spell0=2) + \
                    plang.enum_dedup(3, (1,), 2, bind="inst2", key=2, spell0=5) + plang.enum_dedup(3, (1,), 2, bind="static") + \
                    plang.enum_dedup(3, (1, 2), 2, body_kind=2, catching=True) + plang.enum_dedup(2, (1, 2), 2, body_kind=2) + \
                    plang.enum_dedup(2, (2,), 2, catching=True) + plang.enum_dedup(3, (1,), 2, fn=11) + \
                    plang.enum_dedup(2, (1, 2), 2, fn=11, bind="inst1", spell0=1) + plang.enum_dedup(2, (1,), 2, fn=11, bind="static")
            fam += [("enum_dedup", p) for p in en]
            cov["enumerated_family"] = "root yields [D, actor..]; every actor sequence over {wait, call, dirty+call}: %d programs, all schedules" % len(en)
        if pid == "C07":
            en = plang.enum_shared_override()
            fam += [("enum_shared_override", p) for p in en]
            cov["enumerated_family"] = "a task with its own override awaited by two overriding parents, one flush round apart or not: %d programs, all schedules" % len(en)
        progs = [p for _, p in fam]
        mc = pipeline.model_check(progs, sc, cfg="SchedExport.cfg", chunk=4000, timeout=3000, coverage=False, clauses=conf["prefixes"][0])
        cov["states"] = mc["states"]
        cov["transitions"] = mc["generated"]
        cov["model_programs"] = len(progs)
        cov["model_behaviours"] = len(mc["behaviours"])
        cov["model_invariants"] = ["NoClauseViolated", "NeverStuck", "CleanAtEnd", "FramesBounded"]
        cov["model_ok"] = mc["ok"]
        model_alarm = None
        if not mc["ok"]:
            model_alarm = "TLC refuted %s on Sched.tla" % ",".join(sorted(set(mc["violated"])))
            cov["model_alarm"] = model_alarm
            cov["model_alarm_tail"] = mc["out"][-1500:]
        if conf.get("liveness"):
            lv = plang.sample("plain", seed, 60) + plang.sample("dag", seed, 60) + plang.sample("sync", seed, 40)
            d = sc.mkdir("family")
            path = os.path.join(d, "live.json")
            pipeline.write_family(path, lv)
            res = common.run_tlc("Sched", "SchedLive.cfg", sc, env={"PROGS": path}, timeout=1500)
            if res.timed_out:
                raise MachineryError("liveness run timed out")
            cov["liveness_programs"] = len(lv)
            cov["liveness_states"] = res.distinct
            cov["liveness_ok"] = res.ok
            if not res.ok:
                if "Temporal properties were violated" in res.out or "violated" in res.out:
                    model_alarm = (model_alarm or "") + " liveness Terminates refuted on Sched.tla"
                    cov["model_alarm"] = model_alarm
                else:
                    raise MachineryError("liveness run failed:\n" + res.out[-3000:])

        # ---- (B) replay every behaviour, steered, into the real code -------------------------------------
        jobs = []
        for b in mc["behaviours"]:
            jobs.append({"prog": progs[b["beh"] - 1], "schedule": b["sched"], "tb": None, "kind": "replay"})
        # ---- natural runs: no tie-break component at all (priorities can tie exactly; set order decides) -----
        for i, p in enumerate(progs):
            if i % 3 == seed % 3:
                jobs.append({"prog": p, "schedule": None, "tb": None, "kind": "natural"})
        # ---- the same, under debug options that must not matter (the properties hold for every option setting) ----
        for i, p in enumerate(progs):
            if i % 3 == (seed + 1) % 3:
                jobs.append({"prog": p, "schedule": None, "tb": None, "kind": "options", "options": OPTION_SETS[(i // 3) % len(OPTION_SETS)]})
        # ---- (C') larger / monitor-only families under pseudo-random tie-breaks ---------------------------
        for prof, *ns in conf.get("big", []):
            for i, p in enumerate(plang.sample(prof, seed + 1000, ns[ti - 1])):
                jobs.append({"prog": p, "schedule": None, "tb": seed * 131 + i, "kind": "random"})
        for prof, *ns in conf.get("monitor_only", []):
            for i, p in enumerate(plang.sample(prof, seed, ns[ti - 1])):
                jobs.append({"prog": p, "schedule": None, "tb": seed * 131 + i, "kind": "monitor_only"})
        if model_alarm and not mc["behaviours"]:
            for i, p in enumerate(progs):
                jobs.append({"prog": p, "schedule": None, "tb": i, "kind": "random"})
        traces = []
        nosteer = 0
        hangs = 0
        for bname, bdir in builds.items():
            js = [dict(j, id=i) for i, j in enumerate(jobs)]
            res = pipeline.run_jobs(bdir, js)
            for j, r in zip(js, res):
                if r.get("crash"):
                    raise MachineryError("harness crashed on %s build: %s" % (bname, r["crash"]))
                hangs += 1 if r["hang"] else 0
                if j["schedule"] is not None:
                    bat = {e["b"]: e["a"] for e in r["events"] if e["e"] == "NewBatch"}
                    real = [bat.get(e["b"]) for e in r["events"] if e["e"] == "Before"]
                    if real != j["schedule"]:
                        nosteer += 1
                traces.append({"id": len(traces), "prog": j["prog"], "events": r["events"], "build": bname,
                               "schedule": j["schedule"], "tb": j["tb"], "kind": j["kind"], "options": j.get("options")})
        cov["traces_validated_against_impl"] = len(traces)
        cov["builds"] = list(builds)
        cov["replayed_behaviours_not_following_schedule"] = nosteer
        cov["hangs"] = hangs

        # ---- (C) verdicts: TraceObs ------------------------------------------------------------------------
        v, st = pipeline.validate(traces, sc)
        cov["monitor_states"] = st["states"]
        clause_counts = collections.Counter()
        other = collections.Counter()
        for t in traces:
            for entry in v[t["id"]]:
                cl = pipeline.clause_of(entry)
                if cl == "H.monitor_error":
                    cl = pid + ".monitor_error"      # the trace is so far from any behaviour that the monitor cannot even follow it
                if cl.startswith(conf["prefixes"]):
                    clause_counts[cl] += 1
                    verdict.report(cl, features(t["prog"]),
                                   {"prog": t["prog"], "schedule": t["schedule"], "tb": t["tb"], "build": t["build"],
                                    "options": t.get("options"), "entry": entry})
                else:
                    other[cl] += 1
        cov["clause_violations"] = dict(clause_counts)
        cov["other_clauses_violated_in_these_traces"] = dict(other)

        # ---- C08.fresh: each later computation of a session, alone, must be a behaviour of the fresh-start spec ---
        if conf.get("fresh"):
            sub = []
            for t in traces:
                if len(t["prog"]["calls"]) < 2 or t["kind"] == "monitor_only" or t["build"] != "pure":
                    continue
                parts = split_calls(t["events"])
                for ix in range(1, len(parts)):
                    # comparable only if the earlier computations left no unflushed item in the (user-level) batch
                    # registry: a stale pending batch is state of the batching layer, not of the scheduler
                    created, answered = set(), set()
                    for part in parts[:ix]:
                        for e in part:
                            if e["e"] == "NewItem":
                                created.add(e["a"])
                            elif e["e"] == "Done":
                                answered.add(e["a"])
                    if created - answered:
                        continue
                    sub.append({"id": len(sub), "prog": solo_of(t["prog"], ix), "events": normalise_subtrace(parts[ix]),
                                "src": t["id"], "ix": ix})
            sub = sub[: (1500 if tier == "quick" else 15000)]
            dv, dst = pipeline.validate_sched(sub, sc)
            suspects = [s for s in sub if dv[s["id"]] is not None]
            cov["fresh_subcomputations_checked"] = len(sub)
            nfresh = 0
            if suspects:
                # is the same computation, run alone on a fresh scheduler, a behaviour of the spec?
                solo_jobs = [{"id": i, "prog": s["prog"], "schedule": None, "tb": None} for i, s in enumerate(suspects)]
                sres = pipeline.run_jobs(builds["pure"], solo_jobs)
                solo_tr = [{"id": i, "prog": s["prog"], "events": normalise_subtrace(r["events"])} for i, (s, r) in enumerate(zip(suspects, sres))]
                sv, _ = pipeline.validate_sched(solo_tr, sc)
                for i, s in enumerate(suspects):
                    if sv[i] is None:       # solo conforms, in-session does not: the scheduler was not fresh
                        nfresh += 1
                        src = traces[s["src"]]
                        verdict.report("C08.fresh", features(src["prog"]),
                                       {"prog": src["prog"], "schedule": src["schedule"], "tb": src["tb"], "build": "pure",
                                        "call_index": s["ix"], "drift": dv[s["id"]]})
            cov["fresh_violations"] = nfresh

        # ---- drift: TraceSched (never a verdict) -------------------------------------------------------------
        dsel = [t for t in traces if t["kind"] != "monitor_only"]
        dsel = dsel[: (1200 if tier == "quick" else 12000)]
        dv, dst = pipeline.validate_sched(dsel, sc)
        ndrift = sum(1 for t in dsel if dv[t["id"]] is not None)
        cov["drift_traces_checked"] = len(dsel)
        cov["drift"] = ndrift
        if ndrift:
            first = next(t for t in dsel if dv[t["id"]] is not None)
            cov["drift_example"] = {"at": dv[first["id"]].get("at"), "exp": dv[first["id"]].get("exp"), "got": dv[first["id"]].get("got")}

        # ---- deep chains (C03) ---------------------------------------------------------------------------------
        if conf.get("deep"):
            import deepchain
            dc = deepchain.run(builds["pure"], [1000, 20000] if tier == "quick" else [1000, 20000, 100000])
            cov["deep_chains"] = dc["summary"]
            for bad in dc["bad"]:
                verdict.report("C03.term.deep", "deep-chain", bad)

        # ---- C12: the thread is part of the key - the same deduplicated calls made on several threads at once ---------
        if pid == "C12":
            cov["threads"] = dedup_on_threads(builds["pure"], seed, tier, verdict)

        # ---- satellite of C07: call_with_context, the AsyncScopedValue / async_override API (ScopedCall.tla) --------
        if pid == "C07":
            import sat_c07x
            cov["scopedcall"] = sat_c07x.run(sc, builds, tier, verdict)

        # a model alarm that the real code confirms is already reported through the traces; one that the real
        # code does not confirm is a defect of the model: machinery failure, not a verdict
        if model_alarm and not verdict.violations and not verdict.known:
            raise MachineryError(model_alarm + " but no real trace violates a clause: the model misrepresents the code\n" + cov.get("model_alarm_tail", ""))

        nt = [t for t in traces if nontrivial(pid, t["events"])]
        distinct = len({json.dumps([t["prog"], t["schedule"], t["tb"]], sort_keys=True) for t in nt})
        cov["evaluations"] = len(traces)
        cov["distinct_nontrivial"] = distinct
        cov["rule"] = RULES[pid]
        cov["samples"] = sample_traces(nt or traces)
        cov["exhaustive"] = False
        rc = verdict.finish()
        common.write_evidence(pid, "model_checking", dict(cov), time.time() - t0, violations=len(verdict.violations),
                              assumptions=[
                                  "families are bounded (<=8 tasks for model families, <=40 for random ones); small-scope argument, not a proof",
                                  "the harness observes through the public API (generated bodies, BatchBase/AsyncContext subclasses, scheduler hooks)",
                                  "Sched.tla does not model contexts whose pause()/resume() raise; those families are judged by the monitor only",
                                  "TLC, the JSON community module and the Python harness are trusted",
                              ], tier_=tier)
        return rc


def dedup_on_threads(bdir, seed, tier, verdict):
    """the same program (same deduplicated functions, same keys) on 2 and 4 real threads at once, barrier start, worker threads
    all carrying the same name: every thread must see exactly the events of its solo run - a task shared across threads would
    run its body on one thread only.  (C16's check does this for every kind of state; here for the registry of C12.)"""
    import random
    import subprocess
    jobs = []
    n = 4 if tier == "quick" else 20
    for nthreads in (2, 4):
        for prof in ("dedup", "dedupdirty"):
            base = dict(plang.PROFILES[prof], nkinds=(1, 1), ntasks=(4, 8))
            for i in range(n):
                p = plang.Gen(random.Random("c12t/%s/%d/%d/%d" % (prof, seed, nthreads, i)), base).build()
                p["kinds"][0].update(impl="debug", flush="ok")
                jobs.append({"id": len(jobs), "progs": [p] * nthreads, "options": None, "rounds": 3 if tier == "quick" else 6})
    pr = subprocess.run([common.PY, "-W", "ignore", os.path.join(common.VERIF, "harness", "realize_threads.py")],
                        input=json.dumps({"jobs": jobs}), capture_output=True, text=True, env=common.pyenv(bdir),
                        preexec_fn=common.limit_resources(4), timeout=1500)
    if pr.returncode != 0:
        raise MachineryError("realize_threads failed: " + pr.stderr[-1500:])
    runs = bad = 0
    for r in json.loads(pr.stdout):
        job = jobs[r["id"]]
        if any(s_ is None or s_["crash"] for s_ in r["solo"]):
            raise MachineryError("solo run crashed in the thread stage of C12")
        for rd, conc in enumerate(r["conc"]):
            for h, c in enumerate(conc):
                if c is None:
                    continue
                runs += 1
                solo = pipeline.strip_prio(r["solo"][h]["events"])
                ev = [] if c["crash"] else pipeline.strip_prio(c["events"])
                if c["crash"] or ev != solo:
                    bad += 1
                    k = next((x for x in range(min(len(ev), len(solo))) if ev[x] != solo[x]), min(len(ev), len(solo)))
                    verdict.report("C12.thread", "%dthreads" % len(job["progs"]),
                                   {"threads": {"progs": job["progs"], "thread": h, "round": rd}, "crash": c["crash"],
                                    "first_difference_at": k, "alone": solo[k] if k < len(solo) else "END",
                                    "concurrent": ev[k] if k < len(ev) else "END"})
    return {"jobs": len(jobs), "thread_runs": runs, "differing": bad}


def replay(path, pid, sc):
    obj = json.load(open(path))
    case = obj["case"]
    if "threads" in case:
        verdict = Verdict(pid)
        th = case["threads"]
        import subprocess
        pr = subprocess.run([common.PY, "-W", "ignore", os.path.join(common.VERIF, "harness", "realize_threads.py")],
                            input=json.dumps({"jobs": [{"id": 0, "progs": th["progs"], "options": None, "rounds": 10}]}),
                            capture_output=True, text=True, env=common.pyenv(sc.build("pure")), timeout=600)
        r = json.loads(pr.stdout)[0]
        differ = any(c is not None and (c["crash"] or pipeline.strip_prio(c["events"]) != pipeline.strip_prio(r["solo"][h]["events"]))
                     for conc in r["conc"] for h, c in enumerate(conc))
        if differ:
            print("VIOLATION property=%s replay=%s clause=C12.thread" % (pid, path))
        return 1 if differ else 0
    if case.get("sat") == "c07x":
        import sat_c07x
        verdict = Verdict(pid)
        sat_c07x.run(sc, {case.get("build", "pure"): sc.build(case.get("build", "pure"))}, "quick", verdict, only_case=case["case"])
        for clause, trig, o in verdict.violations:
            print(json.dumps({"clause": clause, "trigger": trig, "diff": o["diff"], "got": o["got"]}, indent=1))
        if verdict.violations:
            print("VIOLATION property=%s replay=%s" % (pid, path))
        return 1 if verdict.violations else 0
    bdir = sc.build(case.get("build", "pure"))
    res = pipeline.run_jobs(bdir, [{"id": 0, "prog": case["prog"], "schedule": case.get("schedule"), "tb": case.get("tb"),
                                    "options": case.get("options")}])
    tr = [{"id": 0, "prog": case["prog"], "events": res[0]["events"]}]
    v, _ = pipeline.validate(tr, sc)
    print(json.dumps({"clauses": v[0]}, indent=1))
    for entry in v[0]:
        if pipeline.clause_of(entry).startswith(pid):
            print("VIOLATION property=%s replay=%s clause=%s" % (pid, path, pipeline.clause_of(entry)))
            return 1
    return 0


if __name__ == "__main__":
    common.main_wrapper(main)
