"""C09: Decorators.tla enumerates the complete product decorator x binding x argument pattern x body x calling
convention with the result the property prescribes; every cell is built and called for real."""
import argparse
import json
import os
import sys
import time

sys.path.insert(0, os.path.dirname(os.path.abspath(__file__)))
import common
import sat
from common import MachineryError, Scratch, Verdict

PID = "C09"
INVARIANTS = ["ConventionsAgree", "SyncFnWins", "BoundOnce", "ClassificationConsistent", "CallsIndependent"]


def main():
    ap = argparse.ArgumentParser()
    ap.add_argument("pid")
    ap.add_argument("--tier", default=None)
    ap.add_argument("--replay", default=None)
    a = ap.parse_args()
    tier = a.tier or common.tier()
    t0 = time.time()
    verdict = Verdict(PID)
    with Scratch("c09") as sc:
        builds = {"pure": sc.build("pure")}
        if tier == "thorough" and not os.environ.get("VERIF_SKIP_CY"):
            builds["cy"] = sc.build("cy")
        if a.replay:
            case = json.load(open(a.replay))["case"]
            mism, _ = sat.replay(builds.get(case.get("build", "pure"), builds["pure"]), "replay_c09.py", [case["history"]], nproc=1)
            print(json.dumps(mism, indent=1))
            if mism:
                print("VIOLATION property=%s replay=%s" % (PID, a.replay))
            return 1 if mism else 0
        # product: every cell once on a fresh object; pairs: every ordered pair of Access+Call steps on the SAME decorated
        # attribute (all access paths x conventions; quick: pattern pos, thorough: pos and kwonly)
        # WRAPS = layers of foreign `.fn`-exposing wrappers around the accessed object (0..WRAPS)
        # NEWDIMS=1: bodies ending with result(x), raising bodies, calls made from inside a running task (all combinations)
        runs = [("product", {"CALLS": "1", "PATS": "all", "WRAPS": "2"}),
                ("dims", {"CALLS": "1", "PATS": "few", "WRAPS": "0" if tier == "quick" else "1", "NEWDIMS": "1"}),
                ("pairs", {"CALLS": "2", "PATS": "one", "WRAPS": "1"})]
        if tier == "thorough":
            runs.append(("pairs2", {"CALLS": "2", "PATS": "few", "WRAPS": "0"}))
        cases, states, transitions, ok, alarms, tails = [], 0, 0, True, [], []
        from concurrent.futures import ThreadPoolExecutor
        with ThreadPoolExecutor(max_workers=3) as ex:       # the TLC runs are independent: three at a time
            results = list(ex.map(lambda r: sat.tlc_histories("Decorators", "Decorators.cfg", sc, env=r[1],
                                                              workers=max(2, common.NCPU // 2)), runs))
        for (name, env), (hs, res) in zip(runs, results):
            al = sat.model_alarm(res)
            if al:
                alarms.append("%s (%s)" % (al, name))
                tails.append(res.out[-2000:])
            got = [dict(h, run=name) for h in hs if "h" in h]
            if not got:
                raise MachineryError("TLC exported no histories (%s):\n%s" % (name, res.out[-2000:]))
            cases += got
            states += res.distinct
            transitions += res.generated
            ok = ok and res.ok
        total = nmis = 0
        for bname, bdir in builds.items():
            mism, n = sat.replay(bdir, "replay_c09.py", cases, chunk=4000)
            total += n
            nmis += len(mism)
            for m in mism:
                c = cases[m["i"]]
                j = m["diff"][0] if isinstance(m["diff"], list) and m["diff"] else 0
                aspect = (m.get("aspects") or ["outcome"])[0]
                if aspect == "harness":
                    raise MachineryError("replay_c09.py could not build %s/%s/%s: %s" % (c["deco"], c["defk"], c["body"], m["got"]))
                verdict.report("C09." + aspect, "%s/%s" % (c["deco"], c["defk"]) + ("/raising" if c.get("fail") else ""),
                               {"history": c, "got": m["got"], "first_diff": j, "aspects": m.get("aspects"), "build": bname})
        if alarms and not verdict.violations:
            raise MachineryError("; ".join(alarms) + " on Decorators.tla but the real callables follow every prescribed cell: the model is wrong\n" + "\n".join(tails))
        calls = [(c, o) for c in cases for o in c["h"]]
        cells = {(c["deco"], c["defk"], c["body"], c["ending"], c["fail"], o["via"], o["wrap"], o["argp"], o["conv"], o["ctx"]) for c, o in calls}
        in_task = sum(1 for c, o in calls if o["ctx"] == "task")
        raising = sum(1 for c, o in calls if c["fail"])
        result_end = sum(1 for c, o in calls if c["ending"] == "result")
        wrapped_calls = sum(1 for c, o in calls if o["wrap"])
        nontriv = sum(1 for c, o in calls if o["res"]["bound"] != "none" or o["res"]["ran"] == "sync")
        pairs = [c for c in cases if len(c["h"]) == 2]
        cross = sum(1 for c in pairs if c["h"][0]["via"] != c["h"][1]["via"])
        rebound = sum(1 for c in pairs if c["h"][0]["res"]["bound"] != c["h"][1]["res"]["bound"])
        per_deco = {}
        for c, o in calls:
            per_deco[c["deco"]] = per_deco.get(c["deco"], 0) + 1
        cov = {
            "states": states, "transitions": transitions, "traces_validated_against_impl": total,
            "samples": cases[:1] + cases[len(cases) // 2: len(cases) // 2 + 1] + cases[-1:],
            "histories": len(cases), "pair_histories": len(pairs), "pairs_through_different_access_paths": cross,
            "pairs_with_different_bound_objects": rebound, "calls_per_build": len(calls), "calls_through_foreign_wrappers": wrapped_calls, "calls_from_inside_a_task": in_task,
            "calls_with_raising_body": raising, "calls_with_result_ending": result_end, "distinct_cells": len(cells), "calls_per_decorator": per_deco,
            "builds": list(builds), "tlc_runs": [dict(env, name=name) for name, env in runs],
            "bindings": sorted({"%s/%s" % (c["defk"], o["via"]) for c, o in calls}),
            "conventions": sorted({o["conv"] for c, o in calls}), "argument_patterns": sorted({o["argp"] for c, o in calls}),
            "bodies": sorted({c["body"] for c in cases}),
            "model_invariants": INVARIANTS, "model_ok": ok, "mismatching_histories": nmis,
            "evaluations": total, "distinct_nontrivial": nontriv,
            "rule": "complete product decorator kind x binding x 0-2 foreign wrappers x argument pattern x body x calling convention; the same product over the patterns "
                    "pos/kwonly x {return x, result(x)} x {value, raising body} x {call from top level, from inside a running task}; plus every ordered pair of "
                    "Access+Call steps on one decorated attribute (all access paths x 0-1 wrappers x conventions; pattern pos, thorough: also pos/kwonly unwrapped), "
                    "each call prescribed as if alone; "
                    "non-trivial = the call has a bound first argument or runs sync_fn",
            "exhaustive": True,
        }
        rc = verdict.finish()
        common.write_evidence(PID, "model_checking", cov, time.time() - t0, violations=len(verdict.violations), assumptions=[
            "one parameter list `([first,] a, b=20, *, k=30)`; argument patterns positional / keyword / mixed / default omitted / keyword-only",
            "aretry and alru_cache only on functions and instance methods, acached_per_instance only on instance methods (the bindings they are written for); "
            "alru_cache / acached_per_instance objects are called once per history (repeated calls belong to C13) and are not part of the pair histories",
            "pair histories: two accesses/calls in sequence on one decorated object (state left on the shared decorator by the first must not matter); longer sequences are not enumerated",
            "async_proxy returning a ConstFuture and the undecorated control have a plain body only (a ConstFuture cannot block)",
            "sync_fn is supplied the way the decorator documents/tests it: asynq(sync_fn=) gets the same descriptor kind (function / classmethod / staticmethod object), "
            "async_proxy(sync_fn=) a plain function that receives the bound object",
            "@asynq(pure=True) has no .asynq attribute: that convention is not part of its cells; the yield convention yields the call itself, as is_pure_async_fn says",
            "get_async_fn / get_async_or_sync_fn are exercised as two further conventions (call what they return); which object they return is not prescribed, only None-ness",
            "method via class = C.meth(inst, ...); classmethods additionally through a subclass and a subclass instance; a falsy instance (__bool__ False) is one of the bindings",
            "a foreign wrapper is a plain synchronous callable object exposing the wrapped callable as `.fn` (no asynq / is_pure_async_fn of its own, attributes can be "
            "set on it) whose call forwards to the direct call: it is pure exactly when what it wraps is pure, it has no .asynq, get_async_fn gives None unless pure, "
            "and sync_fn runs on every way of calling it; the helpers are asked before and after the call and must answer alike (memoisation)",
            "a raising body raises after its last yield; the exception carries which body ran with which bound object and arguments, and every convention must raise "
            "that exception (sync_fn raises its own); aretry is built for KeyError so that the exception is not retried (retrying is C14's subject)",
            "make_async_decorator wrappers: one yielding the wrapped task (pending), one handing back an already computed task (value or error), one handing back "
            "ConstFuture / ErrorFuture; the last two are not part of the pair histories",
            "a call from inside a task is made in the body of a generator task between two yields; the yield / async_call conventions then run their caller task "
            "by a nested synchronous call; result(x) endings only where there is an asynq body (not for the undecorated control and the ConstFuture proxy)",
            "the asyncio conventions (.asyncio) are C15's subject and not part of these cells",
            "TLC and the replay harness are trusted"], tier_=tier)
        return rc


if __name__ == "__main__":
    common.main_wrapper(main)
