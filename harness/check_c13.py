"""C13: Cache.tla (the reference cache; TLC enumerates every call history to a depth) replayed into the real
alru_cache / acached_per_instance / alazy_constant."""
import argparse
import json
import os
import sys
import threading
import time
from concurrent.futures import ThreadPoolExecutor

sys.path.insert(0, os.path.dirname(os.path.abspath(__file__)))
import common
import sat
from common import MachineryError, Scratch, Verdict

PID = "C13"
INVARIANTS = ["StoreMatchesLru", "SizeBound", "NeverShare", "ReturnedOwn", "RaiseNotCached", "InstanceGone",
              "NoTtlBoundary", "OneRecomputation", "HitRunsNothing", "EvictsLeastRecent", "OtherFunctionUntouched"]
# (group, extra TLC environment): the big spelling group is split so that no TLC output has to be held at once
PARTS = {
    "quick": [("misc", {}), ("inst", {}), ("lru", {}), ("spell", {})],        # misc = lazy + overlap + shared + falsy + extras
    "thorough": [("spell", {"FORM": "fn"}), ("spell", {"FORM": "meth"}), ("lru", {}), ("inst", {}), ("lazy", {}), ("overlap", {}),
                 ("shared", {}), ("falsy", {}), ("extras", {})],
}
DECO = {"lru": "alru_cache", "inst": "acached_per_instance", "lazy": "alazy_constant"}
CLAUSE = {"hit": "hit", "new": "miss", "raise": "raise", "evicted": "lru", "dropped": "instance", "drop": "instance",
          "dirty": "dirty", "expired": "ttl"}


def trigger(cfg):
    if cfg["deco"] == "lru":
        t = "alru_cache/%s/%s" % ("function" if cfg["form"] == "fn" else "method", "key_fn" if cfg["keyfn"] else "default_key")
    elif cfg["deco"] == "lazy":
        t = "alazy_constant/%s" % ("ttl" if cfg["ttl"] else "no_ttl")
    else:
        t = "acached_per_instance"
    if cfg.get("nf", 1) == 2:
        t += "/one-decorator-two-functions"
    if cfg.get("sig", "std") != "std":
        t += "/signature:" + {"kw": "(a,b=0,*,c=0,**extra)", "var": "(a,b=0,*rest,**extra)", "varkwo": "(a,b=0,*rest,c=0,**extra)"}[cfg["sig"]]
    if cfg.get("ret", "tuple") != "tuple":
        t += "/returns-" + cfg["ret"]
    return t


def classify(case, m):
    """clause id of the first differing operation: the model's tag says which sentence of the property it is"""
    if not isinstance(m["got"], list):
        return "C13.crash"
    j = m["diff"][0]
    o, g = case["h"][j], m["got"][j]
    for q, (want, have) in enumerate(zip(o["res"], g["res"])):
        want, have = list(want), list(have)
        if want[:1] == ["fresh"]:
            ok = (len(have) == len(want) - 2 and have[0] == want[1] and have[1:-1] == want[2:-2] and want[-2] <= have[-1] <= want[-1])
            twin = [list(x) for x in g["res"]].count(have) > 1
            if ok and not twin:
                continue
            return "C13.ownresult"            # overlapping misses: each call returns the result of its own body run
        if want != ["any"] and want != have:
            tag = o["tag"][q]
            if have and have[0] == "val" and tag != "hit" and o["calls"]:
                s = o["calls"][q]
                keep = [0, 1, 2, 4, 5, 6] if case["cfg"]["keyfn"] else [0, 1, 2, 3, 4, 5, 6]     # key_fn ignores b
                own = [s.get("g", 1), s["i"], s["a"], s["b"], s["c"], s.get("p", 0), s.get("x", 0)]
                if len(have) >= 8 and [have[1 + x] for x in keep] != [own[x] for x in keep]:
                    return "C13.differ"       # served a value computed from other arguments
            return "C13." + CLAUSE.get(tag, tag)
    return "C13." + CLAUSE.get(o["tag"][0], o["tag"][0])        # only the number of body runs differs


def nontrivial(case):
    tags = [t for o in case["h"] for t in o["tag"]]
    return "hit" in tags and any(t in ("new", "evicted", "dropped", "dirty", "expired", "raise") for t in tags)


def main():
    ap = argparse.ArgumentParser()
    ap.add_argument("pid")
    ap.add_argument("--tier", default=None)
    ap.add_argument("--replay", default=None)
    a = ap.parse_args()
    tier = a.tier or common.tier()
    t0 = time.time()
    verdict = Verdict(PID)
    with Scratch("c13") as sc:
        builds = {"pure": sc.build("pure")}
        if tier == "thorough" and not a.replay and not os.environ.get("VERIF_SKIP_CY"):
            builds["cy"] = sc.build("cy")
        if a.replay:
            case = json.load(open(a.replay))["case"]
            bname = case.get("build", "pure")
            if bname not in builds:
                builds[bname] = sc.build(bname)
            mism, _ = sat.replay(builds[bname], "replay_c13.py", [case["history"]], nproc=1)
            print(json.dumps(mism, indent=1))
            if mism:
                print("VIOLATION property=%s replay=%s" % (PID, a.replay))
            return 1 if mism else 0
        alarms, samples, per_group, configs = [], [], {}, set()
        tag_count = {}
        found = []
        lock = threading.Lock()
        st = {"states": 0, "trans": 0, "total": 0, "nmis": 0, "nhist": 0, "nontriv": 0}
        par = 3 if tier == "quick" else 2          # groups in flight (TLC + parsing + replay overlap)

        def do_part(part):
            group, extra = part
            env = {"GROUP": group, "DEEP": "1" if tier == "thorough" else "0"}
            env.update(extra)
            hs, res = sat.tlc_histories("Cache", "Cache.cfg", sc, env=env, workers=max(2, common.NCPU // par))
            alarm = sat.model_alarm(res)
            cases = [{"cfg": h["cfg"], "h": h["h"]} for h in hs if "h" in h]
            del hs
            if not cases:
                raise MachineryError("TLC exported no histories for group %s:\n%s" % (group, res.out[-2000:]))
            tags, cfgs = {}, set()
            for c in cases:
                cfgs.add(json.dumps(c["cfg"], sort_keys=True))
                for o in c["h"]:
                    for t in o["tag"]:
                        tags[t] = tags.get(t, 0) + 1
            nt = sum(1 for c in cases if nontrivial(c))
            mine, tot = [], 0
            for bname, bdir in builds.items():
                mism, n = sat.replay(bdir, "replay_c13.py", cases, nproc=max(2, common.NCPU // 2))
                tot += n
                for m in mism:
                    c = cases[m["i"]]
                    mine.append((classify(c, m), trigger(c["cfg"]),
                                 {"history": c, "got": m["got"], "first_diff": m["diff"][0], "build": bname}))
            with lock:
                if alarm:
                    alarms.append("%s (group %s): %s" % (alarm, group, res.out[-1500:]))
                st["states"] += res.distinct
                st["trans"] += res.generated
                st["nhist"] += len(cases)
                st["nontriv"] += nt
                st["total"] += tot
                st["nmis"] += len(mine)
                per_group[group] = per_group.get(group, 0) + len(cases)
                configs.update(cfgs)
                for t, n in tags.items():
                    tag_count[t] = tag_count.get(t, 0) + n
                samples.append(cases[len(cases) // 3])
                found.extend(mine)

        with ThreadPoolExecutor(max_workers=par) as ex:
            list(ex.map(do_part, PARTS[tier]))
        states, trans, total, nmis, nhist, nontriv = (st[k] for k in ("states", "trans", "total", "nmis", "nhist", "nontriv"))
        firsts, rest, seen = [], [], set()
        for f in found:              # one example of every distinct (clause, trigger) first: those are the lines printed
            (rest if (f[0], f[1]) in seen else firsts).append(f)
            seen.add((f[0], f[1]))
        for clause, trig, obj in firsts + rest:
            verdict.report(clause, trig, obj)
        if alarms and not verdict.violations:
            raise MachineryError("the model's own invariants fail although the real caches follow every prescribed history "
                                 "(Cache.tla is wrong): " + "; ".join(alarms))
        missing = [t for t in ("hit", "new", "raise", "evicted", "dropped", "dirty", "expired") if not tag_count.get(t)]
        if missing:
            raise MachineryError("vacuous exploration: no operation of kind %s in any history" % missing)
        cov = {
            "states": states, "transitions": trans, "traces_validated_against_impl": total,
            "samples": samples[:4], "histories": nhist, "histories_per_group": per_group,
            "configurations": len(configs), "operations_by_prescription": tag_count, "builds": list(builds),
            "model_invariants": INVARIANTS, "model_ok": not alarms, "mismatching_histories": nmis,
            "evaluations": total, "distinct_nontrivial": nontriv,
            "functions_per_decorator_object": [1, 2], "result_kinds": ["tuple", "none", "zero", "str", "empty"],
            "signatures": ["(a,b=0,*,c=0)", "(a,b=0,*,c=0,**extra)", "(a,b=0,*rest,**extra)", "(a,b=0,*rest,c=0,**extra)"],
            "rule": "every call history to the group's depth over the group's call alphabet (all spellings x 2 values per parameter: "
                    "depth %s; LRU/instance/ttl histories over few keys: depth %s); non-trivial = contains a hit and a miss/eviction/drop/dirty/expiry/raise"
                    % (("3 (default key; 2 with key_fn)", "3-7") if tier == "thorough" else ("2", "2-6")),
            "exhaustive": True,
        }
        rc = verdict.finish(max_print=8)
        common.write_evidence(PID, "model_checking", cov, time.time() - t0, violations=len(verdict.violations),
                              assumptions=["histories are bounded in depth and in the call alphabet of each group (small-scope)",
                                           "overlapping calls: prescribed only while no eviction is involved; two overlapping misses on one key each return their own body run's fresh result, which of the two values stays stored is left open",
                                           "ttl: the clock is asynq.tools.utime replaced by a scripted logical clock; elapsed time never equals ttl exactly (boundary not prescribed)",
                                           "'vanish with their instance' is observed through a new instance at the recycled address and, when exposed, the size of the decorator's per-instance table",
                                           "TLC and the replay harness are trusted"], tier_=tier)
        return rc


if __name__ == "__main__":
    common.main_wrapper(main)
