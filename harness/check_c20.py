"""C20: debug / dump / profiling options never change behaviour.

The specifications have no option variable, so any trace they accept is option independent.  Programs from the
core families are model-checked (Sched.tla, all schedules); every behaviour is replayed, fully steered, once with
default options and once per option configuration (x scripted clocks, x builds).  Oracles: (i) TLC's monitor
(TraceObs) accepts the option-run trace with no clause violated, (ii) the option-run trace is event-for-event the
default-options trace, and Sched.tla (TraceSched) reproduces it."""
import argparse
import collections
import json
import os
import random
import sys
import time

sys.path.insert(0, os.path.dirname(os.path.abspath(__file__)))
import common
import pipeline
import plang
from common import MachineryError, Scratch, Verdict

PID = "C20"
DUMPS = ["DUMP_PRE_ERROR_STATE", "DUMP_EXCEPTIONS", "DUMP_SCHEDULE_TASK", "DUMP_CONTINUE_TASK", "DUMP_SCHEDULE_BATCH",
         "DUMP_FLUSH_BATCH", "DUMP_DEPENDENCIES", "DUMP_COMPUTED", "DUMP_NEW_TASKS", "DUMP_YIELD_RESULTS",
         "DUMP_QUEUED_RESULTS", "DUMP_CONTEXTS", "DUMP_SYNC", "DUMP_STACK", "DUMP_SCHEDULER_STATE", "DUMP_SYNC_CALLS"]
SPECIAL = [("COLLECT_PERF_STATS", True), ("KEEP_DEPENDENCIES", True), ("ENABLE_COMPLEX_ASSERTIONS", False)]
CLOCKS = [1, 1000, 1000000, 2400000000, 18000000000]      # microseconds per clock reading: 1us .. 5h


def configs(tier, seed):
    rng = random.Random(seed)
    out = []
    for d in DUMPS:
        out.append({d: True})
    for k, v in SPECIAL:
        out.append({k: v})
    out.append(dict([(d, True) for d in DUMPS] + SPECIAL))
    for k, v in SPECIAL:
        for d in ("DUMP_FLUSH_BATCH", "DUMP_SCHEDULER_STATE", "DUMP_COMPUTED", "DUMP_STACK"):
            out.append({k: v, d: True})
    out.append(dict(SPECIAL))
    for _ in range(24 if tier == "quick" else 512):
        c = {}
        for d in DUMPS:
            if rng.random() < 0.4:
                c[d] = True
        for k, v in SPECIAL:
            if rng.random() < 0.5:
                c[k] = v
        out.append(c)
    # every configuration gets a scripted clock; profiling configurations get every clock step
    res = []
    for i, c in enumerate(out):
        if c.get("COLLECT_PERF_STATS") or c.get("DUMP_SCHEDULER_STATE"):
            steps = CLOCKS if len(c) <= 3 or tier == "thorough" else [CLOCKS[i % len(CLOCKS)], CLOCKS[-1]]
        else:
            steps = [CLOCKS[i % len(CLOCKS)]]
        for st in steps:
            res.append(dict(c, _clock=st))
    return res


def main():
    ap = argparse.ArgumentParser()
    ap.add_argument("pid")
    ap.add_argument("--tier", default=None)
    ap.add_argument("--replay", default=None)
    a = ap.parse_args()
    tier = a.tier or common.tier()
    seed = common.seed()
    t0 = time.time()
    verdict = Verdict(PID)
    with Scratch("c20") as sc:
        builds = {"pure": sc.build("pure"), "cy": sc.build("cy")}
        if a.replay:
            case = json.load(open(a.replay))["case"]
            b = builds[case["build"]]
            jobs = [{"id": 0, "prog": case["prog"], "schedule": case["schedule"], "tb": None, "options": None},
                    {"id": 1, "prog": case["prog"], "schedule": case["schedule"], "tb": None, "options": case["options"]}]
            res = pipeline.run_jobs(b, jobs, nproc=1)
            same = pipeline.strip_prio(res[0]["events"]) == pipeline.strip_prio(res[1]["events"])
            print("same as default:", same)
            if not same:
                print("VIOLATION property=%s replay=%s" % (PID, a.replay))
            return 0 if same else 1
        n = 30 if tier == "quick" else 200
        progs = []
        for prof in ("everything", "syncfaults", "ctxsync", "kinds3", "throw", "session", "ival", "spawn", "spawnsync", "batchleaf"):
            progs += plang.sample(prof, seed, n)
        mc = pipeline.model_check(progs, sc, cfg="SchedExport.cfg", chunk=4000)
        if not mc["ok"]:
            raise MachineryError("Sched.tla refuted on the C20 families (see C01-C08 checks):\n" + mc["out"][-2000:])
        behs = mc["behaviours"]
        cfgs = configs(tier, seed)
        per_cfg = 12 if tier == "quick" else 40
        jobs = []
        for i, b in enumerate(behs):
            jobs.append({"prog": progs[b["beh"] - 1], "schedule": b["sched"], "tb": None, "options": None, "beh": i, "cfg": -1})
        for ci, c in enumerate(cfgs):
            for k in range(per_cfg):
                i = (ci * 7 + k * 13) % len(behs)
                b = behs[i]
                jobs.append({"prog": progs[b["beh"] - 1], "schedule": b["sched"], "tb": None, "options": c, "beh": i, "cfg": ci})
        # every behaviour once with every option on (the pairings above rotate; this one is complete)
        allon = dict([(d, True) for d in DUMPS] + SPECIAL + [("_clock", 1000)])
        dumps = dict([(d, True) for d in DUMPS] + [("_clock", 1000000)])
        cfgs = cfgs + [allon, dumps]
        for ci in (len(cfgs) - 2, len(cfgs) - 1):
            for i, b in enumerate(behs):
                jobs.append({"prog": progs[b["beh"] - 1], "schedule": b["sched"], "tb": None, "options": cfgs[ci], "beh": i, "cfg": ci})
        traces = []
        nviol_same = 0
        for bname, bdir in builds.items():
            js = [dict(j, id=k) for k, j in enumerate(jobs)]
            res = pipeline.run_jobs(bdir, js)
            default = {}
            for j, r in zip(js, res):
                if r.get("crash"):
                    raise MachineryError("harness crashed (%s): %s" % (bname, r["crash"]))
                ev = pipeline.strip_prio(r["events"])
                if j["cfg"] == -1:
                    default[j["beh"]] = ev
            for j, r in zip(js, res):
                ev = pipeline.strip_prio(r["events"])
                tr = {"id": len(traces), "prog": j["prog"], "events": r["events"], "build": bname, "cfg": j["cfg"],
                      "options": j["options"], "schedule": j["schedule"], "beh": j["beh"]}
                traces.append(tr)
                if j["cfg"] >= 0 and ev != default[j["beh"]]:
                    nviol_same += 1
                    d = default[j["beh"]]
                    k = next((x for x in range(min(len(ev), len(d))) if ev[x] != d[x]), min(len(ev), len(d)))
                    on = sorted(o for o in j["options"] if not o.startswith("_"))
                    trig = "%s:%s" % (bname, "+".join(on) if len(on) <= 2 else "%d-options" % len(on))
                    verdict.report("C20.same", trig,
                                   {"prog": j["prog"], "schedule": j["schedule"], "options": j["options"], "build": bname,
                                    "first_difference_at": k, "default": d[k] if k < len(d) else "END",
                                    "with_options": ev[k] if k < len(ev) else "END"})
        # option runs that already differ from their default run are violations as they stand (C20.same): the monitor is run
        # over them only while they are few (grossly deviating traces can be very slow to evaluate)
        differing = nviol_same > 200
        v, st = pipeline.validate([t for t in traces if t["cfg"] == -1] if differing else traces, sc)
        nobs = 0
        for t in traces:
            for entry in v.get(t["id"], []):
                cl = pipeline.clause_of(entry)
                if cl.startswith("H."):
                    continue
                nobs += 1
                verdict.report("C20.obs." + cl, t["build"],
                               {"prog": t["prog"], "schedule": t["schedule"], "options": t["options"], "build": t["build"], "entry": entry})
        # deep chains (beyond the interpreter's recursion limit) under the dump / profiling options and a clock that
        # makes every time-based dump fire: options must not make a computation fail that succeeds without them
        import deepchain
        deep = []
        from concurrent.futures import ThreadPoolExecutor
        optsets = [{"DUMP_SCHEDULER_STATE": True}, {"DUMP_SCHEDULER_STATE": True, "DUMP_NEW_TASKS": True, "COLLECT_PERF_STATS": True},
                   {"KEEP_DEPENDENCIES": True, "DUMP_COMPUTED": True}]
        depths = [2000] if tier == "quick" else [2000, 10000]
        with ThreadPoolExecutor(max_workers=3) as ex:
            dcs = list(ex.map(lambda o: deepchain.run(builds["pure"], depths, options=o, variants=("plain", "batch", "fail")), optsets))
        for opts, dc in zip(optsets, dcs):
            deep += dc["summary"]
            for b in dc["bad"]:
                verdict.report("C20.deep", "+".join(sorted(opts)), b)
        opt_traces = [] if differing else [t for t in traces if t["cfg"] >= 0][: (1500 if tier == "quick" else 15000)]
        dv, dst = pipeline.validate_sched(opt_traces, sc)
        ndrift = sum(1 for t in opt_traces if dv[t["id"]] is not None)
        nt = {(t["beh"], t["cfg"], t["build"]) for t in traces if t["cfg"] >= 0 and any(e["e"] == "Before" for e in t["events"])}
        cov = {
            "states": mc["states"], "transitions": mc["generated"], "traces_validated_against_impl": len(traces),
            "samples": [{"options": t["options"], "build": t["build"], "program": t["prog"], "events_head": t["events"][:12]}
                        for t in traces if t["cfg"] >= 0][:2],
            "model_programs": len(progs), "model_behaviours": len(behs), "option_configurations": len(cfgs),
            "runs_per_configuration_per_build": per_cfg, "builds": list(builds), "clock_steps_us": CLOCKS,
            "traces_differing_from_default": nviol_same, "deep_chain_runs_under_options": len(deep), "monitor_clause_violations": nobs,
            "monitor_states": st["states"], "drift_under_options": ndrift, "drift_traces_checked": len(opt_traces),
            "evaluations": len(traces), "distinct_nontrivial": len(nt),
            "rule": "one run = (program, steered schedule, option configuration, clock step, build); non-trivial = the run flushed at least one batch",
            "exhaustive": False,
        }
        rc = verdict.finish()
        common.write_evidence(PID, "model_checking", cov, time.time() - t0, violations=len(verdict.violations),
                              assumptions=["the 2^19 option subsets are sampled (all singles, all-on, pairs with the three non-dump options, seeded random subsets)",
                                           "diagnostic output itself is discarded; only program-observable events are compared",
                                           "clock readings are scripted by replacing asynq.scheduler.utime / time"], tier_=tier)
        return rc


if __name__ == "__main__":
    common.main_wrapper(main)
