"""C18: diagnostics are faithful and total.
  (a) DiagGlue.tla - chains of task levels: prescribed traceback at the caller / format_asynq_stack() inside levels
  (b) Diag.tla     - filter_traceback contract over an abstract alphabet of line classes, every text enumerated
  (c) DiagLife.tla - lifecycle machines of every object kind (str/repr/dump in every state) + format_error product
TLC checks the model invariants and enumerates; everything enumerated is replayed into the real code."""
import argparse
import json
import os
import sys
import time

sys.path.insert(0, os.path.dirname(os.path.abspath(__file__)))
import common
import sat
from common import MachineryError, Scratch, Verdict

PID = "C18"
SCRIPT = "replay_c18.py"


def printed_lines(res):
    """Like TlcResult.printed() but streaming-friendly for ~10^6 lines."""
    for line in res.out.splitlines():
        if len(line) > 2 and line[0] == '"' and line[-1] == '"':
            try:
                s = json.loads(line)
            except ValueError:
                s = line[1:-1].replace('\\"', '"').replace("\\\\", "\\")
            try:
                v = json.loads(s)
            except ValueError:
                continue
            if isinstance(v, dict):
                yield v


def run_model(module, sc, env):
    res = common.run_tlc(module, module + ".cfg", sc, env=env, timeout=3000)
    if res.timed_out:
        raise MachineryError("TLC timed out on %s" % module)
    if not res.ok and not (res.invariant_violated or "violated" in res.out):
        raise MachineryError("TLC failed on %s rc=%s:\n%s" % (module, res.rc, res.out[-3000:]))
    return res


def glue_trigger(c):
    ms = sorted(set(c["mode"])) or ["none"]
    t = "%s,%s" % (c["style"], "+".join(ms))
    if c.get("prior", "none") != "none":
        t += ",after=" + c["prior"]
    if c.get("nosrc"):
        t += ",nosrc"
    if c.get("hand", -5) != -5:
        t += ",handover=" + c["hend"]
    if c.get("retr", ["call"]) != ["call"]:
        t += ",retr=%s%s" % ("+".join(c["retr"]), "@task" if c["outer"] else "@top")
    return t


def main():
    ap = argparse.ArgumentParser()
    ap.add_argument("pid")
    ap.add_argument("--tier", default=None)
    ap.add_argument("--replay", default=None)
    a = ap.parse_args()
    tier = a.tier or common.tier()
    t0 = time.time()
    verdict = Verdict(PID)
    with Scratch("c18") as sc:
        builds = {"pure": sc.build("pure")}
        if tier == "thorough" and not os.environ.get("VERIF_SKIP_CY"):
            builds["cy"] = sc.build("cy")
        if a.replay:
            rep = json.load(open(a.replay))["case"]
            bdir = builds.get(rep.get("build", "pure"), builds["pure"])
            mism, _ = sat.replay(bdir, SCRIPT, [rep["case"]], nproc=1, extra_env={"C18_TABLE": json.dumps(rep.get("table", {}))})
            print(json.dumps(mism, indent=1)[:4000])
            if mism:
                print("VIOLATION property=%s replay=%s" % (PID, a.replay))
            return 1 if mism else 0

        quick = tier == "quick"
        alarms = []
        stats = {}
        total = 0
        samples = []

        def replay_all(part, cases, table=None, clause_of=None, trigger_of=None):
            nonlocal total
            nm = 0
            for bname, bdir in builds.items():
                mism, n = sat.replay(bdir, SCRIPT, cases, extra_env={"C18_TABLE": json.dumps(table or {})})
                total += n
                for m in mism:
                    c = cases[m["i"]]
                    if m["diff"] == ["harness"]:
                        raise MachineryError("replay harness failed on %s case %s:\n%s" % (part, json.dumps(c)[:400], m["got"]))
                    nm += 1
                    for clause, trig in clause_of(c, m):
                        verdict.report(clause, trig, {"case": c, "got": m["got"], "diff": m["diff"], "build": bname,
                                                     "table": table or {}})
            return nm

        # ------------------------------------------------------------------ (b) filter_traceback
        env = {"LINES": "4" if quick else "5", "SHORT": "6" if quick else "8", "BLOCKS": "3" if quick else "4"}
        res_b = run_model("Diag", sc, env)
        if sat.model_alarm(res_b):
            alarms.append("Diag: " + sat.model_alarm(res_b))
        table = None
        texts = {}
        for v in printed_lines(res_b):
            if "table" in v:
                table = v["table"]
            elif "t" in v:
                if v["t"] not in texts:
                    texts[v["t"]] = {"part": "filter", "t": v["t"], "o": v["o"], "f": v["f"]}
        res_b.out = ""
        if table is None or not texts:
            raise MachineryError("Diag.tla exported nothing")
        fcases = list(texts.values())
        del texts
        with_runs = sum(1 for c in fcases if any("M" in o for o in c["o"]))
        ambiguous = sum(1 for c in fcases if len(c["o"]) > 1)
        mis_b = replay_all("filter", fcases, table,
                           clause_of=lambda c, m: [("C18.filter", c["f"])])
        stats["filter"] = {"states": res_b.distinct, "transitions": res_b.generated, "texts": len(fcases),
                           "texts_with_complete_runs": with_runs, "texts_with_overlapping_runs": ambiguous,
                           "max_lines": int(env["LINES"]), "max_short_lines": int(env["SHORT"]), "max_blocks": int(env["BLOCKS"]),
                           "mismatches": mis_b, "tlc_wall_s": round(res_b.wall, 1)}
        samples += [fcases[0], fcases[len(fcases) // 3], fcases[-1]]
        nfilter = len(fcases)
        del fcases

        # ------------------------------------------------------------------ (a) gluing / format_asynq_stack
        gcases = []
        gstates = gtrans = 0
        runs = [{"MAXD": "6" if quick else "8", "PRIORD": "4" if quick else "5", "RETRD": "4" if quick else "5",
                 "NOSRCD": "4" if quick else "5", "HANDD": "5" if quick else "6"}]
        if not quick:
            runs += [{"DEEP": "50"}, {"DEEP": "200"}]
        for env in runs:
            res_a = run_model("DiagGlue", sc, env)
            if sat.model_alarm(res_a):
                alarms.append("DiagGlue: " + sat.model_alarm(res_a))
            gstates += res_a.distinct
            gtrans += res_a.generated
            for v in printed_lines(res_a):
                if "outcome" in v:
                    v["part"] = "glue"
                    if "DEEP" in env:
                        v["deep"] = True
                    gcases.append(v)
            res_a.out = ""
        if not gcases:
            raise MachineryError("DiagGlue.tla exported nothing")

        def glue_clauses(c, m):
            out = []
            if any(x.startswith("glue") for x in m["diff"]):
                out.append(("C18.glue", glue_trigger(c)))
            if "stack" in m["diff"]:
                out.append(("C18.stack", glue_trigger(c)))
            return out

        mis_a = replay_all("glue", gcases, clause_of=glue_clauses)
        stats["glue"] = {"states": gstates, "transitions": gtrans, "chains": len(gcases),
                         "max_depth": max(c["d"] for c in gcases),
                         "chains_after_an_earlier_computation": sum(1 for c in gcases if c.get("prior", "none") != "none"),
                         "chains_retrieved_several_times": sum(1 for c in gcases if c.get("retr", ["call"]) != ["call"]),
                         "chains_with_generated_functions": sum(1 for c in gcases if c.get("nosrc")),
                         "chains_with_a_hand_over": sum(1 for c in gcases if c.get("hand", -5) != -5),
                         "caught_retrievals": sum(len(c.get("sights", [])) for c in gcases),
                         "earlier_computation_kinds": sorted({c.get("prior", "none") for c in gcases}),
                         "chains_reaching_caller_with_error": sum(1 for c in gcases if c["outcome"][0] == "err"),
                         "stack_probes": sum(len(c["probes"]) for c in gcases), "mismatches": mis_a}
        small = [c for c in gcases if c["d"] <= 4]
        samples += [small[0], small[len(small) // 2]]
        nglue = len(gcases)
        nglue_nontriv = sum(1 for c in gcases if any(x != "pass" for x in c["mode"]))
        del gcases

        # ------------------------------------------------------------------ (c) totality
        res_c = run_model("DiagLife", sc, {"DEPTH": "5" if quick else "7"})
        if sat.model_alarm(res_c):
            alarms.append("DiagLife: " + sat.model_alarm(res_c))
        lcases = []
        declared = set()
        for v in printed_lines(res_c):
            if "pairs" in v:
                declared = {tuple(p) for p in v["pairs"]}
            elif "kind" in v:
                v["part"] = "life"
                lcases.append(v)
        if not lcases or not declared:
            raise MachineryError("DiagLife.tla exported nothing")
        visited = {(c["kind"], o["st"]) for c in lcases for o in c["h"] if c["kind"] != "format_error"}
        if visited != declared:
            raise MachineryError("lifecycle states not all visited at this depth: %s" % sorted(declared - visited))

        def life_clauses(c, m):
            out = set()
            for j in m["diff"]:
                g = m["got"][j] if isinstance(m["got"], list) and isinstance(j, int) and j < len(m["got"]) else ["?"]
                if c["kind"] == "format_error":
                    out.add(("C18.format_error", c["cell"]["exc"] + ("+tb" if c["cell"]["tb"] == "yes" else "")))
                elif g and g[0] == "raised":
                    for name, _ in g[1]:
                        vk = c.get("val", "-")
                        out.add(("C18.total", "%s.%s%s" % (c["kind"], name, "" if vk in ("-", "int") else "/" + vk)))
                else:
                    raise MachineryError("life replay did not reach step %s of %s: %s" % (j, json.dumps(c)[:300], g))
            return sorted(out)

        mis_c = replay_all("life", lcases, clause_of=life_clauses)
        fe = [c for c in lcases if c["kind"] == "format_error"]
        stats["life"] = {"states": res_c.distinct, "transitions": res_c.generated, "histories": len(lcases) - len(fe),
                         "kind_state_pairs": len(visited), "object_kinds": sorted({k for k, _ in visited}),
                         "value_kinds": sorted({c.get("val", "-") for c in lcases} - {"-"}),
                         "histories_with_a_held_value": sum(1 for c in lcases if c.get("val", "-") != "-"),
                         "format_error_cells": len(fe), "mismatches": mis_c}
        samples += [c for c in lcases if c["kind"] == "task"][-1:] + fe[:1]

        if alarms and not verdict.violations:
            raise MachineryError("; ".join(alarms) + " but the real code follows every prescription: the model is wrong")
        cov = {
            "states": res_b.distinct + gstates + res_c.distinct,
            "transitions": res_b.generated + gtrans + res_c.generated,
            "traces_validated_against_impl": total,
            "samples": samples,
            "parts": stats, "builds": list(builds), "model_ok": not alarms,
            "model_invariants": {"Diag": ["OnlyCompleteRunsCollapsed", "EveryCompleteRunCollapsed", "KeptLinesInOrder", "LinesAccountedFor",
                                          "SomeOutput", "GreedyAdmissible", "UniqueUnlessOverlap", "NoRunNoChange"],
                                 "DiagGlue": ["Glued", "GluedAtCaller", "StackIsCreatorChain", "OwnTasksOnly", "IdleBetweenComputations", "RetrievalsGlued", "AllRetrieved", "CaughtMeansValue", "EveryLevelProbed"],
                                 "DiagLife": ["DiagnosticsTotal", "FormatErrorTotal", "StateDeclared", "all states reachable (ASSUME)"]},
            "evaluations": total,
            "distinct_nontrivial": stats["filter"]["texts_with_complete_runs"] + nglue_nontriv + len(visited) + len(fe),
            "rule": "filter: every text of <= %s lines over 12 line classes, <= %s lines over {c,g,v,f}, <= %s blocks out of 30 "
                    "(full runs, proper prefixes/suffixes, foreign line); glue: every chain of depth <= %s x raising level x handler "
                    "modes x sync x style x outer%s, chains of depth <= %s also after each of 6 kinds of earlier computation on the thread (error handled by a task / by the caller), chains of depth <= %s asked for their outcome several times, chains of depth <= %s with generated (source-less) functions at one level / at every level, chains of depth <= %s with a hand-over (creator chain differs from the await chain) at every level; life: every operation history of 14 object kinds to depth %s + 88 format_error "
                    "cells; non-trivial = text with a complete run / chain with a handler / distinct (kind,state) / cell"
                    % (env_get(stats, "max_lines"), env_get(stats, "max_short_lines"), env_get(stats, "max_blocks"),
                       "6" if quick else "8", "" if quick else " + depths 25..200", "4" if quick else "5", "4" if quick else "5", "4" if quick else "5", "5" if quick else "6", "5" if quick else "7"),
            "exhaustive": True,
            "counts": {"filter_texts": nfilter, "glue_chains": nglue, "life_histories": len(lcases)},
        }
        rc = verdict.finish()
        common.write_evidence(PID, "model_checking", cov, time.time() - t0, violations=len(verdict.violations),
                              assumptions=["a traceback line is abstracted to the set of asynq's 11 pattern strings it contains; 12 line classes "
                                           "(each pattern's genuine line + a foreign line), lines containing patterns of two different runs are not enumerated",
                                           "where complete runs overlap the property does not say which is collapsed: any maximal choice is accepted",
                                           "tracebacks are projected to the harness functions' frames (asynq-internal frames ignored, adjacent duplicates of one frame collapsed); "
                                           "nothing is prescribed for __context__/__cause__",
                                           "lifecycle machines are bounded by the history depth; object kinds and states as tabled in DiagLife.tla",
                                           "TLC and the replay harness are trusted"], tier_=tier)
        return rc


def env_get(stats, k):
    return stats["filter"][k]


if __name__ == "__main__":
    common.main_wrapper(main)
