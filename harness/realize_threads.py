"""C16: run P-lang programs on several real threads at once (tiny switch interval, barrier start) and, for
comparison, each one alone.  stdin: {"jobs": [{"id":..., "progs": [P1..Pn], "options": {...}|null, "rounds": r}]}
stdout: [{"id":..., "solo": [[events]..], "conc": [[[events] per thread] per round], "prof": ...}]"""
import json
import os
import sys
import threading

devnull = open(os.devnull, "w")
real_out = os.fdopen(os.dup(1), "w")
os.dup2(devnull.fileno(), 1)
os.dup2(devnull.fileno(), 2)
sys.stdout = devnull

import realize
from asynq import _debug, profiler


def run_one(prog, shared, out, idx, barrier, profiling):
    run = realize.Run(prog, shared_dfns=shared)
    realize._tls.run = run
    if barrier is not None:
        barrier.wait()
    try:
        run.run()
        crash = None
    except BaseException as e:
        crash = "%s: %s" % (type(e).__name__, e)
    run.finished = True
    out[idx] = {"events": list(run.events), "crash": crash, "nprof": getattr(run, "nprof", -1),
                "prof": getattr(run, "prof_names", [])}


HUNG = [False]


def bridge_thread(stop, started, box):
    """one more thread that is INSIDE the asyncio bridge (fn.asyncio() awaited on its own event loop) for as long as the
    other threads run their classic asynq computations: asyncio mode is a property of that thread's context only"""
    import asyncio
    import asynq

    @asynq.asynq()
    def holder():
        started.set()
        n = 0
        while not stop.is_set():
            yield asyncio.sleep(0.0003)
            n += 1
        return n

    loop = asyncio.new_event_loop()
    try:
        box["n"] = loop.run_until_complete(holder.asyncio())
    except BaseException as e:
        box["crash"] = "%s: %s" % (type(e).__name__, e)
        started.set()
    finally:
        loop.close()


def in_threads(progs, shared, profiling, concurrent, bridge=False):
    out = [None] * len(progs)
    import time
    if concurrent:
        stop, started, box = threading.Event(), threading.Event(), {}
        bt = None
        if bridge:
            bt = threading.Thread(target=bridge_thread, args=(stop, started, box), daemon=True)
            bt.start()
            started.wait(10)
        barrier = threading.Barrier(len(progs))
        # all workers carry the SAME thread name: a thread's identity is the thread, not what it is called
        ths = [threading.Thread(target=run_one, args=(p, shared, out, i, barrier, profiling), daemon=True, name="worker") for i, p in enumerate(progs)]
        for t in ths:
            t.start()
        deadline = time.time() + 30
        for t in ths:
            t.join(max(0.1, deadline - time.time()))
        for i, t in enumerate(ths):
            if t.is_alive():
                HUNG[0] = True
                out[i] = {"events": [{"e": "Hang"}], "crash": "thread did not finish", "nprof": 0}
        if bt is not None:
            stop.set()
            bt.join(10)
            if bt.is_alive() or "crash" in box:
                raise RuntimeError("the bridge thread of the harness failed: %s" % box.get("crash", "still alive"))
    else:
        for i, p in enumerate(progs):
            t = threading.Thread(target=run_one, args=(p, shared, out, i, None, profiling), daemon=True)
            t.start()
            t.join(30)
            if t.is_alive():
                HUNG[0] = True
                out[i] = {"events": [{"e": "Hang"}], "crash": "thread did not finish", "nprof": 0}
    return out


def main():
    req = json.load(sys.stdin)
    realize.THREAD_YIELD = True
    sys.setswitchinterval(1e-6)
    res = []
    for job in req["jobs"]:
        opts = job.get("options") or {}
        saved = {}
        for k, v in opts.items():
            saved[k] = getattr(_debug.options, k)
            setattr(_debug.options, k, v)
        profiling = bool(opts.get("COLLECT_PERF_STATS"))
        try:
            shared = {}
            solo = in_threads(job["progs"], shared, profiling, False)
            conc = []
            for rnd in range(job.get("rounds", 3)):
                if HUNG[0]:
                    break
                # every other round: one more thread sits inside the asyncio bridge meanwhile
                conc.append(in_threads(job["progs"], shared, profiling, True, bridge=rnd % 2 == 1))
        finally:
            for k, v in saved.items():
                setattr(_debug.options, k, v)
        # the main thread ran no computation of its own: nothing of the workers' profiling may have landed in its buffer
        foreign = [str(x.get("name")).split("(")[0][:60] for x in profiler.flush()]
        res.append({"id": job["id"], "solo": solo, "conc": conc, "main_prof": foreign})
        if HUNG[0]:
            break        # a runaway thread is still alive: report what we have and leave (remaining jobs are dropped)
    json.dump(res, real_out, separators=(",", ":"))
    real_out.flush()
    os._exit(0)


main()
