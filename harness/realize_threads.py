"""C16: run P-lang programs on several real threads at once (tiny switch interval, barrier start) and, for
comparison, each one alone.  stdin: {"jobs": [{"id":..., "progs": [P1..Pn], "options": {...}|null, "rounds": r}]}
stdout: [{"id":..., "solo": [[events]..], "conc": [[[events] per thread] per round], "prof": ...}]"""
import json
import os
import sys
import threading

devnull = open(os.devnull, "w")
real_out = os.fdopen(os.dup(1), "w")
os.dup2(devnull.fileno(), 1)
os.dup2(devnull.fileno(), 2)
sys.stdout = devnull

import realize
from asynq import _debug, profiler


def run_one(prog, shared, out, idx, barrier, profiling):
    run = realize.Run(prog, shared_dfns=shared)
    realize._tls.run = run
    if barrier is not None:
        barrier.wait()
    try:
        run.run()
        crash = None
    except BaseException as e:
        crash = "%s: %s" % (type(e).__name__, e)
    run.finished = True
    out[idx] = {"events": list(run.events), "crash": crash, "nprof": getattr(run, "nprof", -1),
                "prof": getattr(run, "prof_names", [])}


HUNG = [False]


def in_threads(progs, shared, profiling, concurrent):
    out = [None] * len(progs)
    import time
    if concurrent:
        barrier = threading.Barrier(len(progs))
        ths = [threading.Thread(target=run_one, args=(p, shared, out, i, barrier, profiling), daemon=True) for i, p in enumerate(progs)]
        for t in ths:
            t.start()
        deadline = time.time() + 30
        for t in ths:
            t.join(max(0.1, deadline - time.time()))
        for i, t in enumerate(ths):
            if t.is_alive():
                HUNG[0] = True
                out[i] = {"events": [{"e": "Hang"}], "crash": "thread did not finish", "nprof": 0}
    else:
        for i, p in enumerate(progs):
            t = threading.Thread(target=run_one, args=(p, shared, out, i, None, profiling), daemon=True)
            t.start()
            t.join(30)
            if t.is_alive():
                HUNG[0] = True
                out[i] = {"events": [{"e": "Hang"}], "crash": "thread did not finish", "nprof": 0}
    return out


def main():
    req = json.load(sys.stdin)
    sys.setswitchinterval(1e-6)
    res = []
    for job in req["jobs"]:
        opts = job.get("options") or {}
        saved = {}
        for k, v in opts.items():
            saved[k] = getattr(_debug.options, k)
            setattr(_debug.options, k, v)
        profiling = bool(opts.get("COLLECT_PERF_STATS"))
        try:
            shared = {}
            solo = in_threads(job["progs"], shared, profiling, False)
            conc = []
            for _ in range(job.get("rounds", 3)):
                if HUNG[0]:
                    break
                conc.append(in_threads(job["progs"], shared, profiling, True))
        finally:
            for k, v in saved.items():
                setattr(_debug.options, k, v)
        res.append({"id": job["id"], "solo": solo, "conc": conc})
        if HUNG[0]:
            break        # a runaway thread is still alive: report what we have and leave (remaining jobs are dropped)
    json.dump(res, real_out, separators=(",", ":"))
    real_out.flush()
    os._exit(0)


main()
