"""C16: computations on different threads never interfere.

Design level: Threads.tla (N interleaved copies of an abstract computation over thread-local cells; TLC checks
C16_own for all interleavings, and that sharing any one cell breaks it).  Implementation level: P-lang programs
(using asynq's DebugBatchItem whose registry is thread-local, one deduplicated function object shared by all
threads, profiling on) run on 2-16 real threads at once (switch interval 1us, barrier start, several rounds);
every thread's trace is validated by TLC against the monitor TraceObs.tla (whose abstract state knows only that
thread's objects) and must equal the trace of the same program run alone."""
import argparse
import json
import os
import subprocess
import sys
import time

sys.path.insert(0, os.path.dirname(os.path.abspath(__file__)))
import common
import pipeline
import plang
from common import MachineryError, PY, Scratch, VERIF, Verdict, pyenv

PID = "C16"


def thread_jobs(tier, seed):
    jobs = []
    profs = ["dedup", "dedupdirty", "ctxsync", "syncfaults", "session", "overridesync", "ival"]
    n = 3 if tier == "quick" else 20
    jid = 0
    for nthreads in (2, 4, 8, 16):
        for prof in profs:
            own = prof == "ival"          # this family uses the harness's own batch classes, two kinds (see "monitor" below)
            base = dict(plang.PROFILES[prof], nkinds=(2, 2) if own else (1, 1), ntasks=(4, 9))
            for i in range(n):
                import random
                rng = random.Random("c16/%s/%d/%d/%d" % (prof, seed, nthreads, i))
                same = plang.Gen(rng, base).build()
                if not own:
                    same["kinds"][0].update(impl="debug", flush="ok")
                else:
                    same["kinds"][0]["base"], same["kinds"][1]["base"] = 0, 1      # no ties: the flush order is determined
                if i % 2 == 0:
                    progs = [same] * nthreads            # the same program (same dedup keys) on every thread
                else:
                    progs = []
                    for h in range(nthreads):
                        p = plang.Gen(random.Random("c16/%s/%d/%d/%d/%d" % (prof, seed, nthreads, i, h)), base).build()
                        if not own:
                            p["kinds"][0].update(impl="debug", flush="ok")
                        else:
                            p["kinds"][0]["base"], p["kinds"][1]["base"] = 0, 1
                        progs.append(p)
                jobs.append({"id": jid, "progs": progs, "options": {"COLLECT_PERF_STATS": True} if i % 3 != 2 else None,
                             # the built-in DebugBatch has no flush-begin observation point: when task code flushes it directly
                             # (item.value()), the monitor cannot tell the flush from a stray completion - compare with the solo run only
                             "monitor": True,
                             "rounds": 3 if tier == "quick" else 6})
                jid += 1
    return jobs


def main():
    ap = argparse.ArgumentParser()
    ap.add_argument("pid")
    ap.add_argument("--tier", default=None)
    ap.add_argument("--replay", default=None)
    a = ap.parse_args()
    tier = a.tier or common.tier()
    seed = common.seed()
    t0 = time.time()
    verdict = Verdict(PID)
    with Scratch("c16") as sc:
        # ---- design level -------------------------------------------------------------------------------------
        res = common.run_tlc("Threads", "Threads.cfg", sc, timeout=900)
        if res.timed_out or not (res.ok or res.invariant_violated):
            raise MachineryError("Threads.tla run failed:\n" + res.out[-2000:])
        model_ok = res.ok
        states, gen = res.distinct, res.generated
        nonvac = {}
        for c in ("stack", "active", "dbatch", "prof", "dedupkey"):
            r2 = common.run_tlc("Threads", "Threads_shared_%s.cfg" % c, sc, timeout=600, workers=4)
            nonvac[c] = bool(r2.invariant_violated)
            if not r2.invariant_violated:
                raise MachineryError("Threads.tla: sharing cell %s does not violate C16_own - the invariant is vacuous" % c)
        # ---- implementation level ----------------------------------------------------------------------------
        builds = {"pure": sc.build("pure")}
        if tier == "thorough":
            builds["cy"] = sc.build("cy")
        jobs = thread_jobs(tier, seed)
        if a.replay:
            case = json.load(open(a.replay))["case"]
            jobs = [{"id": 0, "progs": case["progs"], "options": case.get("options"), "rounds": 10}]
        traces = []
        nthread_runs = 0
        for bname, bdir in builds.items():
            # a few processes in parallel, each running whole jobs (threads inside)
            chunks = [jobs[i::4] for i in range(4)]
            procs = []
            for ch in chunks:
                if not ch:
                    continue
                p = subprocess.Popen([PY, "-W", "ignore", os.path.join(VERIF, "harness", "realize_threads.py")],
                                     stdin=subprocess.PIPE, stdout=subprocess.PIPE, stderr=subprocess.PIPE, text=True, env=pyenv(bdir),
                                     preexec_fn=common.limit_resources(4))
                procs.append((p, ch))
            outs = []
            for p, ch in procs:
                p.stdin.write(json.dumps({"jobs": ch}))
                p.stdin.close()
            for p, ch in procs:
                out = p.stdout.read()
                err = p.stderr.read()
                rc = p.wait(timeout=1800)
                if rc != 0:
                    raise MachineryError("realize_threads failed rc=%d: %s" % (rc, err[-2000:]))
                outs += json.loads(out)
            byid = {j["id"]: j for j in jobs}
            for r in outs:
                job = byid[r["id"]]
                solo_bad = [s for s in r["solo"] if s is None or s["crash"]]
                if solo_bad:
                    raise MachineryError("solo run crashed: %s" % (solo_bad[0] and solo_bad[0]["crash"]))
                if r.get("main_prof"):
                    verdict.report("C16.prof", "%dthreads" % len(job["progs"]),
                                   {"progs": job["progs"], "options": job["options"], "build": bname,
                                    "records_of_worker_threads_found_in_the_main_threads_profiler_buffer": r["main_prof"][:6]})
                for rd, conc in enumerate(r["conc"]):
                    for h, c in enumerate(conc):
                        if c is None:
                            continue
                        nthread_runs += 1
                        solo = r["solo"][h]
                        case = {"progs": job["progs"], "options": job["options"], "thread": h, "round": rd, "build": bname}
                        trig = "%dthreads" % len(job["progs"])
                        if c["crash"]:
                            verdict.report("C16.crash", trig, dict(case, crash=c["crash"]))
                            continue
                        if pipeline.strip_prio(c["events"]) != pipeline.strip_prio(solo["events"]):
                            ev, d = pipeline.strip_prio(c["events"]), pipeline.strip_prio(solo["events"])
                            k = next((x for x in range(min(len(ev), len(d))) if ev[x] != d[x]), min(len(ev), len(d)))
                            verdict.report("C16.same", trig, dict(case, first_difference_at=k,
                                                                 alone=d[k] if k < len(d) else "END", concurrent=ev[k] if k < len(ev) else "END"))
                        if c["nprof"] != solo["nprof"]:
                            verdict.report("C16.prof", trig, dict(case, alone=solo["nprof"], concurrent=c["nprof"]))
                        elif c.get("prof") != solo.get("prof"):
                            # the profile records (names carry the per-thread task / item counters) are this thread's own
                            verdict.report("C16.prof", trig, dict(case, alone=solo.get("prof", [])[:6], concurrent=c.get("prof", [])[:6]))
                        if job.get("monitor", True):
                            traces.append({"id": len(traces), "prog": job["progs"][h], "events": c["events"], "case": case, "trig": trig})
        v, st = pipeline.validate(traces, sc)
        nobs = 0
        for t in traces:
            for entry in v[t["id"]]:
                nobs += 1
                verdict.report("C16.obs." + pipeline.clause_of(entry), t["trig"], dict(t["case"], entry=entry))
        nt = sum(1 for t in traces if sum(1 for e in t["events"] if e["e"] == "Before") >= 1 and len(t["case"]["progs"]) >= 4)
        cov = {
            "states": states, "transitions": gen, "traces_validated_against_impl": len(traces),
            "samples": [{"threads": len(t["case"]["progs"]), "thread": t["case"]["thread"], "program": t["prog"], "events_head": t["events"][:10]} for t in traces[:2]],
            "threads_model": {"N": 3, "C16_own": model_ok, "violated_when_cell_shared": nonvac},
            "thread_runs": nthread_runs, "jobs": len(jobs), "thread_counts": [2, 4, 8, 16], "builds": list(builds),
            "monitor_states": st["states"], "monitor_clause_violations": nobs,
            "evaluations": nthread_runs, "distinct_nontrivial": nt,
            "rule": "one case = one thread's run of a program while 1..15 other threads run asynq programs; non-trivial = >= 4 threads and the run flushed a batch",
            "exhaustive": False,
        }
        if not model_ok:
            raise MachineryError("Threads.tla violates C16_own with no shared cell:\n" + res.out[-2000:])
        rc = verdict.finish()
        common.write_evidence(PID, "model_checking", cov, time.time() - t0, violations=len(verdict.violations),
                              assumptions=["TLC enumerates all interleavings of the abstract model (3 threads); the real OS interleavings are sampled (switch interval 1us, barrier start, repeated rounds)",
                                           "each thread's trace is judged by the single-thread monitor specification and by equality with its solo run",
                                           "programs use one batch kind so that runs are deterministic"], tier_=tier)
        return rc


if __name__ == "__main__":
    common.main_wrapper(main)
