"""C10: Future.tla histories (TLC, exhaustive to a depth) replayed into the real futures."""
import argparse
import json
import os
import sys
import time

sys.path.insert(0, os.path.dirname(os.path.abspath(__file__)))
import common
import sat
from common import MachineryError, Scratch, Verdict

PID = "C10"


def main():
    ap = argparse.ArgumentParser()
    ap.add_argument("pid")
    ap.add_argument("--tier", default=None)
    ap.add_argument("--replay", default=None)
    a = ap.parse_args()
    tier = a.tier or common.tier()
    t0 = time.time()
    verdict = Verdict(PID)
    with Scratch("c10") as sc:
        builds = {"pure": sc.build("pure")}
        if tier == "thorough":
            builds["cy"] = sc.build("cy")
        if a.replay:
            case = json.load(open(a.replay))["case"]
            mism, _ = sat.replay(builds[case.get("build", "pure")] if case.get("build", "pure") in builds else builds["pure"],
                                 "replay_c10.py", [case["history"]], nproc=1)
            print(json.dumps(mism, indent=1))
            if mism:
                print("VIOLATION property=%s replay=%s" % (PID, a.replay))
            return 1 if mism else 0
        depth = 4 if tier == "quick" else 5
        hs, res = sat.tlc_histories("Future", "Future.cfg", sc, env={"DEPTH": str(depth)})
        alarm = sat.model_alarm(res)
        cases = [{"kind": h["kind"], "h": h["h"]} for h in hs if "h" in h]
        if not cases:
            raise MachineryError("TLC exported no histories:\n" + res.out[-2000:])
        total = 0
        nmis = 0
        for bname, bdir in builds.items():
            mism, n = sat.replay(bdir, "replay_c10.py", cases)
            total += n
            nmis += len(mism)
            for m in mism:
                c = cases[m["i"]]
                j = m["diff"][0] if isinstance(m["diff"], list) and m["diff"] else 0
                op = c["h"][j]["op"] if j < len(c["h"]) else "?"
                verdict.report("C10." + op, c["kind"], {"history": c, "got": m["got"], "first_diff": j, "build": bname})
        # futures inside running computations: the scheduler-level clauses of C10 (one completion per future, the provider
        # of a lazily computed Future runs at most once - also when the same future is yielded twice or re-yielded)
        import pipeline
        import plang
        cprogs = plang.sample("again", common.seed(), 300 if tier == "quick" else 3000) + \
            plang.sample("lazyfail", common.seed(), 150 if tier == "quick" else 1500)
        cjobs = [{"id": i, "prog": p, "schedule": None, "tb": i if i % 2 else None} for i, p in enumerate(cprogs)]
        ctraces = []
        for bname, bdir in builds.items():
            for j, r in zip(cjobs, pipeline.run_jobs(bdir, cjobs)):
                if r.get("crash"):
                    raise MachineryError("harness crashed: %s" % r["crash"])
                ctraces.append({"id": len(ctraces), "prog": j["prog"], "events": r["events"], "build": bname, "tb": j["tb"]})
        cv, cst = pipeline.validate(ctraces, sc)
        ncore = 0
        for t in ctraces:
            for entry in cv[t["id"]]:
                cl = pipeline.clause_of(entry)
                if cl.startswith("C10."):
                    ncore += 1
                    verdict.report(cl, "in-computation", {"prog": t["prog"], "tb": t["tb"], "build": t["build"], "entry": entry})
        total += len(ctraces)
        if alarm and not verdict.violations:
            raise MachineryError(alarm + " on Future.tla but the real objects follow every prescribed history: the model is wrong\n" + res.out[-2000:])
        kinds = sorted({c["kind"] for c in cases})
        nontriv = sum(1 for c in cases if any(o["op"] in ("set_value", "set_error", "reset_unsafe") for o in c["h"]) and
                      any(o["op"] in ("value", "call", "error") for o in c["h"]))
        cov = {
            "states": res.distinct, "transitions": res.generated, "traces_validated_against_impl": total,
            "samples": cases[:2] + cases[len(cases) // 2: len(cases) // 2 + 1],
            "history_depth": depth, "histories": len(cases), "object_kinds": kinds, "builds": list(builds),
            "model_invariants": ["SingleAssignment", "AtMostOneRun", "NotifiedOncePerCompletion", "NotifiedOnlyWhenComplete", "AllNotified", "BornComplete"],
            "model_ok": res.ok, "mismatching_histories": nmis, "in_computation_traces": len(ctraces), "in_computation_clause_violations": ncore,
            "monitor_states": cst["states"],
            "evaluations": total, "distinct_nontrivial": nontriv,
            "rule": "every operation history of length %d over 12 operations x 8 object kinds; non-trivial = contains a set/reset and a read" % depth,
            "exhaustive": True,
        }
        rc = verdict.finish()
        common.write_evidence(PID, "model_checking", cov, time.time() - t0, violations=len(verdict.violations),
                              assumptions=["histories are bounded by depth %d; one object per history" % depth,
                                           "after reset_unsafe() nothing is prescribed for tasks, batches and items (their computation cannot be repeated)",
                                           "TLC and the replay harness are trusted"], tier_=tier)
        return rc


if __name__ == "__main__":
    common.main_wrapper(main)
