"""Runs the real asynq.tools helpers on the cells enumerated by Helpers.tla (inside the build under test), compares
with the prescribed output, counts scheduler flushes, and cross-checks the prescription against the Python built-in."""
import itertools
import json
import os
import sys

devnull = open(os.devnull, "w")
real_out = os.fdopen(os.dup(1), "w")
os.dup2(devnull.fileno(), 1)
sys.stdout = devnull
os.dup2(devnull.fileno(), 2)

import asynq
from asynq import asynq as asynq_deco
from asynq import async_proxy
from asynq.decorators import make_async_decorator
from asynq.batching import DebugBatchItem
from asynq import tools


class El(object):
    """an element with a key and an identity, no ordering (El < El raises TypeError), truthy iff k > 0"""
    __slots__ = ("k", "p")

    def __init__(self, k, p):
        self.k = k
        self.p = p

    def __bool__(self):
        return self.k > 0

    def __repr__(self):
        return "El(%d,%d)" % (self.k, self.p)


class Rec(El):
    """like El, but every two records compare equal and hash alike (a permissive __eq__)"""
    __slots__ = ()

    def __eq__(self, other):
        return isinstance(other, Rec)

    def __ne__(self, other):
        return not isinstance(other, Rec)

    def __hash__(self):
        return 7


EQ = {"eq1": [1, True, 1.0], "eq0": [0, False, 0.0]}     # key 0/1/2 -> equal (==) values of different types
TYPE_KEY = {int: 0, bool: 1, float: 2}
KIND = ["obj"]                                             # element kind of the cell being run


class L1(Exception):
    __bool__ = lambda self: False       # unusual but legal: a falsy exception object

    pass


class L2(Exception):
    __bool__ = lambda self: False       # unusual but legal: a falsy exception object

    pass


class Unlisted(Exception):
    __bool__ = lambda self: False       # unusual but legal: a falsy exception object

    pass


def ksync(e):
    if e is None:
        return 1
    if isinstance(e, El):
        return e.k
    if KIND[0] in EQ:
        return TYPE_KEY[type(e)]         # 1 / True / 1.0 are equal; the key function tells them apart
    return e


def msync(e):
    return ksync(e) + 10


@asynq_deco()
def kplain(e):
    return ksync(e)


@asynq_deco()
def kblock(e):
    yield DebugBatchItem()
    return ksync(e)


@asynq_deco()
def mplain(e):
    return msync(e)


@asynq_deco()
def mblock(e):
    yield DebugBatchItem()
    return msync(e)


def elements(cell):
    out = []
    for p, k in enumerate(cell["xs"], 1):
        if k == -1:
            out.append(None)
        elif cell["ek"] == "int":
            out.append(k)
        elif cell["ek"] in EQ:
            out.append(EQ[cell["ek"]][k])
        elif cell["ek"] == "rec":
            out.append(Rec(k, p))
        else:
            out.append(El(k, p))
    return out


def iterable(elems, kind):
    """list / tuple are re-iterable; every other kind is a ONE-SHOT iterator of a different type"""
    if kind == "list":
        return list(elems)
    if kind == "tuple":
        return tuple(elems)
    if kind in ("gen", "iter"):          # "iter": old name of the generator kind in stored replay files
        return (e for e in elems) if kind == "gen" else iter(list(elems))
    if kind == "map":
        return map(lambda e: e, list(elems))
    if kind == "reversed":
        return reversed(list(elems)[::-1])
    if kind == "chain":
        h = len(elems) // 2
        return itertools.chain(list(elems[:h]), tuple(elems[h:]))
    raise ValueError(kind)


def enc(e):
    if e is None:
        return [-1, 0]
    if isinstance(e, El):
        return [e.k, e.p]
    if KIND[0] in EQ and type(e) in TYPE_KEY:
        return [TYPE_KEY[type(e)], 0]
    if type(e) is int:
        return [e, 0]
    return ["?", repr(e)]


def outcome(thunk, shape):
    try:
        v = thunk()
    except (L1, L2):
        return ["err", "Listed"]
    except Exception as e:
        return ["err", type(e).__name__]
    try:
        if shape == "one":
            return ["val", [enc(v)]]
        if shape == "two":
            yes, no = v
            return ["val2", [enc(e) for e in yes], [enc(e) for e in no]]
        if shape == "ints":             # amap's results are the function's answers, not elements
            return ["val", [[x, 0] if type(x) is int else ["?", repr(x)] for x in v]]
        if shape == "const":
            return ["val", [[7, 0]]] if v == ("ok", 3) else ["odd", repr(v)]
        return ["val", [enc(e) for e in v]]
    except Exception as e:
        return ["odd", "%s: %s" % (type(e).__name__, e)]


def run_cell(cell):
    """returns (got by the helper, got by the built-in or None)"""
    h, fk = cell["h"], cell["fk"]
    KIND[0] = cell["ek"]
    elems = elements(cell)
    afn = {"none": None, "plain": kplain, "block": kblock}.get(fk)
    sfn = None if fk == "none" else ksync
    flushes = [0]
    execs = [0]

    def on_flush(batch):
        flushes[0] += 1

    asynq.scheduler.reset()
    hook = asynq.scheduler.get_scheduler().on_before_batch_flush
    hook.subscribe(on_flush)
    try:
        if h == "aretry":
            k, mt, x = cell["k"], cell["mt"], cell["x"]
            listed = L1 if cell["ec"] == "one" else (L1, L2)

            def fail_or_answer(arg):
                execs[0] += 1
                if execs[0] <= k:
                    raise (L2 if cell["ec"] == "tuple" and execs[0] % 2 else L1)("attempt %d" % execs[0])
                if x == "unlisted":
                    raise Unlisted()
                return ("ok", arg)

            @asynq_deco()
            def passthrough(v):
                return v

            @asynq_deco()
            def plain_body(arg):
                return fail_or_answer(arg)

            at_call = cell["form"] == "call"
            if fk == "block":                       # @asynq generator body
                @asynq_deco()
                def target(arg):
                    yield DebugBatchItem()
                    return fail_or_answer(arg)
            elif fk == "plain":                     # @asynq plain body
                target = plain_body
            elif fk == "proxy":                     # @async_proxy(): runs at call time and returns a future
                if at_call:
                    @async_proxy()
                    def target(arg):
                        return passthrough.asynq(fail_or_answer(arg))
                else:
                    @async_proxy()
                    def target(arg):
                        return plain_body.asynq(arg)
            else:                                   # a make_async_decorator wrapper around an @asynq function
                if at_call:
                    def wrapper_fn(arg):
                        return passthrough.asynq(fail_or_answer(arg))
                else:
                    def wrapper_fn(arg):
                        return plain_body.asynq(arg)
                target = make_async_decorator(plain_body, wrapper_fn, "verif_wrapper")

            def thunk():
                fn = tools.aretry(listed, max_tries=mt, sleep=0)(target)
                return fn(3)
            return {"res": outcome(thunk, "const"), "flushes": flushes[0], "execs": execs[0]}, None

        it = lambda: iterable(elems, cell["it"])
        shape = "list"
        if h == "amap":
            f = mplain if fk == "plain" else mblock
            shape = "ints"
            thunk, ref = (lambda: tools.amap(f, it())), (lambda: list(map(msync, it())))
        elif h == "afilter":
            thunk, ref = (lambda: tools.afilter(afn, it())), (lambda: list(filter(sfn, it())))
        elif h == "afilterfalse":
            thunk, ref = (lambda: tools.afilterfalse(afn, it())), (lambda: list(itertools.filterfalse(sfn, it())))
        elif h == "asift":
            shape = "two"
            thunk = lambda: tools.asift(afn, it())

            def ref():
                xs = list(it())
                return ([e for e in xs if sfn(e)], [e for e in xs if not sfn(e)])
        elif h == "asorted":
            rev = bool(cell["rev"])
            thunk, ref = (lambda: tools.asorted(it(), key=afn, reverse=rev)), (lambda: sorted(it(), key=sfn, reverse=rev))
        else:
            shape = "one"
            helper, builtin = (tools.amax, max) if h == "amax" else (tools.amin, min)
            form = cell["form"]
            akw = {} if afn is None else {"key": afn}
            skw = {} if sfn is None else {"key": sfn}
            if form == "one":
                thunk, ref = (lambda: helper(it(), **akw)), (lambda: builtin(it(), **skw))
            elif form == "var":
                thunk, ref = (lambda: helper(*elems, **akw)), (lambda: builtin(*elems, **skw))
            elif form == "zero":
                thunk, ref = (lambda: helper(**akw)), (lambda: builtin(**skw))
            else:
                thunk, ref = (lambda: helper(it(), bogus=1, **akw)), (lambda: builtin(it(), bogus=1, **skw))
        got = outcome(thunk, shape)
        n = flushes[0]
        return {"res": got, "flushes": n, "execs": 0}, outcome(ref, shape)
    finally:
        hook.unsubscribe(on_flush)


def main():
    cases = json.load(sys.stdin)
    out = []
    for i, c in enumerate(cases):
        want = c["out"]
        try:
            got, ref = run_cell(c["cell"])
        except BaseException as e:
            import traceback
            out.append({"i": i, "got": "harness exception %s: %s %s" % (type(e).__name__, e, traceback.format_exc()[-600:]), "diff": ["harness"]})
            continue
        diff = []
        if ref is not None and ref != want["res"]:
            diff.append("spec")             # the transcription disagrees with the built-in: Helpers.tla is wrong
        if got["res"] != want["res"]:
            diff.append("res")
        if want["flushes"] >= 0 and got["flushes"] != want["flushes"]:
            diff.append("flushes")
        if want["execs"] >= 0 and got["execs"] != want["execs"]:
            diff.append("execs")
        if diff:
            got["builtin"] = ref
            out.append({"i": i, "got": got, "diff": diff})
    out.append({"n": len(cases)})
    json.dump(out, real_out)
    real_out.flush()


main()
