"""Replays the cells and histories exported by specs/ScopedCall.tla into the real asynq objects (inside the build
under test): asynq.tools.call_with_context around every kind of async callable, AsyncScopedValue / async_override
used directly.  Every read is compared with the prescribed value, and the final values with the prescribed ones.

stdin: JSON list of exported objects {"kind": "cell"|"hist", ...}; stdout: JSON list of mismatches
{"i", "got", "diff"} and {"n": count} last (the protocol of harness/sat.py)."""
import contextlib
import json
import os
import sys

devnull = open(os.devnull, "w")
real_out = os.fdopen(os.dup(1), "w")
os.dup2(devnull.fileno(), 1)
sys.stdout = devnull
os.dup2(devnull.fileno(), 2)

import asynq
from asynq import asynq as asynq_deco
from asynq import async_proxy, async_call, ConstFuture
from asynq.batching import BatchBase, BatchItemBase
from asynq.decorators import make_async_decorator
from asynq.scoped_value import AsyncScopedValue, async_override
from asynq.tools import call_with_context

BASE = {1: 1, 2: 2}
OUT = 20
ANY = -1
MISSING = "absent"


class Boom(Exception):
    pass


class Holder(object):
    pass


class Bat(BatchBase):
    """the batch every blocking body of one case waits for (so that they interleave)"""

    def __init__(self, env):
        BatchBase.__init__(self)
        self.env = env

    def _try_switch_active_batch(self):
        if self.env.batch is self:
            self.env.batch = Bat(self.env)

    def _flush(self):
        for it in self.items:
            it.set_value(None)

    def _cancel(self):
        pass


class Item(BatchItemBase):
    def __init__(self, env):
        BatchItemBase.__init__(self, env.batch)


def enc(v):
    return v if type(v) is int else ["?", repr(v)[:60]]


class Env(object):
    """two slots: slot 1 (X) and slot 2 (Y); each an AsyncScopedValue or an attribute of one object"""

    def __init__(self, sk):
        k1, k2 = {"sv": ("sv", "sv"), "attr": ("attr", "attr"), "mix": ("sv", "attr")}[sk]
        self.kind = {1: k1, 2: k2}
        self.sv = {1: AsyncScopedValue(BASE[1]), 2: AsyncScopedValue(BASE[2])}
        self.obj = Holder()
        self.obj.a1 = BASE[1]
        self.obj.a2 = BASE[2]
        self.log = []
        self.batch = Bat(self)

    def ctx(self, s, v):
        if self.kind[s] == "sv":
            return self.sv[s].override(v)
        return async_override(self.obj, "a%d" % s, v)

    def get(self, s):
        if self.kind[s] == "sv":
            a = self.sv[s].get()
            b = self.sv[s]()            # calling the object is the same as get()
            return enc(a) if (a is b or a == b) else ["split", enc(a), enc(b)]
        return enc(getattr(self.obj, "a%d" % s, MISSING))

    def set(self, s, v):
        if self.kind[s] == "sv":
            self.sv[s].set(v)
        else:
            setattr(self.obj, "a%d" % s, v)

    def rd(self, label):
        self.log.append([label, self.get(1), self.get(2)])


# ------------------------------------------------------------------------------------------------ cells


def callee(env, i, B):
    """(fn, args, kwargs) to hand to call_with_context for the callee kind of branch i"""
    fk = B["fk"]
    pre = "b%d." % i
    rd = env.rd

    def tail(tag, fl):
        if fl:
            raise Boom(tag)

    @asynq_deco()
    def gen(tag, fl=0):
        rd(tag + "pre")
        yield Item(env)
        rd(tag + "post")
        tail(tag, fl)
        return 7

    @asynq_deco()
    def plain(tag, fl=0):
        rd(tag + "run")
        tail(tag, fl)
        return 7

    @async_proxy()
    def pconst(tag, fl=0):
        rd(tag + "call")
        tail(tag, fl)
        return ConstFuture(7)

    @async_proxy()
    def ptask(tag, fl=0):
        rd(tag + "call")
        return gen.asynq(tag, fl=fl)

    def wrapper_fn(tag, fl=0):
        rd(tag + "call")
        return gen.asynq(tag, fl=fl)

    def syncfn(tag, fl=0):
        rd(tag + "call")
        tail(tag, fl)
        return 7

    @asynq_deco(pure=True)
    def puregen(tag, fl=0):
        rd(tag + "pre")
        yield Item(env)
        rd(tag + "post")
        tail(tag, fl)
        return 7

    @asynq_deco()
    def own(tag, fl=0):
        rd(tag + "a")
        with env.ctx(1, 100 * i + 50):
            rd(tag + "b")
            yield Item(env)
            rd(tag + "c")
            tail(tag, fl)
        rd(tag + "d")
        return 7

    class K(object):
        @asynq_deco()
        def meth(self, tag, fl=0):
            rd(tag + "pre")
            yield Item(env)
            rd(tag + "post")
            tail(tag, fl)
            return 7

        @asynq_deco()
        @classmethod
        def cmeth(cls, tag, fl=0):
            rd(tag + "pre")
            yield Item(env)
            rd(tag + "post")
            tail(tag, fl)
            return 7

        @asynq_deco()
        @staticmethod
        def smeth(tag, fl=0):
            rd(tag + "pre")
            yield Item(env)
            rd(tag + "post")
            tail(tag, fl)
            return 7

    kw = {"fl": B["fail"]}
    if fk == "gen":
        return gen, (pre,), kw
    if fk == "plain":
        return plain, (pre,), kw
    if fk == "pconst":
        return pconst, (pre,), kw
    if fk == "ptask":
        return ptask, (pre,), kw
    if fk == "wrap":
        return make_async_decorator(gen, wrapper_fn, "verif_wrap"), (pre,), kw
    if fk == "acsync":
        return async_call, (syncfn, pre), kw
    if fk == "acpure":
        return async_call, (puregen, pre), kw
    if fk == "acgen":
        return async_call, (gen, pre), kw
    if fk == "own":
        return own, (pre,), kw
    if fk == "meth":
        return K().meth, (pre,), kw
    if fk == "cmeth":
        return K.cmeth, (pre,), kw
    if fk == "smeth":
        return K.smeth, (pre,), kw
    raise ValueError(fk)


def cwc_args(env, i, B):
    """positional arguments of call_with_context for branch i (one or two nested levels)"""
    fn, args, kw = callee(env, i, B)
    ov = B["ov"]
    if len(ov) == 1:
        return (env.ctx(ov[0], 100 * i + 30), fn) + tuple(args), kw
    return (env.ctx(ov[0], 100 * i + 30), call_with_context, env.ctx(ov[1], 100 * i + 31), fn) + tuple(args), kw


def branch_thunk(env, i, B):
    """a function creating the future of branch i (called by the parent at its yield)"""
    pre = "b%d." % i
    if B["b"] == "sib":
        if B["k"] == "plain":
            @asynq_deco()
            def sib():
                env.rd(pre + "s0")
        else:
            @asynq_deco()
            def sib():
                env.rd(pre + "s0")
                yield Item(env)
                env.rd(pre + "s1")
        return lambda: sib.asynq()
    if B["b"] == "cwc":
        def mk():
            a, kw = cwc_args(env, i, B)
            return call_with_context.asynq(*a, **kw)
        return mk

    @asynq_deco()
    def mid():                       # its own override open, a nested synchronous call inside it
        with env.ctx(1, 100 * i + 40):
            env.rd(pre + "m0")
            a, kw = cwc_args(env, i, B)
            call_with_context(*a, **kw)
            env.rd(pre + "m1")
    return lambda: mid.asynq()


def run_cell(cell):
    env = Env(cell["sk"])
    outer, catch, conv = cell["outer"], cell["catch"], cell["conv"]
    thunks = [branch_thunk(env, i + 1, B) for i, B in enumerate(cell["br"])]

    def outer_ctx():
        return env.ctx(1, OUT) if outer else contextlib.nullcontext()

    def awaited():
        fs = [t() for t in thunks]
        return fs[0] if len(fs) == 1 else tuple(fs)

    if conv == "yield":
        @asynq_deco()
        def root():
            with outer_ctx():
                env.rd("r0")
                if catch:
                    try:
                        yield awaited()
                    except Boom:
                        pass
                else:
                    yield awaited()
                env.rd("r1")
            env.rd("r2")
    else:
        B = cell["br"][0]

        def call():
            a, kw = cwc_args(env, 1, B)
            if conv == "sync":
                return call_with_context(*a, **kw)
            return call_with_context.asynq(*a, **kw).value()

        def root():
            with outer_ctx():
                env.rd("r0")
                if catch:
                    try:
                        call()
                    except Boom:
                        pass
                else:
                    call()
                env.rd("r1")
            env.rd("r2")
    err = "none"
    try:
        root()
    except Boom:
        err = "Boom"
    except Exception as e:
        err = "%s: %s" % (type(e).__name__, str(e)[:80])
    fin = [env.get(1), env.get(2)]

    @asynq_deco()
    def later():
        env.rd("later")
        yield Item(env)
        env.rd("later")
    try:
        later()
    except Exception as e:
        env.log.append(["later", "err", repr(e)[:60]])
    return {"reads": env.log, "fin": fin, "err": err}


def diff_cell(case, got):
    want = case["out"]
    diff = []
    seen = {}
    for l, x, y in got["reads"]:
        seen.setdefault(l, []).append([x, y])
    for r in want["reads"]:
        vals = seen.get(r["l"])
        if not vals:
            if r["must"]:
                diff.append("missing:" + r["l"])
            continue
        for v in vals:
            if v != [r["x"], r["y"]]:
                diff.append("read:" + r["l"])
                break
    if got["fin"] != want["fin"]:
        diff.append("final")
    for v in seen.get("later", []):
        if v != want["fin"]:
            diff.append("final:later")
            break
    return diff


# ------------------------------------------------------------------------------------------------ fresh attribute


def run_fresh(cell, val):
    """async_override of an attribute that does not exist: only 'back to what it was before' is prescribed"""
    conv = cell["conv"]
    env = Env("attr")
    o = Holder()
    seen = []

    def plain(v):
        return v if type(v) is int or v == MISSING else ["?", repr(v)[:60]]

    def look():
        seen.append(plain(getattr(o, "fresh", MISSING)))

    try:
        if conv == "plain":
            with async_override(o, "fresh", val):
                look()
        elif conv == "task":
            @asynq_deco()
            def t():
                with async_override(o, "fresh", val):
                    look()
                    yield Item(env)
                    look()

            @asynq_deco()
            def sib():
                yield Item(env)

            @asynq_deco()
            def root():
                yield t.asynq(), sib.asynq()
            root()
        elif conv == "cwc":
            @asynq_deco()
            def fn():
                look()
                yield Item(env)
                look()
            call_with_context(async_override(o, "fresh", val), fn)
        else:
            @async_proxy()
            def fn():
                look()
                return ConstFuture(1)
            call_with_context(async_override(o, "fresh", val), fn)
    except Exception:
        pass
    return {"reads": seen, "fin": plain(getattr(o, "fresh", MISSING))}


def diff_fresh(want, got):
    diff = []
    if any(v != want["inside"] for v in got["reads"]):
        diff.append("read:fresh")
    if got["fin"] != want["after"]:
        diff.append("final:fresh")
    return diff


# ------------------------------------------------------------------------------------------------ histories


def hist_source(ops, as_task):
    """the history as Python source: real with-statements, real try/except, real yields"""
    lines = []
    ind = 1
    opened = 0

    def emit(s):
        lines.append(" " * ind + s)

    for k, op in enumerate(ops, 1):
        o = op["op"]
        if o == "enter":
            emit("try:")
            ind += 1
            emit("with E.ctx(%d, %d):" % (op["s"], op["v"]))
            ind += 1
            opened += 1
        elif o in ("exit", "exiterr"):
            if o == "exiterr":
                emit("raise Boom()")
            ind -= 2
            emit("except Boom:")
            emit(" pass")
            opened -= 1
        elif o == "set":
            emit("E.set(%d, %d)" % (op["s"], op["v"]))
        elif o == "yield":
            if as_task:
                emit("yield Item(E)")
        emit("E.rd(%d)" % k)
    while opened:
        ind -= 2
        emit("except Boom:")
        emit(" pass")
        opened -= 1
    return "def body(E, Item, Boom):\n" + "\n".join(lines) + "\n"


_code_cache = {}


def hist_body(ops, as_task):
    src = hist_source(ops, as_task)
    key = src
    fn = _code_cache.get(key)
    if fn is None:
        ns = {}
        exec(compile(src, "<history>", "exec"), ns)
        fn = ns["body"]
        if len(_code_cache) > 20000:
            _code_cache.clear()
        _code_cache[key] = fn
    return fn


def run_hist(h, mode, sk):
    ops = h["ops"]
    outer = h["outer"]
    env = Env(sk)
    ny = sum(1 for op in ops if op["op"] == "yield")

    def outer_ctx():
        return env.ctx(1, OUT) if outer else contextlib.nullcontext()

    err = "none"
    try:
        if mode == "plain":
            body = hist_body(ops, False)
            with outer_ctx():
                body(env, Item, Boom)
                env.rd("r1")
        else:
            body = hist_body(ops, True)
            t = asynq_deco()(body)         # a generator function if the history yields, a plain function otherwise

            @asynq_deco()
            def sib():
                for k in range(ny + 1):
                    env.rd("sib")
                    yield Item(env)
                env.rd("sib")

            @asynq_deco()
            def root():
                with outer_ctx():
                    if mode == "task-first":
                        yield t.asynq(env, Item, Boom), sib.asynq()
                    else:
                        yield sib.asynq(), t.asynq(env, Item, Boom)
                    env.rd("r1")
            root()
    except Exception as e:
        err = "%s: %s" % (type(e).__name__, str(e)[:80])
    return {"reads": env.log, "fin": [env.get(1), env.get(2)], "err": err, "mode": mode, "sk": sk}


def agrees(got, want):
    return all(w == ANY or g == w for g, w in zip(got, want))


def diff_hist(h, got):
    diff = []
    ops = h["ops"]
    done = set()
    if got["err"] != "none":
        diff.append("error")
    for l, x, y in got["reads"]:
        if l == "sib":
            if not agrees([x, y], h["sib"]):
                diff.append("read:sibling")
        elif l == "r1":
            done.add(l)
            if not agrees([x, y], h["r1"]):
                diff.append("final:parent")
        else:
            done.add(l)
            op = ops[l - 1]
            if not agrees([x, y], [op["x"], op["y"]]):
                diff.append("read:%s" % op["op"])
    for k in range(1, len(ops) + 1):
        if k not in done:
            diff.append("missing:%d" % k)
    if "r1" not in done:
        diff.append("missing:r1")
    if got["fin"] != h["fin"]:
        diff.append("final")
    return sorted(set(diff))


def hist_modes(h):
    ny = sum(1 for op in h["ops"] if op["op"] == "yield")
    modes = []
    for sk in ("sv", "attr"):
        if ny == 0:
            modes.append(("plain", sk))
        modes.append(("task-first", sk))
        modes.append(("task-last", sk))
    return modes


# ------------------------------------------------------------------------------------------------ driver


def run_case(case):
    asynq.scheduler.reset()
    if case["kind"] == "cell":
        cell = case["cell"]
        if cell["api"] == "fresh":
            got = run_fresh(cell, case["out"]["inside"])
            return got, diff_fresh(case["out"], got)
        got = run_cell(cell)
        return got, diff_cell(case, got)
    h = case["out"]
    only = case.get("only")          # a stored replay names the failing mode
    for mode, sk in hist_modes(h):
        if only and [mode, sk] != list(only):
            continue
        asynq.scheduler.reset()
        got = run_hist(h, mode, sk)
        d = diff_hist(h, got)
        if d:
            return got, d
    return None, []


def main():
    cases = json.load(sys.stdin)
    out = []
    runs = 0
    for i, c in enumerate(cases):
        try:
            got, diff = run_case(c)
        except BaseException as e:
            import traceback
            out.append({"i": i, "got": "harness exception %s: %s %s" % (type(e).__name__, e, traceback.format_exc()[-800:]), "diff": ["harness"]})
            continue
        if diff:
            out.append({"i": i, "got": got, "diff": diff})
    out.append({"n": len(cases)})
    json.dump(out, real_out)
    real_out.flush()


main()
