"""C17: AsyncGen.tla histories (TLC: all generator bodies x all operation histories to a depth) replayed into
real @async_generator() objects and compared result by result."""
import argparse
import json
import os
import sys
import time

sys.path.insert(0, os.path.dirname(os.path.abspath(__file__)))
import common
import sat
from common import MachineryError, Scratch, Verdict

PID = "C17"
# shapes of the nested generator for a given number k of Values (the spec only fixes k)
INNER = {0: ["", "A", "AA"], 1: ["V", "AV", "VA", "AVA"], 2: ["VV", "AVV", "VAV", "AVAVA"]}
OPNAME = {"next": "next", "compute": "compute", "list": "list_of_generator", "take": "take_first", "start": "start"}
TIERS = {
    "quick": dict(DEPTHK="2", DEPTH="4", MAXLEN="4", MAXLENG="3", MAXK="2", TAKEMAX="6", MAXCONS="2", EXTRA="2"),
    "thorough": dict(DEPTHK="3", DEPTH="5", MAXLEN="5", MAXLENG="4", MAXK="2", TAKEMAX="6", MAXCONS="2", EXTRA="1"),
}


def expand(hs, tier):
    """one replay case per history; histories of nested bodies once per shape of the inner generator"""
    cases = []
    for i, h in enumerate(hs):
        if "h" not in h:
            continue
        body = list(h["body"])
        if "G" in body:
            shapes = INNER[h["k"]]
            if tier == "quick":
                shapes = [shapes[i % len(shapes)], shapes[(i + 1) % len(shapes)]]
            for s in shapes:
                cases.append({"kind": h["kind"], "body": body, "k": h["k"], "inner": s, "h": h["h"]})
        else:
            cases.append({"kind": h["kind"], "body": body, "k": 0, "inner": "", "h": h["h"]})
    return cases


def trigger_of(case, j):
    t = trigger0(case, j)
    return t if case.get("kind", "int") == "int" else "%s@%s" % (t, case["kind"])      # what the Values carry


def trigger0(case, j):
    o = case["h"][j]
    if o["op"] in ("next", "compute") and any(x["op"] == "start" for x in case["h"][:j]) and \
            not any(x["op"] == "compute" for x in case["h"][max(i for i in range(j) if case["h"][i]["op"] == "start"):j]):
        return o["res"]["k"] + "_while_started"      # the previous future has started and is suspended on a batch
    if o["op"] == "take":
        return "n=0" if o["n"] == 0 else "n>0"
    return o["res"]["k"]


def main():
    ap = argparse.ArgumentParser()
    ap.add_argument("pid")
    ap.add_argument("--tier", default=None)
    ap.add_argument("--replay", default=None)
    a = ap.parse_args()
    tier = a.tier or common.tier()
    t0 = time.time()
    verdict = Verdict(PID)
    with Scratch("c17") as sc:
        builds = {"pure": sc.build("pure")}
        if tier == "thorough" and not os.environ.get("VERIF_SKIP_CY"):
            builds["cy"] = sc.build("cy")
        if a.replay:
            case = json.load(open(a.replay))["case"]
            b = case.get("build", "pure")
            mism, _ = sat.replay(builds[b] if b in builds else builds["pure"], "replay_c17.py", [case["history"]], nproc=1)
            print(json.dumps(mism, indent=1))
            if mism:
                print("VIOLATION property=%s replay=%s" % (PID, a.replay))
            return 1 if mism else 0
        env = TIERS[tier]
        hs, res = sat.tlc_histories("AsyncGen", "AsyncGen.cfg", sc, env=env)
        alarm = sat.model_alarm(res)
        cases = expand(hs, tier)
        if not cases:
            raise MachineryError("TLC exported no histories:\n" + res.out[-2000:])
        total = 0
        nmis = 0
        for bname, bdir in builds.items():
            mism, n = sat.replay(bdir, "replay_c17.py", cases)
            total += n
            nmis += len(mism)
            for m in mism:
                c = cases[m["i"]]
                j = m["diff"][0] if isinstance(m["diff"], list) and m["diff"] else 0
                op = c["h"][j]["op"] if j < len(c["h"]) else "?"
                verdict.report("C17." + OPNAME.get(op, op), trigger_of(c, j) if j < len(c["h"]) else "?",
                               {"history": c, "got": m["got"], "first_diff": j, "build": bname})
        if alarm and not verdict.violations and not verdict.known:
            raise MachineryError(alarm + " on AsyncGen.tla but the real generators follow every prescribed history: the model is wrong\n" + res.out[-2000:])
        if alarm:
            print("note: %s on the model" % alarm)
        kinds = {}
        for c in cases:
            kinds[c["kind"]] = kinds.get(c["kind"], 0) + 1
        sigs = {}
        for cl, tr, _ in verdict.violations:
            sigs["%s/%s" % (cl, tr)] = sigs.get("%s/%s" % (cl, tr), 0) + 1
        bodies = sorted({"".join(c["body"]) + ("/%d" % c["k"] if "G" in c["body"] else "") for c in cases})
        nontriv = sum(1 for c in cases if any(o["op"] in ("list", "take") and o["res"]["k"] == "lst" for o in c["h"]))
        takes = sorted({(o["n"]) for c in cases for o in c["h"] if o["op"] == "take"})
        started = sum(1 for c in cases if any(o["op"] == "start" for o in c["h"]))
        started_next = sum(1 for c in cases for i, o in enumerate(c["h"][:-1]) if o["op"] == "start" and c["h"][i + 1]["op"] == "next")
        twice = sum(1 for c in cases if sum(1 for o in c["h"] if o["op"] == "take" and o["res"]["k"] == "lst") >= 2)
        cov = {
            "states": res.distinct, "transitions": res.generated, "traces_validated_against_impl": total,
            "samples": [cases[0], cases[len(cases) // 3], cases[len(cases) // 2]],
            "history_depth": int(env["DEPTH"]), "histories": len(hs), "replay_cases": len(cases), "bodies": len(bodies),
            "body_list": bodies[:200], "take_first_n": takes, "histories_with_two_take_first": twice,
            "histories_with_started_future": started, "next_issued_while_started": started_next,
            "inner_shapes": INNER, "payload_kinds": kinds, "builds": list(builds), "bounds": env,
            "model_invariants": ["InOrder", "NothingLost", "OnlyValues", "StartedIsUncomputed", "TakeNoMore", "StopForEver", "EarlyAdvance"],
            "model_ok": res.ok, "mismatching_histories": nmis, "violation_signatures": sigs,
            "evaluations": total, "distinct_nontrivial": nontriv,
            "rule": "every history of %s operations (next, start = let the returned future run until it blocks on a batch, compute, "
                    "list_of_generator, take_first(0..%s); <= %s consumer calls) over every "
                    "body in {A,V}^(<=%s) and every body of length <= %s with one nested generator of 0..%s Values; "
                    "non-trivial = a consumer ran on a generator it may advance" % (env["DEPTH"], env["TAKEMAX"], env["MAXCONS"],
                                                                                     env["MAXLEN"], env["MAXLENG"], env["MAXK"]),
            "exhaustive": True,
        }
        rc = verdict.finish()
        common.write_evidence(PID, "model_checking", cov, time.time() - t0, violations=len(verdict.violations),
                              assumptions=["histories are bounded by depth %s, bodies by length %s (%s with a nested generator, one level)" % (env["DEPTH"], env["MAXLEN"], env["MAXLENG"]),
                                           "when no Value is ahead the property allows StopIteration at once or a future evaluating to END_OF_GENERATOR; both are accepted",
                                           "a future returned for a Value that the body yields without an await before it is born computed (ConstFuture)",
                                           "the body's step counter is read after take_first/list_of_generator only; <= the prescribed maximum is accepted",
                                           "a started-but-uncomputed future is realised by yielding it together with a sibling task while the body awaits a batch item; "
                                           "the sibling issues the history's next() calls; only textual awaits (not inner-generator tasks) are started this way",
                                           "Values carrying something else than distinct ints (None, always-equal objects, objects whose == raises or has no truth value, "
                                           "one object every time, END_OF_GENERATOR look-alikes) are explored to depth %s; results are compared by identity" % env["DEPTHK"],
                                           "TLC and the replay harness are trusted"], tier_=tier)
        return rc


if __name__ == "__main__":
    common.main_wrapper(main)
