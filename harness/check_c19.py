"""C19: MockPatch.tla histories (TLC, exhaustive to a depth) replayed with the real asynq.mock.patch."""
import argparse
import json
import os
import sys
import time

sys.path.insert(0, os.path.dirname(os.path.abspath(__file__)))
import common
import sat
from common import MachineryError, Scratch, Verdict

PID = "C19"
INVARIANTS = ["Restored", "Innermost", "SavedChain", "ConventionsAgree", "OriginalIffRestored", "NonCallableAsIs", "ReactivationReplaces"]


def classify(case, j, why):
    """(clause, trigger) of a mismatch at step j.  C19.replace: a target with an active patch is not served by its
    replacement (trigger = replacement kind of the activation, or 'after <op>' when another patch ending / the holder
    changing broke it); C19.restore: a target without active patch does not hold its original (trigger = style/exit)"""
    h = case["h"]
    o = h[j] if j < len(h) else h[-1]
    if o["op"] in ("enter", "reenter") and why != "restored":
        t = o["repl"] + ("/shared" if o["share"] else "") + ("/reactivated" if o["op"] == "reenter" else "")
        return "C19.replace", t
    if why == "active":
        return "C19.replace", "after %s" % o["op"]
    return "C19.restore", "%s/%s" % (o["style"], o["op"])


def main():
    ap = argparse.ArgumentParser()
    ap.add_argument("pid")
    ap.add_argument("--tier", default=None)
    ap.add_argument("--replay", default=None)
    a = ap.parse_args()
    tier = a.tier or common.tier()
    t0 = time.time()
    verdict = Verdict(PID)
    with Scratch("c19") as sc:
        builds = {"pure": sc.build("pure")}
        if tier == "thorough" and not os.environ.get("VERIF_SKIP_CY"):
            builds["cy"] = sc.build("cy")
        if a.replay:
            case = json.load(open(a.replay))["case"]
            mism, _ = sat.replay(builds.get(case.get("build", "pure"), builds["pure"]), "replay_c19.py", [case["history"]], nproc=1)
            print(json.dumps(mism, indent=1))
            if mism:
                print("VIOLATION property=%s replay=%s" % (PID, a.replay))
            return 1 if mism else 0
        # full: one target, 2 patchers (the second may share the first one's replacement object), every style/kind;
        # two: a second target (patches of different targets end in any order), alphabet with/start x default/function/callobj/value;
        # descr: classmethod(...) / staticmethod(...) objects (and function / default) replacing method, classmethod and staticmethod targets;
        # reuse: one patcher activated again and again, the holder re-created in between
        # quick: the full alphabet with patch("mod.attr"), patch.object with the smaller alphabet (objapi), both in descr / reuse
        runs = [("full", {"DEPTH": "4", "PATCHES": "2", "NEST": "2"} if tier == "thorough" else {"DEPTH": "4", "PATCHES": "2", "NEST": "2", "API": "str"}),
                ("objapi", {"DEPTH": "4", "PATCHES": "2", "NEST": "2", "API": "obj", "PRESET": "mid3"}),
                ("descr", {"DEPTH": "4", "PATCHES": "2", "NEST": "2", "PRESET": "descr"}),
                ("two", {"TWO": "1", "DEPTH": "4", "PATCHES": "2", "NEST": "2", "PRESET": "mid", "API": "str"}),
                ("reuse", {"REUSE": "1", "DEPTH": "6", "PATCHES": "1", "NEST": "1"})]
        if tier == "thorough":
            runs.append(("reuse2", {"REUSE": "1", "DEPTH": "5", "PATCHES": "2", "NEST": "2", "PRESET": "small", "API": "str"}))
            runs.append(("deep", {"DEPTH": "6", "PATCHES": "3", "NEST": "3", "PRESET": "small", "API": "str"}))
        cases, states, transitions, ok, alarms, tails = [], 0, 0, True, [], []
        from concurrent.futures import ThreadPoolExecutor
        with ThreadPoolExecutor(max_workers=3) as ex:       # the TLC runs are independent: three at a time
            results = list(ex.map(lambda r: sat.tlc_histories("MockPatch", "MockPatch.cfg", sc, env=r[1],
                                                              workers=max(2, common.NCPU // 2)), runs))
        for (name, env), (hs, res) in zip(runs, results):
            al = sat.model_alarm(res)
            if al:
                alarms.append("%s (%s)" % (al, name))
                tails.append(res.out[-2000:])
            got = [{"target": h["target"], "api": h["api"], "two": h["two"], "h": h["h"], "run": name} for h in hs if "h" in h]
            if not got:
                raise MachineryError("TLC exported no histories (%s):\n%s" % (name, res.out[-2000:]))
            cases += got
            states += res.distinct
            transitions += res.generated
            ok = ok and res.ok
        total = nmis = 0
        for bname, bdir in builds.items():
            sel = [i for i, c in enumerate(cases) if bname == "pure" or c["run"] != "deep"]     # the deep run only on the pure build
            mism, n = sat.replay(bdir, "replay_c19.py", [cases[i] for i in sel], chunk=1000)    # small chunks: the runs differ in cost per history
            for m in mism:
                m["i"] = sel[m["i"]]
            total += n
            nmis += len(mism)
            for m in mism:
                c = cases[m["i"]]
                j = m["diff"][0] if isinstance(m["diff"], list) and m["diff"] else 0
                clause, trigger = classify(c, j, m.get("why"))
                verdict.report(clause, trigger, {"history": c, "got": m["got"], "first_diff": j, "build": bname})
        if alarms and not verdict.violations:
            raise MachineryError("; ".join(alarms) + " on MockPatch.tla but the real patcher follows every prescribed history: the model is wrong\n" + "\n".join(tails))
        steps = sum(len(c["h"]) for c in cases)
        calls = sum(len(r["convs"]) * len(r["paths"]) for c in cases for o in c["h"] for r in o["res"])
        gathers = sum(len(r["paths"]) for c in cases for o in c["h"] for r in o["res"] if "gather" in r["convs"])
        nested = sum(1 for c in cases if any(o["op"] == "enter" and o["k"] >= 2 and i > 0 and c["h"][i - 1]["op"] == "enter" for i, o in enumerate(c["h"])))
        shared = sum(1 for c in cases if any(o["op"] == "enter" and o["share"] for o in c["h"]))
        reentered = sum(1 for c in cases if any(o["op"] == "reenter" for o in c["h"]))
        reheld = sum(1 for c in cases if any(o["op"] == "rehold" for o in c["h"]) and any(o["op"] == "reenter" for o in c["h"]))
        exc_exit = sum(1 for c in cases if any(o["op"] == "exit_exception" for o in c["h"]))
        cov = {
            "states": states, "transitions": transitions, "traces_validated_against_impl": total,
            "samples": cases[:1] + cases[len(cases) // 3: len(cases) // 3 + 1] + cases[-1:],
            "histories": len(cases), "steps": steps, "calls_per_build": calls, "gathered_fan_outs_per_build": gathers, "builds": list(builds),
            "tlc_runs": [dict(env, name=name) for name, env in runs],
            "targets": sorted({c["target"] for c in cases}), "apis": sorted({c["api"] for c in cases}),
            "styles": sorted({o["style"] for c in cases for o in c["h"] if o["op"] == "enter"}),
            "replacements": sorted({o["repl"] for c in cases for o in c["h"] if o["op"] == "enter"}),
            "exit_ops": sorted({o["op"] for c in cases for o in c["h"] if o["op"] != "enter"}),
            "model_invariants": INVARIANTS, "model_ok": ok, "mismatching_histories": nmis,
            "evaluations": total, "distinct_nontrivial": nested,
            "histories_with_exception_exit": exc_exit, "histories_sharing_one_replacement_object": shared,
            "histories_reactivating_a_patcher": reentered, "of_those_with_holder_recreated": reheld,
            "histories_per_run": {name: sum(1 for c in cases if c["run"] == name) for name, _ in runs},
            "rule": "every history of enter(4 styles x 6 replacement kinds (+ classmethod/staticmethod objects on class targets), or the previous patcher's replacement object again)/leave normally/leave by "
                    "exception/stop/stopall over 5 target kinds x 2 ways of naming the target; with a second target (any stop order across targets); with "
                    "re-activation of one patcher and re-creation of the holder; each step followed by one call through every convention (sync, .asynq().value(), yield, .asyncio() awaited alone, three .asyncio() "
                    "coroutines created first and gathered) on every target through every access path (class and instance for classmethod/staticmethod targets and replacements); "
                    "non-trivial = a second patch is entered while the first is active (nested)",
            "exhaustive": True,
        }
        rc = verdict.finish()
        common.write_evidence(PID, "model_checking", cov, time.time() - t0, violations=len(verdict.violations),
                              assumptions=["histories are bounded: 2 patchers, nesting 2, depth 4; re-activation run: 1 patcher, depth 6 (thorough adds 2 patchers with re-activation and "
                                           "3 patchers, nesting 3, depth 6 over smaller alphabets, patch('mod.attr') only)",
                                           "exits are LIFO per target (nested or sequential patches); patches of different targets end in any order; stopall() only while the "
                                           "start()ed patches of each target are its innermost ones: non-LIFO stop order on ONE target is outside the property "
                                           "(unittest.mock restores what each patch saved)",
                                           "the holder is re-created only while no patch is active; a patch.object() patcher keeps the holder object it was given, so nothing is "
                                           "prescribed for re-activating it after the holder was re-created (not enumerated)",
                                           "a shared replacement object is one caller-supplied object (function / bound method / callable object / value) given to two patchers",
                                           "targets live in a scratch module/class (local attributes); classmethod/staticmethod/plain attribute are reached through the class, "
                                           "the method through an instance; the plain attribute is only read, or called synchronously when its replacement is callable",
                                           "the identity of a callable replacement in the slot is not prescribed (it may be wrapped); only 'not the original', and identity for "
                                           "non-callable values and for the restored original",
                                           "binding is Python's: a plain function in a class receives the instance it is reached through (nothing through the class), a classmethod "
                                           "object the class, a staticmethod object / mock / callable object / bound method nothing; classmethod/staticmethod replacement objects "
                                           "are given to class targets only (a module attribute is not a descriptor slot)",
                                           ".asyncio() coroutines are awaited with run_until_complete on one event loop per replay process (not a fresh asyncio.run loop per call)",
                                           "thorough: the 3-patcher 'deep' run is replayed on the pure build only, all other runs on both builds",
                                           "unittest.mock internals, TLC and the replay harness are trusted"], tier_=tier)
        return rc


if __name__ == "__main__":
    common.main_wrapper(main)
