"""Replays the C18 specifications' output into the real asynq diagnostics (runs inside the build under test).

case["part"]:
  "filter" - Diag.tla: a text over the abstract line classes + the admissible outputs; rendered into concrete
             traceback lines, run through asynq.debug.filter_traceback, result must be one of the admissible outputs.
  "glue"   - DiagGlue.tla: a chain of @asynq() levels with the prescribed traceback at the caller and the
             prescribed format_asynq_stack() inside the levels.
  "life"   - DiagLife.tla: an operation history of one object kind (diagnostics called in every state) or one
             cell of the format_error product.
Output: JSON list of {"i", "got", "diff"} for mismatching cases + {"n": count}."""
import json
import os
import re
import sys
import traceback

devnull = open(os.devnull, "w")
real_out = os.fdopen(os.dup(1), "w")
os.dup2(devnull.fileno(), 1)
sys.stdout = devnull
os.dup2(devnull.fileno(), 2)
sys.stderr = devnull

import qcore
import asynq
import asynq.debug
import asynq.generator
import asynq.scoped_value
from asynq.async_task import AsyncTask
from asynq.batching import BatchBase, BatchItemBase, DebugBatch, DebugBatchItem
from asynq.contexts import AsyncContext, NonAsyncContext
from asynq.futures import ConstFuture, ErrorFuture, Future

A = asynq.asynq


class VErr(Exception):
    __bool__ = lambda self: sum(map(ord, str(self.args))) % 2 == 0       # unusual but legal: about half of the exception objects are falsy

    pass


class NErr(Exception):
    pass


class BErr(BaseException):
    pass


# ======================================================================================== part (b): filter
PATTERN = {  # the 11 pattern strings of asynq's boilerplate runs (Diag.tla: A1 .. C3)
    "A1": "asynq.async_task.AsyncTask._continue",
    "A2": "asynq.async_task.AsyncTask._continue_on_generator",
    "F1": "asynq.decorators.AsyncDecorator.__call__",
    "F2": "asynq.futures.FutureBase.value",
    "F3": "asynq.futures.FutureBase.raise_if_error",
    "R": "reraise",
    "SR": "six.reraise",
    "V": "value",
    "C1": "asynq.decorators.AsyncDecorator.asynq",
    "C2": "asynq.decorators.AsyncProxyDecorator._call_pure",
    "C3": "asynq.decorators.async_call",
}
MARKER = {  # marker lines are recognised up to surrounding white space
    "___asynq_continue___": "M1",
    "___asynq_future_raise_if_error___": "M2",
    "___asynq_call_pure___": "M3",
}


def render(c, i):
    """A realistic traceback line of class c; i makes every line of a text distinct."""
    n = 100 + i
    if c == "c":
        return '  File "asynq/async_task.py", line %d, in asynq.async_task.AsyncTask._continue\n' % n
    if c == "g":
        return '  File "asynq/async_task.py", line %d, in asynq.async_task.AsyncTask._continue_on_generator\n' % n
    if c == "k":
        return '  File "asynq/decorators.py", line %d, in asynq.decorators.AsyncDecorator.__call__\n' % n
    if c == "v":
        return '  File "asynq/futures.py", line %d, in asynq.futures.FutureBase.value\n' % n
    if c == "e":
        return '  File "asynq/futures.py", line %d, in asynq.futures.FutureBase.raise_if_error\n' % n
    if c == "r":
        return '  File "/usr/lib/python3/site-packages/qcore/errors.py", line %d, in reraise\n' % n
    if c == "s":
        return "    six.reraise(type(error), error, error._traceback)  # %d\n" % n
    if c == "u":
        return "    raise value  # %d\n" % n
    if c == "a":
        return '  File "asynq/decorators.py", line %d, in asynq.decorators.AsyncDecorator.asynq\n' % n
    if c == "p":
        return '  File "asynq/decorators.py", line %d, in asynq.decorators.AsyncProxyDecorator._call_pure\n' % n
    if c == "y":
        return '  File "asynq/decorators.py", line %d, in asynq.decorators.async_call\n' % n
    if c == "f":
        if i % 2:
            return '  File "app/handlers_%d.py", line %d, in handle_request\n' % (i, n)
        return "    process(request_%d)\n" % i
    raise KeyError(c)


_table_checked = False


def check_table():
    """The rendering must contain exactly the pattern strings the spec's line class says (binding of the alphabet)."""
    global _table_checked
    if _table_checked:
        return
    table = json.loads(os.environ["C18_TABLE"])
    for c, pats in table.items():
        for i in (1, 2, 17, 31):
            line = render(c, i)
            has = sorted(p for p, s in PATTERN.items() if s in line)
            if has != sorted(pats):
                raise AssertionError("rendering of class %s contains %s, spec says %s" % (c, has, pats))
            if line.strip() in MARKER:
                raise AssertionError("rendering equals a marker")
    _table_checked = True


def run_filter(case):
    check_table()
    t = case["t"]
    lines = [render(c, i + 1) for i, c in enumerate(t)]
    index = {l: str(i + 1) for i, l in enumerate(lines)}
    out = asynq.debug.filter_traceback(list(lines))
    toks = []
    for l in out:
        if l in index:
            toks.append(index[l])
        elif l.strip() in MARKER:
            toks.append(MARKER[l.strip()])
        else:
            toks.append("?" + repr(l))
    got = "".join(x + "," for x in toks)
    return got, ([] if got in case["o"] else [0])


# ======================================================================================== part (a): glue
def helper_raise(i):
    raise VErr(i)


def _rename(fn, name):
    kw = {"co_name": name}
    if hasattr(fn.__code__, "co_qualname"):
        kw["co_qualname"] = name
    fn.__code__ = fn.__code__.replace(**kw)
    fn.__name__ = fn.__qualname__ = name
    return fn


_NAME = re.compile(r"^(?:lvl_(\d+)|site_(\d+)|helper_raise)$")
_IN = re.compile(r'^\s*File "[^"]*", line \d+, in (\S+)', re.M)
SITE_BASE = 500  # DiagGlue.tla SiteBase
_LVL = re.compile(r"\blvl_(\d+)\b")


def frame_of(name):
    m = _NAME.match(name)
    if not m:
        return None
    if m.group(1) is not None:
        return int(m.group(1))
    if m.group(2) is not None:
        return SITE_BASE + int(m.group(2))
    return -1


def collapse(seq):
    """harness frames of a traceback, in order; a frame listed twice in DIRECT succession (Python does that for
    `raise e` inside the frame) counts once"""
    out = []
    prev = object()
    for x in seq:
        if x is not None and x != prev:
            out.append(x)
        prev = x
    return out


def project_tb(tb):
    return collapse(frame_of(f.name) for f in traceback.extract_tb(tb))


def project_format_error(e):
    """frames of asynq.debug.format_error(e) (filtering and highlighting off), last traceback block"""
    old_f = getattr(asynq.debug, "_should_filter_traceback", True)
    old_h = getattr(asynq.debug, "_use_syntax_highlighting", True)
    try:
        asynq.debug.enable_filter_traceback(False)
        asynq.debug.enable_traceback_syntax_highlight(False)
        text = asynq.debug.format_error(e)
        last = text.rsplit("Traceback (most recent call last)", 1)[-1]
        return collapse(frame_of(n) for n in _IN.findall(last))
    except BaseException as e2:  # noqa
        return ["raised", type(e2).__name__]
    finally:
        asynq.debug.enable_filter_traceback(old_f)
        asynq.debug.enable_traceback_syntax_highlight(old_h)


class PErr(Exception):
    pass


class PriorBatch(BatchBase):
    def __init__(self, fail):
        BatchBase.__init__(self)
        self.fail = fail

    def _try_switch_active_batch(self):
        pass

    def _flush(self):
        if self.fail:
            raise PErr("flush")
        for it in self.items:
            it.set_value(1)


class PriorItem(BatchItemBase):
    pass


class PriorCtx(AsyncContext):
    """raises in its n-th resume() / pause() (n = 0: never)"""

    def __init__(self, bad_resume=0, bad_pause=0):
        self.nr = self.np = 0
        self.bad_resume = bad_resume
        self.bad_pause = bad_pause

    def resume(self):
        self.nr += 1
        if self.nr == self.bad_resume:
            raise PErr("resume")

    def pause(self):
        self.np += 1
        if self.np == self.bad_pause:
            raise PErr("pause")


class PriorNonAsync(NonAsyncContext):  # used by subclassing, as its docstring says (the compiled base has no __dict__)
    pass


def run_prior(kind, handled):
    """The earlier top-level computation of the session (DiagGlue.tla: PriorRun / PriorFlush / PriorDeliver):
    prior_outer -> prior_inner, prior_inner awaits a batch item; ends as `kind` says.  Its outcome is not compared."""
    b = PriorBatch(kind == "flush_exc")

    @A()
    def prior_inner():
        if kind == "resume_raises":
            with PriorCtx(bad_resume=2):  # entered (1st resume), paused at the yield, 2nd resume after the flush raises
                yield PriorItem(b)
        elif kind == "pause_raises":
            with PriorCtx(bad_pause=1):
                yield PriorItem(b)
        elif kind == "nonasync":
            with PriorNonAsync():
                yield PriorItem(b)
        else:
            yield PriorItem(b)
        if kind == "task_exc":
            raise PErr("task")
        return 1

    @A()
    def prior_outer():
        if handled == "task":
            try:
                return (yield prior_inner.asynq())
            except (PErr, AssertionError):
                return "recovered"
        return (yield prior_inner.asynq())

    try:
        prior_outer()
    except (PErr, AssertionError):
        pass


NO_HAND = -5  # DiagGlue.tla NoHand


class HErr(Exception):
    pass


def _level_template():
    """Body of one task level.  Its free names (I, D, R, MODE, SYNC, STYLE, HAND, HEND, fns, box, probe, await_,
    unwrap) come from a per-level namespace: the function is instantiated from THIS source text by instantiate(),
    either bound to this file (source retrievable) or as generated code (no source)."""
    if I == HAND:
        # creates the next level's task, hands it over to its own awaiter and completes
        probe(I, "entry")
        box[I + 1] = fns[I + 1].asynq()
        if SYNC:
            yield DebugBatchItem("c18-glue")
        if HEND == "fail":
            raise HErr(I)
        return -2
    if I < D:
        probe(I, "entry")
        child = fns[I + 1].asynq()
        if I + 1 == HAND:
            # the child hands its own child over and completes (or fails: caught here); that one is awaited instead
            try:
                yield child
            except HErr:
                pass
            child = box[I + 2]
        m = MODE[I - 1] if I < R else "pass"
        if m == "pass":
            v = unwrap((yield await_(child)))
        else:
            try:
                v = unwrap((yield await_(child)))
            except Exception:
                probe(I, "handler")
                if m == "reraise":
                    raise
                if m == "new":
                    raise NErr(I)
                v = -1
    else:
        if SYNC:
            yield DebugBatchItem("c18-glue")
        probe(I, "entry")
        v = 0
    if I == R:
        if STYLE == "helper":
            helper_raise(I)
        raise VErr(I)
    return v


def _outer_template():
    """Body of the outer task (level 0); free names probe, retr, fns, retrieve from the namespace."""
    probe(0, "entry")
    if retr == ["call"]:
        if False:
            yield None
        return fns[1]()
    child = fns[1].asynq()
    for k, how in enumerate(retr[:-1], 1):
        retrieve(k, how, child)
    if retr[-1] == "yield":
        return (yield child)
    return child.value()


_SRC = {}


def instantiate(template, name, ns, generated):
    """A new function object from the template's source text with `ns` as its globals.  generated=False: compiled
    at the template's own file and line numbers, so its frames show source lines; generated=True: compiled from
    the bare string with a made-up file name - like exec()-generated code, a REPL cell or python -c, no source
    text can be retrieved for its frames."""
    key = (template, generated)
    if key not in _SRC:
        import inspect
        lines, start = inspect.getsourcelines(template)
        src = "".join(lines)
        if generated:
            _SRC[key] = compile(src, "<c18 generated code>", "exec")
        else:
            _SRC[key] = compile("\n" * (start - 1) + src, inspect.getsourcefile(template), "exec")
    code = _SRC[key]
    g = dict(globals())
    g.update(ns)
    exec(code, g)
    return _rename(g[template.__name__], name)


def run_glue(case):
    asynq.scheduler.reset()
    if case.get("prior", "none") != "none":
        run_prior(case["prior"], case["phandled"])
    d, r, mode, sync, style, outer = case["d"], case["r"], case["mode"], case["sync"], case["style"], case["outer"]
    probed = None
    if case.get("deep"):
        probed = {1, d // 2, d}
    fns = {}
    probes = []

    def probe(i, where):
        if probed is not None and i not in probed:
            return
        try:
            st = asynq.debug.format_asynq_stack()
            if st is None:
                got = ["none"]
            else:
                got = []
                for entry in st:
                    m = _LVL.search(entry)
                    got.append(int(m.group(1)) if m else "?" + entry[:60])
            if nosrc:  # the other diagnostics that walk the same frames must not raise either
                asynq.debug.dump_asynq_stack()
                asynq.scheduler.get_active_task().dump()
        except BaseException as e:  # noqa
            got = ["raised", type(e).__name__]
        probes.append({"lvl": i, "at": where, "stack": got})

    def await_(t):
        return [t] if style == "list" else t

    def unwrap(v):
        return v[0] if style == "list" else v

    nosrc = set(case.get("nosrc", []))
    hand = case.get("hand", NO_HAND)
    hend = case.get("hend", "-")
    box = {}

    def make(i):
        ns = {"I": i, "D": d, "R": r, "MODE": mode, "SYNC": sync, "STYLE": style, "HAND": hand, "HEND": hend,
              "fns": fns, "box": box, "probe": probe, "await_": await_, "unwrap": unwrap}
        return A()(instantiate(_level_template, "lvl_%d" % i, ns, i in nosrc))

    retr = case.get("retr", ["call"])
    sights = []

    def make_site(k):
        def site(t):
            try:
                t.value()
                return []
            except (VErr, NErr):
                return project_tb(sys.exc_info()[2])

        return _rename(site, "site_%d" % k)

    def retrieve(k, how, t):
        """a caught retrieval of the failed task's outcome (DiagGlue.tla: Retrieve)"""
        if how == "value":
            tb = make_site(k)(t)
        else:
            e = t.error()
            tb = [] if e is None else project_format_error(e)
        sights.append({"k": k, "kind": how, "tb": tb})

    for i in range(1, d + 1):
        fns[i] = make(i)
    got = {}
    if outer == 0 and retr != ["call"]:
        # the top-level caller keeps the task and asks it several times
        t = fns[1].asynq()
        for k, how in enumerate(retr, 1):
            retrieve(k, how, t)
        e = t.error()
        if e is None:
            got["outcome"] = ["val"]
        else:
            got["outcome"] = ["err", "E" if isinstance(e, VErr) else "N", e.args[0] if e.args else -99, project_format_error(e)]
        got["debug_extract_tb"] = got["format_error"] = got["outcome"][3] if e is not None else None
    else:
        if outer:
            top = A()(instantiate(_outer_template, "lvl_0", {"probe": probe, "retr": retr, "fns": fns, "retrieve": retrieve},
                                  0 in nosrc))
        elif hand == 1:
            def top():  # level 1 hands the task of level 2 to the top-level caller, which awaits it
                try:
                    fns[1]()
                except HErr:
                    pass
                return box[2].value()
        else:
            top = fns[1]
        try:
            top()
            got["outcome"] = ["val"]
        except (VErr, NErr) as e:
            tb = sys.exc_info()[2]
            kind = "E" if isinstance(e, VErr) else "N"
            origin = e.args[0] if e.args else -99
            got["outcome"] = ["err", kind, origin, project_tb(tb)]
            got["debug_extract_tb"] = collapse(frame_of(f[2]) for f in asynq.debug.extract_tb(tb))
            got["format_error"] = project_format_error(e)
    got["sights"] = sights
    got["probes"] = probes
    diff = []
    want = list(case["outcome"])
    if got["outcome"] != want:
        diff.append("glue.traceback")
    if want[0] == "err":
        if got.get("debug_extract_tb") != want[3]:
            diff.append("glue.debug_extract_tb")
        if got.get("format_error") != want[3]:
            diff.append("glue.format_error")
    if sights != [dict(x) for x in case.get("sights", [])]:
        diff.append("glue.retrieval")
    if probes != [dict(p) for p in case["probes"]]:
        diff.append("stack")
    return got, diff


# ======================================================================================== part (c): totality
def S():
    return asynq.scheduler.get_scheduler()


def diag(obj):
    fails = []

    def attempt(name, fn, want_str=True):
        try:
            v = fn()
            if want_str and not isinstance(v, str):
                fails.append([name, "returned %s" % type(v).__name__])
        except BaseException as e:  # noqa
            fails.append([name, "%s: %s" % (type(e).__name__, str(e)[:100])])

    attempt("str", lambda: str(obj))
    attempt("repr", lambda: repr(obj))
    attempt("debug.str", lambda: asynq.debug.str(obj))
    attempt("debug.repr", lambda: asynq.debug.repr(obj))
    attempt("debug.str_notrunc", lambda: asynq.debug.str(obj, truncate=False))
    if hasattr(obj, "dump"):
        attempt("dump", lambda: obj.dump(0), False)
        attempt("dump_indent", lambda: obj.dump(3), False)
    if isinstance(obj, AsyncTask):
        attempt("traceback", lambda: "".join(obj.traceback()))
    sch = S()
    if sch is not obj:
        attempt("sched.str", lambda: str(sch))
        attempt("sched.repr", lambda: repr(sch))
        attempt("sched.dump", lambda: sch.dump(), False)
    attempt("debug.dump_sched", lambda: asynq.debug.dump(sch), False)
    attempt("format_asynq_stack", lambda: asynq.debug.format_asynq_stack(), False)
    attempt("dump_asynq_stack", lambda: asynq.debug.dump_asynq_stack(), False)
    return fails


class HB(BatchBase):
    """harness batch: _flush runs a hook (the point where 'inside _flush' states are observed)"""

    def __init__(self, hook=None):
        BatchBase.__init__(self)
        self.hook = hook

    def _try_switch_active_batch(self):
        pass

    def _flush(self):
        if self.hook is not None:
            self.hook(self)
        for it in self.items:
            if not it.is_computed():
                it.set_value(getattr(it, "_result", 1))


class It(BatchItemBase):
    _result = 1


_counter = [0]


def fresh_name():
    _counter[0] += 1
    return "c18-%d" % _counter[0]


class Target(object):
    attr = "original"


class BadRepr(object):
    def __repr__(self):
        raise RuntimeError("this object's repr raises")


def mkval(vk):
    """the value a value-holding object holds (DiagLife.tla ValueKinds); "-" = the kind holds no user value"""
    if vk in ("-", "int"):
        return 5
    return {"none": lambda: None, "str": lambda: "nutria", "tuple0": lambda: (), "tuple1": lambda: (1,),
            "tuple2": lambda: (1, "b"), "list": lambda: [1, (2, 3)], "dict": lambda: {"a": (1,), 2: ()},
            "percent": lambda: "100%s %d %(x)s %% %", "badrepr": BadRepr}[vk]()


VAL = [5]


def run_life(case):
    VAL[0] = mkval(case.get("val", "-"))
    kind = case["kind"]
    ops = [o["op"] for o in case["h"]]
    n = len(ops)
    got = [["unreached"] for _ in ops]

    def P(j, obj):
        f = diag(obj)
        if got[j][0] == "raised":  # a state observed twice: keep the failures
            f = got[j][1] + f
        got[j] = ["ok"] if not f else ["raised", f]

    asynq.scheduler.reset()
    if kind == "format_error":
        got[0] = run_format_error(case["cell"])
    else:
        DRIVERS[kind](ops, n, P)
    asynq.scheduler.reset()
    diff = [j for j, (o, g) in enumerate(zip(case["h"], got)) if list(o["res"]) != ["any"] and list(o["res"]) != g]
    return got, diff


def drive_future(ops, n, P):
    flag = {"raise": False}

    def prov():
        if flag["raise"]:
            raise VErr(7)
        return VAL[0]

    f = None
    for j, op in enumerate(ops):
        if op == "create":
            f = Future(prov)
        elif op == "compute_ok":
            flag["raise"] = False
            f.value()
        elif op == "compute_raise":
            flag["raise"] = True
            try:
                f.value()
            except VErr:
                pass
        elif op == "set_error":
            f.set_error(VErr(3))
        elif op == "set_self":
            f.set_value(f)
        elif op == "set_cycle":
            f.set_value([f, {"k": (f,)}])
        elif op == "set_mutual":
            g = Future(prov)
            g.set_value(f)
            f.set_value(g)
        elif op == "reset":
            f.reset_unsafe()
        else:
            raise KeyError(op)
        P(j, f)


def drive_const(ops, n, P):
    P(0, ConstFuture(VAL[0]))


def drive_errfut(ops, n, P):
    P(0, ErrorFuture(VErr(7)))


def drive_agvalue(ops, n, P):
    P(0, asynq.generator.Value(VAL[0]))


def drive_task(ops, n, P):
    idx = {op: j for j, op in enumerate(ops)}
    box = {}

    def hook(batch):
        j = idx.get("block", idx.get("block_child"))
        if j is not None:
            P(j, box["t"])
        if "resume_err" in idx:
            for it in batch.items:
                it.set_error(VErr(9))

    b = HB(hook)

    @A()
    def child():
        yield It(b)
        return 1

    @A()
    def body(arg, kw=None):
        me = asynq.scheduler.get_active_task()
        if "start" in idx:
            P(idx["start"], me)
        if "block" in idx:
            try:
                yield It(b)
            except VErr:
                if "resume_err" in idx:
                    P(idx["resume_err"], me)
            else:
                if "resume" in idx:
                    P(idx["resume"], me)
        elif "block_child" in idx:
            yield child.asynq()
            if "resume" in idx:
                P(idx["resume"], me)
        if "raise" in idx:
            raise VErr(7)
        return arg

    t = body.asynq(VAL[0], kw=VAL[0])
    box["t"] = t
    P(0, t)
    if n > 1:
        try:
            t.value()
        except VErr:
            pass
        for op in ("return", "raise"):
            if op in idx:
                P(idx[op], t)


def drive_batch(ops, n, P, debug=False):
    b = None
    j = 0
    while j < n:
        op = ops[j]
        if op == "create":
            b = DebugBatch(fresh_name()) if debug else HB()
        elif op == "add":
            It(b)
        elif op == "cancel":
            b.cancel()
        elif op == "flush":
            b.flush()
        elif op == "flush_begin":
            nxt = ops[j + 1] if j + 1 < n else None
            jj = j

            def inside(_x, jj=jj, nxt=nxt):
                P(jj, b)
                if nxt == "flush_fail":
                    raise VErr(8)

            if debug:
                done = []

                def cb(_f):
                    if not done:
                        done.append(1)
                        inside(None)

                b.items[0].on_computed.subscribe(cb)
            else:
                b.hook = inside
            b.flush()
            if nxt is not None:
                j += 1
                P(j, b)
            j += 1
            continue
        else:
            raise KeyError(op)
        P(j, b)
        j += 1


def drive_dbatch(ops, n, P):
    drive_batch(ops, n, P, debug=True)


def drive_item(ops, n, P):
    st = {"j": 0, "term": None}

    def hook(batch):
        j = st["j"]
        P(j, it)
        j += 1
        while j < n:
            op = ops[j]
            if op == "set":
                it.set_value(VAL[0])
                P(j, it)
            elif op == "set_error":
                it.set_error(VErr(3))
                P(j, it)
            elif op in ("flush_end", "flush_fail"):
                st["term"] = j
                if op == "flush_fail":
                    raise VErr(8)
                return
            else:
                raise KeyError(op)
            j += 1

    b = HB(hook)
    it = It(b)
    other = It(b)  # a second item, always set by the flush
    other._result = 2
    P(0, it)
    if n > 1:
        if ops[1] == "cancel":
            b.cancel()
            P(1, it)
        elif ops[1] == "flush_begin":
            st["j"] = 1
            b.flush()
            if st["term"] is not None:
                P(st["term"], it)
        else:
            raise KeyError(ops[1])


def drive_ditem(ops, n, P):
    it = DebugBatchItem(fresh_name(), result=VAL[0])
    P(0, it)
    if n > 1:
        if ops[1] == "flush":
            it.batch.flush()
        elif ops[1] == "cancel":
            it.batch.cancel()
        else:
            raise KeyError(ops[1])
        P(1, it)


def drive_sched(ops, n, P):
    idx = {op: j for j, op in enumerate(ops)}
    P(0, S())
    if n == 1:
        return

    def hook(batch):
        if "flush" in idx:
            P(idx["flush"], S())

    b = HB(hook)
    b2 = HB(hook)  # a second batch: still scheduled while the first one is being flushed

    @A()
    def inner():
        P(idx["nested"], S())
        if False:
            yield None
        return 1

    @A()
    def blocker():
        yield It(b)
        return 1

    @A()
    def blocker2():
        yield It(b2)
        return 1

    @A()
    def prober():
        P(idx["schedule_batch"], S())
        if False:
            yield None
        return 2

    @A()
    def root():
        P(idx["enter_task"], S())
        if "nested" in idx:
            inner()
        if "schedule_batch" in idx:
            yield (blocker.asynq(), blocker2.asynq(), prober.asynq())
        return 0

    root()
    if "finish" in idx:
        P(idx["finish"], S())


def drive_scoped(ops, n, P):
    v = None
    ctx = None
    for j, op in enumerate(ops):
        if op == "create":
            v = asynq.scoped_value.AsyncScopedValue(VAL[0])
        elif op == "set":
            v.set(VAL[0])
        elif op == "override_enter":
            ctx = v.override(VAL[0])
            ctx.__enter__()
        elif op == "override_exit":
            ctx.__exit__(None, None, None)
        else:
            raise KeyError(op)
        P(j, v)


def drive_override(ops, n, P, prop=False):
    if prop:
        tgt = Target()
        tgt.attr = VAL[0]
        ctx = asynq.scoped_value.async_override(tgt, "attr", VAL[0])
    else:
        ctx = asynq.scoped_value.AsyncScopedValue(VAL[0]).override(VAL[0])
    P(0, ctx)
    if n == 1:
        return
    box = {}

    def hook(batch):
        P(box["pause"], ctx)

    @A()
    def body():
        j = 1
        if j < n and ops[j] == "enter":
            with ctx:
                P(j, ctx)
                j += 1
                while j < n and ops[j] == "pause":
                    box["pause"] = j
                    yield It(HB(hook))
                    j += 1
                    if j < n and ops[j] == "resume":
                        P(j, ctx)
                        j += 1
                    else:
                        break
            if j < n and ops[j] == "exit":
                P(j, ctx)
        return 0

    body()


def drive_propoverride(ops, n, P):
    drive_override(ops, n, P, prop=True)


def drive_agen(ops, n, P):
    @A()
    def aval():
        return 41

    @asynq.generator.async_generator()
    def gen():
        v = yield aval.asynq()
        yield asynq.generator.Value(v)
        yield asynq.generator.Value(2)

    g = None
    t = None
    for j, op in enumerate(ops):
        if op == "create":
            g = gen()
        elif op == "next_task":
            t = next(g)
        elif op == "compute":
            t.value()
        elif op == "next_value":
            next(g).value()
        elif op == "next_stop":
            try:
                next(g)
                raise AssertionError("generator not exhausted")
            except StopIteration:
                pass
        elif op == "close":
            g.generator.close()         # the consumer gives up early
        else:
            raise KeyError(op)
        P(j, g)


def drive_agenfail(ops, n, P):
    @A()
    def aval():
        return 41

    @asynq.generator.async_generator()
    def gen():
        v = yield aval.asynq()
        raise VErr("async generator body failed after %r" % (v,))

    g = None
    t = None
    for j, op in enumerate(ops):
        if op == "create":
            g = gen()
        elif op == "next_task":
            t = next(g)
        elif op == "compute_fail":
            try:
                t.value()
                raise AssertionError("the task of a failing body did not fail")
            except VErr:
                pass
        elif op == "next_after":
            try:
                next(g)
            except BaseException:  # noqa   (what advancing a failed generator does is not the subject here)
                pass
        else:
            raise KeyError(op)
        P(j, g)


DRIVERS = {
    "future": drive_future, "const": drive_const, "errfut": drive_errfut, "agvalue": drive_agvalue,
    "task": drive_task, "batch": drive_batch, "dbatch": drive_dbatch, "item": drive_item, "ditem": drive_ditem,
    "sched": drive_sched, "scoped": drive_scoped, "override": drive_override, "propoverride": drive_propoverride,
    "agen": drive_agen, "agenfail": drive_agenfail,
}


# ---------------------------------------------------------------------------------------- format_error
@A()
def fe_bottom():
    yield None
    raise VErr("bottom")


@A()
def fe_top(chained):
    if chained:
        try:
            yield fe_bottom.asynq()
        except VErr:
            raise NErr("while handling")
    else:
        yield fe_bottom.asynq()


def other_tb():
    try:
        raise KeyError("explicit tb")
    except KeyError:
        return sys.exc_info()[2]


def make_exc(kind):
    if kind == "none":
        return None
    if kind in ("task_raised", "task_chained"):
        try:
            fe_top(kind == "task_chained")
        except (VErr, NErr) as e:
            return e
        raise AssertionError("no exception")
    if kind == "plain_new":
        return ValueError("never raised")
    if kind == "plain_raised":
        try:
            raise ValueError("raised")
        except ValueError as e:
            return e
    if kind in ("cause", "context"):
        try:
            try:
                raise KeyError("first")
            except KeyError as k:
                if kind == "cause":
                    raise ValueError("second") from k
                raise ValueError("second")
        except ValueError as e:
            return e
    if kind == "prepared":
        try:
            raise ValueError("prepared")
        except ValueError as e:
            qcore.prepare_for_reraise(e)
            return e
    if kind == "task_only":
        e = RuntimeError("task only")
        e._task = fe_bottom.asynq()
        return e
    if kind == "tb_none":
        e = RuntimeError("tb none")
        e._traceback = None
        return e
    if kind == "base":
        try:
            raise BErr("base")
        except BErr as e:
            return e
    if kind == "base_new":
        return BErr("base never raised")
    raise KeyError(kind)


def run_format_error(cell):
    old_f = getattr(asynq.debug, "_should_filter_traceback", True)
    old_h = getattr(asynq.debug, "_use_syntax_highlighting", True)
    try:
        e = make_exc(cell["exc"])
        tb = other_tb() if cell["tb"] == "yes" else None
        asynq.debug.enable_filter_traceback(cell["filter"] == "on")
        asynq.debug.enable_traceback_syntax_highlight(cell["highlight"] == "on")
        try:
            if tb is None:
                v = asynq.debug.format_error(e)
            else:
                v = asynq.debug.format_error(e, tb=tb)
        except BaseException as ex:  # noqa
            return ["raised", [["format_error", "%s: %s" % (type(ex).__name__, str(ex)[:100])]]]
        if v is None:
            return ["none"]
        if isinstance(v, str):
            plain = re.sub(r"\x1b\[[0-9;]*m", "", v)
            named = type(e).__name__ in plain and all(str(a) in plain for a in e.args)
            return ["str", "names" if named else "does not name %s(%s): %r" % (type(e).__name__, e.args, plain[-200:])]
        return ["other", type(v).__name__]
    finally:
        asynq.debug.enable_filter_traceback(old_f)
        asynq.debug.enable_traceback_syntax_highlight(old_h)


# ========================================================================================
RUN = {"filter": run_filter, "glue": run_glue, "life": run_life}


def main():
    sys.setrecursionlimit(20000)
    cases = json.load(sys.stdin)
    out = []
    for i, c in enumerate(cases):
        try:
            got, diff = RUN[c["part"]](c)
        except BaseException as e:  # noqa
            out.append({"i": i, "got": "harness exception %s: %s\n%s" % (type(e).__name__, e, traceback.format_exc()[-1500:]),
                        "diff": ["harness"]})
            continue
        if diff:
            out.append({"i": i, "got": got, "diff": diff})
    out.append({"n": len(cases)})
    json.dump(out, real_out)
    real_out.flush()


main()
