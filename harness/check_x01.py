"""X01 (extra check): EventHook.tla histories (TLC, exhaustive to a depth) replayed into a real asynq.tools.AsyncEventHook.

Two exploration shapes of the same specification:
  product - every handler list of length < DEPTH over the tier's handler alphabet, followed by one trigger in each of the
            seven ways to trigger (trigger / safe_trigger x synchronous call, .asynq().value(), yield from a task; hook())
  free    - every history of subscribe / unsubscribe / trigger / safe_trigger operations of length DEPTH over a smaller
            alphabet (subscriptions between triggers, unsubscribing, handlers that unsubscribe themselves)"""
import argparse
import json
import os
import sys
import time
from concurrent.futures import ThreadPoolExecutor

sys.path.insert(0, os.path.dirname(os.path.abspath(__file__)))
import common
import sat
from common import MachineryError, Scratch, Verdict

PID = "X01"
INVARIANTS = ["SafeRunsAll", "OkMeansAllRan", "RaisesIffFailed", "FirstError", "NoGhostCalls", "SubEffect", "OnceOnce", "SingleFlush"]
RUNS = {
    "quick": [{"SHAPE": "product", "ALPHA": "quick", "DEPTH": "4"}, {"SHAPE": "free", "ALPHA": "small", "DEPTH": "4"}],
    "thorough": [{"SHAPE": "product", "ALPHA": "full", "DEPTH": "4"}, {"SHAPE": "free", "ALPHA": "mid", "DEPTH": "4"},
                 {"SHAPE": "free", "ALPHA": "small", "DEPTH": "5"}],
}
KEEP = {"subscribe": ("op", "hid", "k", "b", "res"), "unsubscribe": ("op", "hid", "k", "b", "res"),
        "trigger": ("op", "conv", "args", "subs", "maybe", "fails", "calls", "flush", "out"),
        "safe_trigger": ("op", "conv", "args", "subs", "maybe", "fails", "calls", "flush", "out")}
SYNC = ("sync", "smeth")


def compact(h):
    return [{k: o[k] for k in KEEP[o["op"]]} for o in h]


def count_ok(want, have):
    return have in ("0", "1", "1/0") if want == "le1" else want == have


def signature(case, m):
    """(clause, trigger) of a mismatch: which part of the statement, and the class of situation that matters"""
    ops = case["h"]
    j = m.get("step", 0)
    o = ops[j]
    d = m["diff"]
    if "harness" in d:
        return None, None
    if o["op"] in ("subscribe", "unsubscribe"):
        return "X01." + o["op"], "%s/%s.%s/%s" % (o["op"], o["k"], o["b"], "-".join(str(x) for x in m["got"][j]["res"]))
    g = m["got"][j]
    kinds = {x["hid"]: (x["k"], x["b"]) for x in ops[:j] if x["op"] == "subscribe"}
    op = o["op"] if o["conv"] != "call" else "call"
    subs = o["subs"]

    def cls(hid):
        return "sync" if kinds[hid][0] in SYNC else "async"

    def selfunsub_before(hid):
        """a synchronous handler that unsubscribes itself is delivered to before hid in this trigger"""
        return any(kinds[s][1] == "once" and kinds[s][0] in SYNC for s in subs[:subs.index(hid)]) if hid in subs else False

    if "calls" in d:
        clause = "X01.safe.runs_all" if o["op"] == "safe_trigger" else "X01.trigger.exactly_once"
        if g["stray"]:
            return clause, "%s/call-to-unknown-handler" % op
        w = next(i + 1 for i, (a, b) in enumerate(zip(o["calls"], g["calls"])) if not count_ok(a, b))
        if w not in subs:
            return "X01.unsubscribed_not_called", "%s/%s-handler-%s/called-%s" % (op, cls(w), kinds[w][1], g["calls"][w - 1])
        ctx = "after-self-unsubscribing-sync-handler" if selfunsub_before(w) else \
            "next-to-failing-handler" if o["fails"] and w not in o["fails"] else "plain"
        return clause, "%s/%s-handler-called-%s-times/%s" % (op, cls(w), g["calls"][w - 1], ctx)
    if "args" in d:
        return "X01.args", "%s/%d-args%s" % (op, len(o["args"]), "/item-value" if g.get("anomalies") else "")
    if "out" in d:
        clause = "X01.safe.first_error" if o["op"] == "safe_trigger" else "X01.trigger.first_error"
        if o["out"]["t"] == "ok":
            return clause, "%s/no-handler-fails/got-%s" % (op, g["out"].get("cls", g["out"]["t"]))
        first = min(o["out"]["who"], key=subs.index)
        want = "first-error-%s-%s" % (cls(first), kinds[first][1])
        if g["out"]["t"] != "err":
            got = "raised-nothing" if g["out"]["t"] == "ok" else "returned-a-value"
        elif g["out"]["who"][0] in subs:
            got = "raised-error-of-later-handler" if subs.index(g["out"]["who"][0]) > subs.index(first) else "raised-error-of-earlier-handler"
        else:
            got = "raised-" + g["out"].get("cls", "?")
        return clause, "%s/%s/%s" % (op, want, got)
    n = o["flush"][1]
    return "X01.oneflush", "%s/%d-blocking-handlers/flushes-%s" % (op, n, "-".join(str(x) for x in g["flush"]) or "none")


def main():
    ap = argparse.ArgumentParser()
    ap.add_argument("pid")
    ap.add_argument("--tier", default=None)
    ap.add_argument("--replay", default=None)
    a = ap.parse_args()
    tier = a.tier or common.tier()
    t0 = time.time()
    verdict = Verdict(PID)
    with Scratch("x01") as sc:
        builds = {"pure": sc.build("pure")}
        if a.replay:
            case = json.load(open(a.replay))["case"]
            bname = case.get("build", "pure")
            if bname not in builds:
                builds[bname] = sc.build(bname)
            mism, _ = sat.replay(builds[bname], "replay_x01.py", [case["history"]], nproc=1)
            print(json.dumps(mism, indent=1))
            if mism:
                print("VIOLATION property=%s replay=%s" % (PID, a.replay))
            return 1 if mism else 0
        want_cy = tier == "thorough" and not os.environ.get("VERIF_SKIP_CY")
        runs = RUNS[tier]
        with ThreadPoolExecutor(max_workers=len(runs) + 1) as ex:
            cyf = ex.submit(sc.build, "cy") if want_cy else None
            futs = [ex.submit(sat.tlc_histories, "EventHook", "EventHook.cfg", sc, env=dict(r),
                              workers=max(2, common.NCPU // len(runs))) for r in runs]
            tlc = [f.result() for f in futs]
            if cyf:
                builds["cy"] = cyf.result()
        cases = []
        states = transitions = 0
        per_run = []
        for r, (hs, res) in zip(runs, tlc):
            alarm = sat.model_alarm(res)
            if alarm:
                raise MachineryError(alarm + " on EventHook.tla (%s): the invariants speak about the prescriptions only, the model is wrong\n%s"
                                     % (r, res.out[-2000:]))
            got = [h["h"] for h in hs if "h" in h]
            if not got:
                raise MachineryError("TLC exported no histories for %s:\n%s" % (r, res.out[-2000:]))
            per_run.append(dict(r, histories=len(got), states=res.distinct, tlc_wall_s=round(res.wall, 1)))
            states += res.distinct
            transitions += res.generated
            for h in got:
                cases.append({"h": compact(h), "ctor": len(cases) % 2, "shape": r["SHAPE"]})
        total = nmis = 0
        found = []
        for bname, bdir in builds.items():
            mism, n = sat.replay(bdir, "replay_x01.py", cases)
            total += n
            for m in mism:
                c = cases[m["i"]]
                if "harness" in m["diff"]:
                    raise MachineryError("replay_x01 crashed on %s: %s" % (json.dumps(c), m["got"]))
                nmis += 1
                clause, trig = signature(c, m)
                found.append((clause, trig, {"history": c, "got": m["got"], "step": m["step"], "diff": m["diff"], "build": bname}))
        # one replay file per distinct (clause, trigger) first, shortest history first
        found.sort(key=lambda f: (len(f[2]["history"]["h"]), f[2]["build"] != "pure"))
        firsts, rest, seen = [], [], set()
        for f in found:
            (rest if (f[0], f[1]) in seen else firsts).append(f)
            seen.add((f[0], f[1]))
        for clause, trig, obj in firsts + rest:
            verdict.report(clause, trig, obj)
        trig_ops = [o for c in cases for o in c["h"] if o["op"] in ("trigger", "safe_trigger")]
        shared = sum(1 for o in trig_ops if o["flush"][0] == "n" and o["flush"][1] >= 2)
        failing = sum(1 for o in trig_ops if o["out"]["t"] == "err")
        multi_fail = sum(1 for o in trig_ops if len(o["fails"]) >= 2)
        anyc = sum(1 for o in trig_ops if "le1" in o["calls"])
        selfuns = sum(1 for c in cases if any(o["op"] == "subscribe" and o["b"] == "once" for o in c["h"]))
        unsub = sum(1 for c in cases if any(o["op"] == "unsubscribe" for o in c["h"]))
        convs = sorted({o["conv"] for o in trig_ops})
        types = sorted({"%s.%s" % (o["k"], o["b"]) for c in cases for o in c["h"] if o["op"] == "subscribe"})
        if not (shared and failing and multi_fail and anyc and selfuns and unsub and len(convs) == 4):
            raise MachineryError("vacuous enumeration: shared-flush %d, failing %d, several failing %d, unprescribed %d, self-unsubscribing %d, "
                                 "unsubscribe %d, conventions %s" % (shared, failing, multi_fail, anyc, selfuns, unsub, convs))
        sigs = {}
        for clause, trig, _ in found:
            sigs["%s %s" % (clause, trig)] = sigs.get("%s %s" % (clause, trig), 0) + 1
        cov = {
            "states": states, "transitions": transitions, "traces_validated_against_impl": total,
            "samples": [cases[len(cases) // 5], cases[len(cases) // 2], cases[-1]],
            "histories": len(cases), "tlc_runs": per_run, "builds": list(builds), "handler_types": types, "calling_conventions": convs,
            "trigger_operations": len(trig_ops), "triggers_with_shared_flush_of_2_or_more": shared, "triggers_with_prescribed_error": failing,
            "triggers_with_several_failing_handlers": multi_fail, "triggers_with_unprescribed_counts": anyc,
            "histories_with_self_unsubscribing_handler": selfuns, "histories_with_unsubscribe": unsub,
            "model_invariants": INVARIANTS, "model_ok": all(res.ok for _, res in tlc), "mismatching_histories": nmis,
            "mismatch_signatures": sigs,
            "evaluations": total, "distinct_nontrivial": sum(1 for c in cases if any(o["op"] != "subscribe" and (o.get("fails") or o["op"] == "unsubscribe" or
                                                                                     (o.get("flush") or [0, 0])[-1] not in ("any", 0)) for o in c["h"])),
            "rule": "product: every handler list of length <= 3 over the handler alphabet (kind x behaviour) x the 7 ways to trigger; free: every history of "
                    "subscribe/unsubscribe/trigger/safe_trigger of the given depth over a smaller alphabet, last operation a trigger; "
                    "non-trivial = some handler fails, blocks, or is unsubscribed",
            "exhaustive": True,
        }
        rc = verdict.finish(max_print=max(1, min(12, len(firsts))))     # one replay file per distinct (clause, trigger)
        common.write_evidence(PID, "model_checking", cov, time.time() - t0, violations=len(verdict.violations),
                              assumptions=["at most 3 handlers per hook, histories bounded as listed in tlc_runs",
                                           "each handler object is subscribed once (no duplicates); blocking handlers block for one batching round",
                                           "EventHook has no += / -=; subscribing from inside a handler is not exercised",
                                           "where a synchronous handler fails in trigger(), nothing is prescribed for later sync handlers and for async handlers",
                                           "TLC and the replay harness are trusted"], tier_=tier)
        return rc


if __name__ == "__main__":
    common.main_wrapper(main)
