"""C03 'however deep the chain': run chains of awaiting tasks far deeper than the interpreter's recursion
limit in the real code.  These are plain executions (TLC validates chain traces only up to depth 300, see
plang.chain); the result is summarised by counters."""
import json
import subprocess
import sys

from common import PY, limit_resources, pyenv

SCRIPT = r'''
import sys, json
import asynq
from asynq import asynq as A, scheduler
from asynq.batching import DebugBatchItem
depth = int(sys.argv[1]); variant = sys.argv[2]
class Bottom(Exception):
    pass
starts = {}
resumes = {}
maxframes = [0]
def frames():
    f = sys._getframe(1); n = 0
    while f is not None:
        n += 1; f = f.f_back
    return n
@A()
def link(i):
    starts[i] = starts.get(i, 0) + 1
    if i == depth:
        maxframes[0] = max(maxframes[0], frames())
        if variant == "fail":
            raise Bottom("bottom of the chain")
        if variant == "batch":
            v = yield DebugBatchItem("deep", 7)
            resumes[i] = resumes.get(i, 0) + 1
            return v
        return 7
    if variant == "list":
        r = yield [link.asynq(i + 1), None]
        resumes[i] = resumes.get(i, 0) + 1
        return r[0] + 1
    r = yield link.asynq(i + 1)
    resumes[i] = resumes.get(i, 0) + 1
    return r + 1
out = {"depth": depth, "variant": variant, "recursionlimit": sys.getrecursionlimit()}
try:
    v = link(1)
    out["value"] = v
    out["ok_value"] = (v == 7 + depth - 1) and variant != "fail"
except Bottom:
    out["ok_value"] = variant == "fail"      # the failure at the bottom reaches the caller through every level
except BaseException as e:
    out["error"] = "%s: %s" % (type(e).__name__, str(e)[:200])
    out["ok_value"] = False
out["all_started_once"] = all(starts.get(i) == 1 for i in range(1, depth + 1))
exp_res = depth if variant == "batch" else (0 if variant == "fail" else depth - 1)
out["all_resumed_once"] = (len(resumes) == exp_res and all(v == 1 for v in resumes.values()))
out["max_python_frames_at_bottom"] = maxframes[0]
s = scheduler.get_scheduler()
out["tasks_left"] = len(s._tasks)
out["active"] = str(scheduler.get_active_task())
json.dump(out, sys.stderr)
'''


def run(build_dir, depths, timeout=900):
    summary, bad = [], []
    for d in depths:
        for variant in ("plain", "list", "batch", "fail"):
            try:
                r = subprocess.run([PY, "-c", SCRIPT, str(d), variant], capture_output=True, text=True,
                                   env=pyenv(build_dir), timeout=timeout, preexec_fn=limit_resources(12))
                line = r.stderr.strip().splitlines()[-1] if r.stderr.strip() else "{}"
                try:
                    o = json.loads(line)
                except ValueError:
                    o = {"depth": d, "variant": variant, "error": "rc=%d %s" % (r.returncode, r.stderr[-300:])}
            except subprocess.TimeoutExpired:
                o = {"depth": d, "variant": variant, "error": "timeout (hang)"}
            ok = o.get("ok_value") and o.get("all_started_once") and o.get("all_resumed_once") and \
                o.get("tasks_left") == 0 and o.get("active") == "None" and o.get("max_python_frames_at_bottom", 10**9) < 60
            o["ok"] = bool(ok)
            summary.append(o)
            if not ok:
                bad.append(o)
    return {"summary": summary, "bad": bad}


if __name__ == "__main__":
    print(json.dumps(run(sys.argv[1], [int(x) for x in sys.argv[2:]]), indent=1))
