"""C03 'however deep the chain': run chains of awaiting tasks far deeper than the interpreter's recursion
limit in the real code.  These are plain executions (TLC validates chain traces only up to depth 300, see
plang.chain); the result is summarised by counters."""
import json
import subprocess
import sys

from common import PY, limit_resources, pyenv

SCRIPT = r'''
import sys, json
import asynq
from asynq import asynq as A, scheduler
from asynq.batching import DebugBatchItem
depth = int(sys.argv[1]); variant = sys.argv[2]
import os
_opts = json.loads(os.environ.get("DC_OPTS", "{}"))
if _opts:
    # debug options on, with a scripted clock that advances 10 ms per reading (a time based dump every ~100 steps)
    import asynq.scheduler as _sm
    from asynq import _debug
    class _Clock(object):
        now = 1.7e9
        def time(self):
            self.now += 0.01
            return self.now
    _sm.time = _Clock()
    _c = _Clock()
    _sm.utime = lambda: int(_c.time() * 1000000)
    for k, v in _opts.items():
        setattr(_debug.options, k, v)
    _sm.reset()          # a scheduler created under the scripted clock
    devnull = open(os.devnull, "w")
    os.dup2(devnull.fileno(), 1)
class Bottom(Exception):
    pass
starts = {}
resumes = {}
maxframes = [0]
def frames():
    f = sys._getframe(1); n = 0
    while f is not None:
        n += 1; f = f.f_back
    return n
@A()
def link(i):
    starts[i] = starts.get(i, 0) + 1
    if i == depth:
        maxframes[0] = max(maxframes[0], frames())
        if variant == "fail":
            raise Bottom("bottom of the chain")
        if variant == "batch":
            v = yield DebugBatchItem("deep", 7)
            resumes[i] = resumes.get(i, 0) + 1
            return v
        return 7
    if variant == "list":
        r = yield [link.asynq(i + 1), None]
        resumes[i] = resumes.get(i, 0) + 1
        return r[0] + 1
    r = yield link.asynq(i + 1)
    resumes[i] = resumes.get(i, 0) + 1
    return r + 1
out = {"depth": depth, "variant": variant, "recursionlimit": sys.getrecursionlimit()}
try:
    v = link(1)
    out["value"] = v
    out["ok_value"] = (v == 7 + depth - 1) and variant != "fail"
except Bottom:
    out["ok_value"] = variant == "fail"      # the failure at the bottom reaches the caller through every level
except BaseException as e:
    out["error"] = "%s: %s" % (type(e).__name__, str(e)[:200])
    out["ok_value"] = False
out["all_started_once"] = all(starts.get(i) == 1 for i in range(1, depth + 1))
exp_res = depth if variant == "batch" else (0 if variant == "fail" else depth - 1)
out["all_resumed_once"] = (len(resumes) == exp_res and all(v == 1 for v in resumes.values()))
out["max_python_frames_at_bottom"] = maxframes[0]
s = scheduler.get_scheduler()
out["tasks_left"] = len(s._tasks)
out["active"] = str(scheduler.get_active_task())
json.dump(out, sys.stderr)
'''


def _one(build_dir, d, variant, timeout, options):
    try:
        r = subprocess.run([PY, "-c", SCRIPT, str(d), variant], capture_output=True, text=True,
                           env=pyenv(build_dir, {"DC_OPTS": json.dumps(options or {})}), timeout=timeout,
                           preexec_fn=limit_resources(12))
        line = r.stderr.strip().splitlines()[-1] if r.stderr.strip() else "{}"
        try:
            o = json.loads(line)
        except ValueError:
            o = {"depth": d, "variant": variant, "error": "rc=%d %s" % (r.returncode, r.stderr[-300:])}
    except subprocess.TimeoutExpired:
        o = {"depth": d, "variant": variant, "error": "timeout (hang)"}
    ok = o.get("ok_value") and o.get("all_started_once") and o.get("all_resumed_once") and \
        o.get("tasks_left") == 0 and o.get("active") == "None" and o.get("max_python_frames_at_bottom", 10**9) < 60
    o["ok"] = bool(ok)
    o["options"] = options or {}
    return o


def run(build_dir, depths, timeout=900, options=None, variants=("plain", "list", "batch", "fail")):
    from concurrent.futures import ThreadPoolExecutor
    cases = [(d, v) for d in depths for v in variants]
    with ThreadPoolExecutor(max_workers=8) as ex:
        summary = list(ex.map(lambda c: _one(build_dir, c[0], c[1], timeout, options), cases))
    return {"summary": summary, "bad": [o for o in summary if not o["ok"]]}


if __name__ == "__main__":
    print(json.dumps(run(sys.argv[1], [int(x) for x in sys.argv[2:]]), indent=1))
