"""Replays Decorators.tla histories: builds the decorated function / class for real and performs every prescribed
access + call (runs inside the build under test).  Every body, sync_fn and proxy ends in LOG, so that which body
ran, with which bound first argument and which normalised arguments is observed, not inferred."""
import json
import os
import sys

devnull = open(os.devnull, "w")
real_out = os.fdopen(os.dup(1), "w")
os.dup2(devnull.fileno(), 1)
sys.stdout = devnull
if not os.environ.get("VERIF_DEBUG"):
    os.dup2(devnull.fileno(), 2)

import asynq
from asynq import ConstFuture, ErrorFuture, async_call, async_proxy, result
from asynq import asynq as A
from asynq.batching import DebugBatchItem
from asynq.decorators import (get_async_fn, get_async_or_sync_fn, has_async_fn, is_async_fn, is_pure_async_fn,
                              make_async_decorator)
from asynq.futures import FutureBase
from asynq.tools import acached_per_instance, alru_cache, aretry, deduplicate


@A()
def child(x):
    return x + 100


class VErr(Exception):
    __bool__ = lambda self: sum(map(ord, str(self.args))) % 2 == 0       # unusual but legal: about half of the exception objects are falsy

    """what a failing body raises; the payload says which body ran with which bound object and arguments"""

    def __init__(self, payload):
        Exception.__init__(self, repr(payload))
        self.payload = payload


class Foreign(object):
    """a foreign synchronous wrapper (think: tracing decorator of another library): exposes the wrapped callable as
    `.fn`, has no `asynq` / `is_pure_async_fn` of its own, its call is the direct call of what it wraps"""

    def __init__(self, fn):
        self.fn = fn

    def __call__(self, *args, **kwargs):
        return self.fn(*args, **kwargs)


def build(deco, defk, bodyk, ending="return", fail=0):
    """-> (env, LOG): env holds f (function) or C / Sub / inst / subinst / falsy with the attribute `meth`.
    ending: the asynq bodies end with `return x` or with `result(x); return`; fail: every body raises VErr instead"""
    LOG = []
    env = {}

    def tok(first):
        for name in ("inst", "subinst", "falsy"):
            if first is env.get(name):
                return name
        if first is env.get("C"):
            return "cls"
        if first is env.get("Sub"):
            return "sub"
        return "other:%s" % type(first).__name__

    def res(which, t, a, b, k, extra):
        if fail:
            raise VErr([which, t, a, b, k, extra])
        return [which, t, a, b, k, extra]

    def mk(which, bk, has_first, log=True, ret=res, end="return"):
        def plain(t, a, b, k):
            if log:
                LOG.append([which, t, [a, b, k]])
            return ret(which, t, a, b, k, 0)

        def gen(t, a, b, k):
            if log:
                LOG.append([which, t, [a, b, k]])
            v = yield child.asynq(a)
            return ret(which, t, a, b, k, v)

        def batch(t, a, b, k):
            if log:
                LOG.append([which, t, [a, b, k]])
            v = yield DebugBatchItem("c09", a + 200)
            return ret(which, t, a, b, k, v)

        if has_first:
            if bk == "plain":
                def body(first, a, b=20, *, k=30):
                    v = plain(tok(first), a, b, k)
                    if end == "result":
                        result(v)
                        return
                    return v
            elif bk == "gen":
                def body(first, a, b=20, *, k=30):
                    v = yield from gen(tok(first), a, b, k)
                    if end == "result":
                        result(v)
                        return
                    return v
            else:
                def body(first, a, b=20, *, k=30):
                    v = yield from batch(tok(first), a, b, k)
                    if end == "result":
                        result(v)
                        return
                    return v
        else:
            if bk == "plain":
                def body(a, b=20, *, k=30):
                    v = plain("none", a, b, k)
                    if end == "result":
                        result(v)
                        return
                    return v
            elif bk == "gen":
                def body(a, b=20, *, k=30):
                    v = yield from gen("none", a, b, k)
                    if end == "result":
                        result(v)
                        return
                    return v
            else:
                def body(a, b=20, *, k=30):
                    v = yield from batch("none", a, b, k)
                    if end == "result":
                        result(v)
                        return
                    return v
        return body

    has_first = defk in ("method", "classmethod")
    desc = {"function": lambda x: x, "method": lambda x: x, "classmethod": classmethod, "staticmethod": staticmethod}[defk]
    if deco in ("proxy_task", "proxy_sync"):
        # the proxy (a plain function that is logged) hands over to a task whose body is of the requested kind
        work = A()(mk("async", bodyk, False, log=False, end=ending))

        @A()
        def inner(t, a, b, k):
            try:
                r = yield work.asynq(a, b, k=k)
            except VErr as e:
                e.payload[1] = t
                raise
            return [r[0], t] + r[2:]

        body = mk("async", "plain", has_first, ret=lambda which, t, a, b, k, e: inner.asynq(t, a, b, k))
    elif deco == "proxy_const":
        body = mk("async", "plain", has_first, ret=lambda which, t, a, b, k, e: ErrorFuture(VErr([which, t, a, b, k, e])) if fail
                  else ConstFuture(res(which, t, a, b, k, e)))
    elif deco == "plain":
        body = mk("async", bodyk, has_first)
    else:
        body = mk("async", bodyk, has_first, end=ending)
    sync_body = mk("sync", "plain", has_first)
    if defk == "function":
        sync_body = FalsyCallable(sync_body)        # a callable OBJECT that happens to be falsy is a perfectly good sync_fn
    if deco == "plain":
        f = desc(body)
    elif deco == "asynq":
        f = A()(desc(body))
    elif deco == "pure":
        f = A(pure=True)(desc(body))
    elif deco in ("proxy_task", "proxy_const"):
        f = async_proxy()(desc(body))
    elif deco == "asynq_sync":
        f = A(sync_fn=desc(sync_body))(desc(body))      # sync_fn of the same descriptor kind, as in asynq's tests
    elif deco == "proxy_sync":
        f = async_proxy(sync_fn=sync_body)(desc(body))  # a plain function receiving the bound object
    elif deco in ("mad", "mad_done", "mad_const"):
        inner_f = A()(desc(body))

        @A(pure=True)
        def wrapper_fn(*args, **kwargs):
            v = yield inner_f.asynq(*args, **kwargs)
            return ["wrapped", v]

        def wrapper_done(*args, **kwargs):      # hands back a task that is ALREADY COMPUTED (value or error)
            t = wrapper_fn(*args, **kwargs)
            try:
                t.value()
            except VErr:
                pass
            return t

        def wrapper_const(*args, **kwargs):     # hands back a ConstFuture / an ErrorFuture
            try:
                v = inner_f(*args, **kwargs)
            except VErr as e:
                return ErrorFuture(e)
            return ConstFuture(["wrapped", v])

        f = make_async_decorator(inner_f, {"mad": wrapper_fn, "mad_done": wrapper_done, "mad_const": wrapper_const}[deco], "wrapped")
    elif deco == "dedup":
        f = deduplicate()(A()(desc(body)))
    elif deco == "aretry":
        f = aretry(KeyError)(A()(desc(body)))     # VErr is not retried (retrying is C14's subject)
    elif deco == "alru":
        f = alru_cache()(A()(desc(body)))
    elif deco == "acpi":
        f = acached_per_instance()(A()(desc(body)))
    else:
        raise ValueError(deco)
    if defk == "function":
        env["f"] = f
    else:
        class C(object):
            meth = f

        class Sub(C):
            pass

        class Falsy(C):
            def __bool__(self):
                return False

            def __len__(self):
                return 0

        env.update(C=C, Sub=Sub, inst=C(), subinst=Sub(), falsy=Falsy())
    return env, LOG


def access(env, defk, via, wrap):
    """-> (object to call, explicit leading arguments).  Wrapped objects are kept per (via, wrap) for the whole
    history, so that whatever the helpers memoise on a wrapper is still there at the next call through it."""
    pre = [env["inst"]] if defk == "method" and via == "cls" else []
    if wrap and (via, wrap) in env["wrappers"]:
        return env["wrappers"][(via, wrap)], pre
    if defk == "function":
        obj = env["f"]
    elif defk == "method" and via == "cls":
        obj = env["C"].meth
    else:
        holder = {"inst": "inst", "subinst": "subinst", "falsy": "falsy", "cls": "C", "sub": "Sub"}[via]
        obj = getattr(env[holder], "meth")
    for _ in range(wrap):
        obj = Foreign(obj)
    if wrap:
        env["wrappers"][(via, wrap)] = obj
    return obj, pre


def direct(obj, conv, pos, kw):
    """-> (value, 1/0 whether the call returned a future); raises what the call / .value() raises"""
    if conv == "sync":
        r = obj(*pos, **kw)
    elif conv == "asynq":
        r = obj.asynq(*pos, **kw)
    elif conv == "get_async_fn":
        r = get_async_fn(obj)(*pos, **kw)
    elif conv == "get_async_fn_wrap":
        r = get_async_fn(obj, wrap_if_none=True)(*pos, **kw)
    else:
        r = get_async_or_sync_fn(obj)(*pos, **kw)
    isf = isinstance(r, FutureBase)
    return [(r.value() if isf else r), (1 if isf else 0)]


def perform(obj, conv, pos, kw, pure):
    """one call through `conv` from where we stand (top level, or the body of a running task)"""
    if conv in ("sync", "asynq", "get_async_fn", "get_async_or_sync_fn", "get_async_fn_wrap"):
        return direct(obj, conv, pos, kw)
    if conv == "yield":
        @A()
        def caller():
            v = yield (obj(*pos, **kw) if pure else obj.asynq(*pos, **kw))
            return v
        return [caller(), None]
    if conv == "async_call":
        @A()
        def caller2():
            v = yield async_call.asynq(obj, *pos, **kw)
            return v
        return [caller2(), None]
    raise ValueError(conv)


class FalsyCallable(object):
    def __init__(self, f):
        self.f = f

    def __call__(self, *a, **kw):
        return self.f(*a, **kw)

    def __len__(self):
        return 0


class Terminated(Exception):
    pass


def call(obj, conv, pos, kw, pure, ctx):
    """-> [value, returned_a_future or None]; ctx 'task': the call is made from the body of a running task"""
    if ctx == "top":
        return perform(obj, conv, pos, kw, pure)
    box = {}

    @A()
    def outer():
        yield child.asynq(0)
        box["r"] = perform(obj, conv, pos, kw, pure)
        yield child.asynq(0)
        box["after"] = True
        return "outer done"

    out = outer()
    if out != "outer done" or "after" not in box:
        raise Terminated("the calling task ended at the nested call with %r" % (out,))
    return box["r"]


def classify(obj):
    return {"is_async": int(bool(is_async_fn(obj))), "is_pure": int(bool(is_pure_async_fn(obj))),
            "has_async": int(bool(has_async_fn(obj))), "get_async_fn_none": int(get_async_fn(obj) is None)}


def run_history(case):
    asynq.scheduler.reset()
    env, LOG = build(case["deco"], case["defk"], case["body"], case.get("ending", "return"), case.get("fail", 0))
    env["wrappers"] = {}
    got = []
    for o in case["h"]:
        del LOG[:]
        g = {}
        try:
            obj, pre = access(env, case["defk"], o["via"], o.get("wrap", 0))
            g["cls"] = classify(obj)
            kw = dict((n, v) for n, v in o["kw"])
            # the yield convention goes through what the classification prescribes (pure: the call itself is the future)
            try:
                v, isf = call(obj, o["conv"], pre + list(o["pos"]), kw, o["cls"]["is_pure"] == 1, o.get("ctx", "top"))
            except VErr as e:
                v, isf = ["err", e.payload], None
            g["out"] = v
            g["fut"] = isf
            g["cls_again"] = classify(obj)      # the helpers memoise on some objects: the answer must not change
        except BaseException as e:
            g["raised"] = "%s: %s" % (type(e).__name__, e)
            asynq.scheduler.reset()
        g["log"] = [list(x) for x in LOG]
        got.append(g)
    return got


def expected(o):
    r = o["res"]
    base = [r["ran"], r["bound"], r["a"], r["b"], r["k"], r["extra"]]
    out = ["err", base] if r.get("err") else ["wrapped", base] if r["wrapped"] else base
    return {"log": [[r["ran"], r["bound"], [r["a"], r["b"], r["k"]]]], "out": out}


def differs(o, g):
    """names of the aspects that differ: body / bound / args / outcome / future / classify"""
    if "raised" in g:
        return ["raised"]
    e = expected(o)
    d = []
    if len(g["log"]) != 1:
        d.append("body")
    else:
        w, l = e["log"][0], g["log"][0]
        if l[0] != w[0]:
            d.append("body")
        if l[1] != w[1]:
            d.append("bound")
        if l[2] != w[2]:
            d.append("args")
    if g["out"] != e["out"]:
        d.append("outcome")
    if g["fut"] is not None and g["fut"] != o["res"]["fut"]:
        d.append("future")
    if g["cls"] != o["cls"] or g.get("cls_again") != o["cls"]:
        d.append("classify")
    return d


def main():
    cases = json.load(sys.stdin)
    out = []
    for i, c in enumerate(cases):
        try:
            got = run_history(c)
        except BaseException as e:
            out.append({"i": i, "got": "harness exception %s: %s" % (type(e).__name__, e), "diff": [0], "aspects": ["harness"]})
            continue
        diff, aspects = [], []
        for j, (o, g) in enumerate(zip(c["h"], got)):
            d = differs(o, g)
            if d:
                diff.append(j)
                aspects = aspects or d
        if diff:
            out.append({"i": i, "got": got, "diff": diff, "aspects": aspects})
    out.append({"n": len(cases)})
    json.dump(out, real_out, default=lambda x: "<%s>" % type(x).__name__)
    real_out.flush()


main()
