"""Replays EventHook.tla histories into a real asynq.tools.AsyncEventHook (runs inside the build under test)."""
import json
import os
import sys

devnull = open(os.devnull, "w")
real_out = os.fdopen(os.dup(1), "w")
os.dup2(devnull.fileno(), 1)
sys.stdout = devnull
os.dup2(devnull.fileno(), 2)

import asynq
from asynq import async_proxy
from asynq.batching import BatchBase, BatchItemBase
from asynq.tools import AsyncEventHook


class VExc(Exception):
    def __init__(self, hid):
        Exception.__init__(self, "handler %d failed" % hid)
        self.hid = hid


class VBase(BaseException):
    def __init__(self, hid):
        BaseException.__init__(self, "handler %d failed (BaseException)" % hid)
        self.hid = hid


class VFalsy(Exception):
    """unusual but legal: an exception object that is falsy"""

    def __init__(self, hid):
        Exception.__init__(self, "handler %d failed (falsy exception object)" % hid)
        self.hid = hid

    def __bool__(self):
        return False


class St(object):
    cur = None          # the open batch
    flushes = []        # item counts of the flushes of the current trigger
    log = []            # ("start" | "end", hid, args)
    anomalies = []


class B(BatchBase):
    def _try_switch_active_batch(self):
        if St.cur is self:
            St.cur = None

    def _flush(self):
        St.flushes.append(len(self.items))
        for it in self.items:
            it.set_value(7)


class It(BatchItemBase):
    pass


def item():
    if St.cur is None:
        St.cur = B()
    return It(St.cur)


def make(hook, hid, k, b):
    """returns the handler object to subscribe"""
    ref = []

    def start(args):
        St.log.append(("start", hid, list(args)))

    def finish(args):
        St.log.append(("end", hid, list(args)))
        if b == "once":
            hook[0].unsubscribe(ref[0])
        elif b == "exc":
            raise VExc(hid)
        elif b == "base":
            raise VBase(hid)
        elif b == "falsy":
            raise VFalsy(hid)

    def block():
        v = yield item()
        if v != 7:
            St.anomalies.append("item value %r" % (v,))

    if k == "sync":
        def h(*args):
            start(args)
            finish(args)
    elif k == "smeth":
        class O(object):
            def on_event(self, *args):
                start(args)
                finish(args)
        h = O().on_event
    elif k == "async":
        @asynq.asynq()
        def h(*args):
            start(args)
            finish(args)
    elif k == "ablock":
        @asynq.asynq()
        def h(*args):
            start(args)
            yield from block()
            finish(args)
    elif k == "proxy":
        @asynq.asynq()
        def body(*args):
            yield from block()
            finish(args)

        @async_proxy()
        def h(*args):
            start(args)
            return body.asynq(*args)
    elif k == "ameth":
        class P(object):
            @asynq.asynq()
            def on_event(self, *args):
                start(args)
                finish(args)
        h = P().on_event
    else:
        raise ValueError(k)
    ref.append(h)
    return h


def count(hid):
    s = sum(1 for e in St.log if e[0] == "start" and e[1] == hid)
    f = sum(1 for e in St.log if e[0] == "end" and e[1] == hid)
    return str(s) if s == f else "%d/%d" % (s, f)


def fire(hook, op, conv, args):
    m = getattr(hook, op)
    if conv == "sync":
        return m(*args)
    if conv == "call":
        return hook(*args)
    if conv == "value":
        return m.asynq(*args).value()
    if conv == "yield":
        @asynq.asynq()
        def driver():
            r = yield m.asynq(*args)
            return r
        return driver()
    raise ValueError(conv)


def run_history(ops, ctor):
    asynq.scheduler.reset()
    St.cur = None
    hookref = []
    handlers = {}
    got = []
    lead = 0
    if ctor:
        # leading subscriptions go through the constructor's handler list
        while lead < len(ops) and ops[lead]["op"] == "subscribe":
            lead += 1
        initial = []
        for o in ops[:lead]:
            handlers[o["hid"]] = make(hookref, o["hid"], o["k"], o["b"])
            initial.append(handlers[o["hid"]])
            got.append({"res": ["ok"]})
        hook = AsyncEventHook(initial)
    else:
        hook = AsyncEventHook()
    hookref.append(hook)
    for o in ops[lead:]:
        op = o["op"]
        if op == "subscribe":
            handlers[o["hid"]] = make(hookref, o["hid"], o["k"], o["b"])
            r = hook.subscribe(handlers[o["hid"]])
            got.append({"res": ["ok"] if r is None else ["returned", repr(r)]})
        elif op == "unsubscribe":
            try:
                hook.unsubscribe(handlers[o["hid"]])
                got.append({"res": ["ok"]})
            except Exception as e:
                got.append({"res": ["raised", type(e).__name__]})
        else:
            St.cur = None
            St.flushes = []
            St.log = []
            St.anomalies = []
            try:
                r = fire(hook, op, o["conv"], o["args"])
                out = {"t": "ok", "who": []} if r is None else {"t": "returned", "who": [], "what": repr(r)}
            except BaseException as e:
                if isinstance(e, (VExc, VBase, VFalsy)):
                    out = {"t": "err", "who": [e.hid], "cls": type(e).__name__}
                else:
                    out = {"t": "err", "who": [-1], "cls": type(e).__name__, "msg": str(e)[:200]}
            nids = len(o["calls"])
            g = {"out": out, "calls": [count(i) for i in range(1, nids + 1)], "flush": list(St.flushes),
                 "args_ok": all(e[2] == list(o["args"]) for e in St.log),
                 "stray": sorted({e[1] for e in St.log if e[1] > nids})}
            if St.anomalies:
                g["anomalies"] = list(St.anomalies)
            got.append(g)
    return got


def count_ok(want, have):
    if want == "le1":
        return have in ("0", "1", "1/0")
    return want == have


def diffs(o, g):
    """names of the prescribed parts of operation o that the real result g does not meet"""
    if o["op"] in ("subscribe", "unsubscribe"):
        return [] if o["res"] == ["any"] or list(o["res"]) == g["res"] else ["res"]
    d = []
    if not all(count_ok(w, h) for w, h in zip(o["calls"], g["calls"])) or g["stray"]:
        d.append("calls")
    if not g["args_ok"] or g.get("anomalies"):
        d.append("args")
    if o["flush"] != ["any"]:
        n = o["flush"][1]
        if g["flush"] != ([n] if n else []):
            d.append("flush")
    if o["out"]["t"] != g["out"]["t"] or (o["out"]["t"] == "err" and g["out"]["who"][0] not in o["out"]["who"]):
        d.append("out")
    return d


def main():
    cases = json.load(sys.stdin)
    out = []
    for i, c in enumerate(cases):
        ops = c["h"]
        try:
            got = run_history(ops, c.get("ctor", 0))
        except BaseException as e:
            out.append({"i": i, "got": "harness exception %s: %s" % (type(e).__name__, e), "diff": ["harness"], "step": 0})
            continue
        for j, (o, g) in enumerate(zip(ops, got)):
            d = diffs(o, g)
            if d:
                out.append({"i": i, "got": got, "diff": d, "step": j})
                break
    out.append({"n": len(cases)})
    json.dump(out, real_out)
    real_out.flush()


main()
