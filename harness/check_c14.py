"""C14: Helpers.tla (enumerating oracle: TLC enumerates every cell of the input product and computes the built-in's
result with TLA+ operators) against the real asynq.tools helpers, plus the one-batching-round count."""
import argparse
import json
import os
import sys
import time

sys.path.insert(0, os.path.dirname(os.path.abspath(__file__)))
import common
import sat
from common import MachineryError, Scratch, Verdict

PID = "C14"
INVARIANTS = ["SortOracleOK", "ExtremesOK", "PartitionOK", "RetryOK"]


ITER = {"list": "list", "tuple": "tuple", "gen": "one-shot:generator", "iter": "one-shot:iter", "map": "one-shot:map",
        "reversed": "one-shot:reversed", "chain": "one-shot:chain"}
CALLABLE = {"plain": "asynq-plain", "block": "asynq-generator", "proxy": "async_proxy", "wrap": "make_async_decorator"}


def trigger(cell, what):
    """signature of a failing cell: the input class that matters"""
    if cell["h"] == "aretry":
        return "aretry/%s/raises-at-%s/%s/k%s%s" % (CALLABLE[cell["fk"]], "call" if cell["form"] == "call" else "await", cell["x"],
                                                   "<" if cell["k"] < cell["mt"] else ">=", "max_tries")
    bits = [cell["h"], ITER[cell["it"]] if cell["form"] == "one" else
            {"var": "varargs", "zero": "no-args", "kw": "bad-keyword"}[cell["form"]],
            {"none": "no-fn", "plain": "async-fn", "block": "blocking-fn"}[cell["fk"]]]
    if cell["ek"] in ("rec", "eq0", "eq1"):
        bits.append("equal-but-distinct-elements")
    if len(cell["xs"]) > 256:
        bits.append("more-than-256-elements")
    return "/".join(bits)


def nontrivial(cell):
    xs = cell["xs"]
    return cell["h"] == "aretry" and cell["k"] > 0 or len(xs) >= 2 and (len(set(xs)) < len(xs) or -1 in xs or cell["it"] not in ("list", "tuple"))


def main():
    ap = argparse.ArgumentParser()
    ap.add_argument("pid")
    ap.add_argument("--tier", default=None)
    ap.add_argument("--replay", default=None)
    a = ap.parse_args()
    tier = a.tier or common.tier()
    t0 = time.time()
    verdict = Verdict(PID)
    with Scratch("c14") as sc:
        builds = {"pure": sc.build("pure")}
        if tier == "thorough" and not a.replay and not os.environ.get("VERIF_SKIP_CY"):
            builds["cy"] = sc.build("cy")
        if a.replay:
            case = json.load(open(a.replay))["case"]
            bname = case.get("build", "pure")
            if bname not in builds:
                builds[bname] = sc.build(bname)
            mism, _ = sat.replay(builds[bname], "replay_c14.py", [case["cell"]], nproc=1)
            print(json.dumps(mism, indent=1))
            bad = [m for m in mism if m["diff"] != ["spec"]]
            if bad:
                print("VIOLATION property=%s replay=%s" % (PID, a.replay))
            return 1 if bad else 0
        maxlen = 3 if tier == "quick" else 4
        hs, res = sat.tlc_histories("Helpers", "Helpers.cfg", sc, env={"MAXLEN": str(maxlen)})
        alarm = sat.model_alarm(res)
        if alarm:
            raise MachineryError(alarm + ": the oracle's own algebra fails, Helpers.tla is wrong\n" + res.out[-2000:])
        cases = [{"cell": h["cell"], "out": h["out"]} for h in hs if "cell" in h]
        if not cases:
            raise MachineryError("TLC exported no cells:\n" + res.out[-2000:])
        total = nmis = 0
        found = []
        for bname, bdir in builds.items():
            mism, n = sat.replay(bdir, "replay_c14.py", cases)
            total += n
            for m in mism:
                c = cases[m["i"]]
                if "harness" in m["diff"]:
                    raise MachineryError("replay_c14 crashed on %s: %s" % (json.dumps(c["cell"]), m["got"]))
                if "spec" in m["diff"]:
                    raise MachineryError("Helpers.tla disagrees with the Python built-in on %s: prescribed %s, built-in %s"
                                         % (json.dumps(c["cell"]), json.dumps(c["out"]["res"]), json.dumps(m["got"].get("builtin"))))
                nmis += 1
                what = m["diff"][0]
                clause = {"res": "C14." + ("retry" if c["cell"]["h"] == "aretry" else "equal"), "flushes": "C14.oneflush", "execs": "C14.retry"}[what]
                found.append((clause, trigger(c["cell"], what), {"cell": c, "got": m["got"], "diff": m["diff"], "build": bname}))
        firsts, rest, seen = [], [], set()
        for f in found:
            (rest if (f[0], f[1]) in seen else firsts).append(f)
            seen.add((f[0], f[1]))
        for clause, trig, obj in firsts + rest:
            verdict.report(clause, trig, obj)
        per_helper = {}
        for c in cases:
            per_helper[c["cell"]["h"]] = per_helper.get(c["cell"]["h"], 0) + 1
        oneflush = sum(1 for c in cases if c["out"]["flushes"] == 1)
        if oneflush == 0 or len(per_helper) < 8:
            raise MachineryError("vacuous enumeration: helpers %s, cells with a prescribed flush count %d" % (sorted(per_helper), oneflush))
        cov = {
            "states": res.distinct, "transitions": res.generated, "traces_validated_against_impl": total,
            "samples": [c for c in (cases[len(cases) // 7], cases[len(cases) // 2], cases[-1]) if len(c["cell"]["xs"]) < 9],
            "cells": len(cases), "cells_per_helper": per_helper, "cells_with_prescribed_single_flush": oneflush,
            "max_input_length": maxlen, "long_inputs": sorted({len(c["cell"]["xs"]) for c in cases if len(c["cell"]["xs"]) > 256}),
            "cells_with_equal_but_distinct_elements": sum(1 for c in cases if c["cell"]["ek"] in ("rec", "eq0", "eq1")),
            "builds": list(builds),
            "model_invariants": INVARIANTS, "model_ok": res.ok, "mismatching_cells": nmis,
            "oracle_cross_checked_against_builtins": sum(n for h, n in per_helper.items() if h != "aretry") * len(builds),
            "evaluations": total, "distinct_nontrivial": sum(1 for c in cases if nontrivial(c["cell"])),
            "rule": "complete product: helper x every sequence of length <= %d over {None, 3 keys} (+ sequences of 257 and 600 elements with a blocking function) x element kind (objects, ints, equal-but-distinct values 1/True/1.0 and 0/False/0.0, records with a permissive __eq__) x iterable kind (list, tuple, generator, iter(), map, reversed, chain) x call form x "
                    "function kind x reverse, aretry: k in 0..4 x max_tries in -1..4 x outcome x listed classes x callable kind (@asynq plain, @asynq generator, @async_proxy, make_async_decorator) x raise at call / at await time; "
                    "non-trivial = duplicates, None elements or a one-shot iterator among >= 2 elements, or a retry that fails at least once" % maxlen,
            "exhaustive": True,
        }
        rc = verdict.finish(max_print=8)
        common.write_evidence(PID, "model_checking", cov, time.time() - t0, violations=len(verdict.violations),
                              assumptions=["inputs are bounded (length <= %d, three distinct keys plus None)" % maxlen,
                                           "the specification is an enumerating oracle (a transcription of the built-ins); every cell of it is cross-checked against the Python built-in on the same input",
                                           "functions passed are asynchronous functions or None where the helper documents None (afilter, asorted, amax, amin); afilterfalse/amap/asift with None are not prescribed",
                                           "flush count prescribed only for a blocking function on a non-empty valid input",
                                           "TLC and the replay harness are trusted"], tier_=tier)
        return rc


if __name__ == "__main__":
    common.main_wrapper(main)
