"""Shared driver for the satellite specifications (C09-C19): TLC enumerates every operation history of a
small explicit state machine up to a depth (the prescribed result of each operation is part of the history),
checks the property's invariants on the model, and prints the histories; every history is replayed into the
real objects by a replay script running inside the build under test, result by result."""
import json
import os
import subprocess
import time
from concurrent.futures import ThreadPoolExecutor

import common
from common import NCPU, PY, VERIF, MachineryError, pyenv


def tlc_histories(module, cfg, scratch, env=None, timeout=3000, workers=None, coverage=False):
    """Run TLC; returns (histories, TlcResult).  A refuted invariant/property is returned in res (not raised)."""
    res = common.run_tlc(module, cfg, scratch, env=env, timeout=timeout, workers=workers, coverage=coverage)
    if res.timed_out:
        raise MachineryError("TLC timed out on %s" % module)
    if not res.ok and not (res.invariant_violated or "violated" in res.out):
        raise MachineryError("TLC failed on %s rc=%s:\n%s" % (module, res.rc, res.out[-4000:]))
    hs = [v for v in res.printed() if isinstance(v, dict)]
    return hs, res


def replay(build_dir, script, cases, nproc=None, timeout=3000, extra_env=None, chunk=None):
    """cases: list of JSON-able histories; script: file in harness/ run with PYTHONPATH=build.  The script reads
    a JSON list on stdin and writes a JSON list of {"i": index, "got": [...], "diff": [...]} for mismatching
    cases only (plus {"n": count} last).  Returns (mismatches, n_replayed)."""
    nproc = nproc or NCPU
    if not cases:
        return [], 0
    chunk = chunk or max(1, (len(cases) + nproc - 1) // nproc)
    chunks = [(i, cases[i:i + chunk]) for i in range(0, len(cases), chunk)]

    def one(arg):
        off, ch = arg
        r = subprocess.run([PY, "-W", "ignore", os.path.join(VERIF, "harness", script)], input=json.dumps(ch),
                           capture_output=True, text=True, env=pyenv(build_dir, extra_env), timeout=timeout,
                           preexec_fn=common.limit_resources())
        if r.returncode != 0:
            raise MachineryError("%s failed rc=%d:\n%s" % (script, r.returncode, r.stderr[-3000:]))
        out = json.loads(r.stdout)
        n = out.pop()["n"]
        for m in out:
            m["i"] += off
        return out, n

    with ThreadPoolExecutor(max_workers=nproc) as ex:
        res = list(ex.map(one, chunks))
    mism, n = [], 0
    for o, k in res:
        mism += o
        n += k
    return mism, n


def model_alarm(res):
    if res.ok:
        return None
    bits = res.invariant_violated + [x for x in res.property_violated if x]
    return "TLC refuted %s" % (",".join(sorted(set(bits))) or "a property")
