"""Replays Cache.tla histories into the real alru_cache / acached_per_instance / alazy_constant
(runs inside the build under test).  Only executes and compares; what is right is prescribed by the histories."""
import gc
import json
import os
import sys

devnull = open(os.devnull, "w")
real_out = os.fdopen(os.dup(1), "w")
os.dup2(devnull.fileno(), 1)
sys.stdout = devnull
os.dup2(devnull.fileno(), 2)

import asynq
import asynq.tools
from asynq import asynq as asynq_deco
from asynq.batching import DebugBatchItem
from asynq.tools import acached_per_instance, alazy_constant, alru_cache

CLOCK = [1000]
asynq.tools.utime = lambda: CLOCK[0]      # the logical clock of Cache.tla (Tick)


class VErr(Exception):
    __bool__ = lambda self: sum(map(ord, str(self.args))) % 2 == 0       # unusual but legal: about half of the exception objects are falsy

    def __init__(self, v):
        Exception.__init__(self, "body raised %r" % (v,))
        self.v = v


class St(object):
    def __init__(self):
        self.cnt = {}
        self.runs = 0
        self.armed = False

    def bump(self, args):
        self.runs += 1
        n = self.cnt.get(args, 0) + 1
        self.cnt[args] = n
        return args + (n,)


def bound(self_first, args, kwargs):
    """what a user-written key_fn has to do: normalise the spelling"""
    args = list(args)
    me = args.pop(0) if self_first else None
    a = args[0] if len(args) > 0 else kwargs["a"]
    b = args[1] if len(args) > 1 else kwargs.get("b", 0)
    c = kwargs.get("c", 0)
    return me, a, b, c


FALSY = {"none": None, "zero": 0, "str": "", "empty": ()}


def make_target(cfg, st):
    """ONE decorator object applied to cfg["nf"] functions.  returns (get_callable(g, i), instances dict, cls or None)"""
    deco, form, block = cfg["deco"], cfg["form"], cfg["body"] == "block"
    nf, ret, sig = cfg.get("nf", 1), cfg.get("ret", "tuple"), cfg.get("sig", "std")

    def finish(v):
        """what the body does with its fresh value v = (g, i, a, b, c, n)"""
        if v[2] == 2:
            raise VErr(v)
        return v if ret == "tuple" else FALSY[ret]

    if deco == "lazy":
        wrap = alazy_constant(ttl=cfg["ttl"])          # one decorator object ...
        fns = {}
        for g in range(1, nf + 1):                     # ... applied to nf functions
            fns[g] = wrap(asynq_deco()(_lazy_body(st, g, block, ret)))
        return (lambda g, i: fns[g]), {}, None

    if deco == "lru" and form == "fn":
        key_fn = None
        if cfg["keyfn"]:
            def key_fn(args, kwargs):
                _, a, b, c = bound(False, args, kwargs)
                return (a, c)
        wrap = alru_cache(maxsize=cfg["maxsize"], key_fn=key_fn)
        fns = {}
        for g in range(1, nf + 1):
            fns[g] = wrap(asynq_deco()(_plain_fn(st, g, block, finish, sig)))
        return (lambda g, i: fns[g]), {}, None

    if deco == "lru":
        key_fn = None
        if cfg["keyfn"]:
            def key_fn(args, kwargs):
                me, a, b, c = bound(True, args, kwargs)
                return (me, a, c)
        wrap = alru_cache(maxsize=cfg["maxsize"], key_fn=key_fn)
    else:
        wrap = acached_per_instance()

    class K(object):
        def __init__(self, i):
            self.i = i

        m1 = wrap(asynq_deco()(_method(st, 1, block, finish, sig)))
        m2 = wrap(asynq_deco()(_method(st, 2, block, finish, sig))) if nf == 2 else None
    objs = {1: K(1), 2: K(2)}
    return (lambda g, i: getattr(objs[i], "m%d" % g)), objs, K


def _lazy_body(st, g, block, ret):
    def done(v, armed):
        if armed:
            raise VErr(v)
        return v if ret == "tuple" else FALSY[ret]

    if block:
        def body():
            v = st.bump((g, 0, 0, 0, 0, 0, 0))
            armed, st.armed = st.armed, False
            yield DebugBatchItem()
            return done(v, armed)
    else:
        def body():
            v = st.bump((g, 0, 0, 0, 0, 0, 0))
            armed, st.armed = st.armed, False
            return done(v, armed)
    return body


SIGS = {      # parameter list after a and b; how the body reads c, the extra positional p and the extra keyword x
    "std": ("*, c=0", "c", "0", "0"),
    "kw": ("*, c=0, **extra", "c", "0", "extra.get('x', 0)"),
    "var": ("*rest, **extra", "0", "(rest[0][1] if rest else 0)", "extra.get('x', 0)"),
    "varkwo": ("*rest, c=0, **extra", "c", "(rest[0][1] if rest else 0)", "extra.get('x', 0)"),
}
TEMPLATE = """
def target({selfp}a, b=0, {tail}):
    v = st.bump((g, {inst}, a, b, {cval}, {pval}, {xval}))
    {pause}
    return finish(v)
"""


def _build(st, g, block, finish, sig, method):
    """the cached function, written out for the signature cfg['sig'] (plain or generator body)"""
    tail, cval, pval, xval = SIGS[sig]
    src = TEMPLATE.format(selfp="self, " if method else "", tail=tail, inst="self.i" if method else "0",
                          cval=cval, pval=pval, xval=xval, pause="yield DebugBatchItem()" if block else "pass")
    env = {"st": st, "g": g, "finish": finish, "DebugBatchItem": DebugBatchItem}
    exec(src, env)
    return env["target"]


def _plain_fn(st, g, block, finish, sig="std"):
    return _build(st, g, block, finish, sig, False)


def _method(st, g, block, finish, sig="std"):
    return _build(st, g, block, finish, sig, True)


def spell(s):
    args, kwargs = [], {}
    if s["sa"] == "p":
        args.append(s["a"])
    else:
        kwargs["a"] = s["a"]
    if s["sb"] == "p":
        args.append(s["b"])
    elif s["sb"] == "k":
        kwargs["b"] = s["b"]
    if s["sc"] == "k":
        kwargs["c"] = s["c"]
    if s.get("p", 0):
        args.append(("x", s["p"]))   # an extra positional argument (collected by *rest); its VALUE looks like the keyword pair x=p,
                                     # which is a different call: the key must keep surplus positionals apart from keywords
    if s.get("x", 0):
        kwargs["x"] = s["x"]         # an extra keyword argument (collected by **extra)
    return args, kwargs


def enc(v):
    """what the caller got, in the vocabulary of Cache.tla (Shown)"""
    if v is None:
        return ["val", "none"]
    if isinstance(v, tuple):
        return ["val"] + list(v) if len(v) == 8 else (["val", "empty"] if v == () else ["odd", repr(v)])
    if type(v) is int and v == 0:
        return ["val", "zero"]
    if type(v) is str and v == "":
        return ["val", "str"]
    return ["odd", repr(v)]


def outcome(thunk):
    try:
        return enc(thunk())
    except VErr as e:
        return ["err"] + list(e.v)
    except Exception as e:
        return ["exc", type(e).__name__, str(e)[:80]]


@asynq_deco()
def catcher(fn, args, kwargs):
    try:
        return enc((yield fn.asynq(*args, **kwargs)))
    except VErr as e:
        return ["err"] + list(e.v)
    except Exception as e:
        return ["exc", type(e).__name__, str(e)[:80]]


@asynq_deco()
def together(thunks):
    return (yield [catcher.asynq(fn, args, kwargs) for fn, args, kwargs in thunks])


def table_size(cls):
    """number of per-instance caches the decorator holds, if the implementation exposes it (else None)"""
    for o in (cls.__dict__.get("m1"), getattr(cls.__dict__.get("m1"), "decorator", None), getattr(cls, "m1", None)):
        t = getattr(o, "__acached_per_instance_cache__", None)
        if t is not None:
            return len(t)
    return None


def run_history(cfg, ops):
    asynq.scheduler.reset()
    CLOCK[0] = 1000
    st = St()
    get, objs, cls = make_target(cfg, st)
    got = []
    dead_id = None
    fn = thunks = None
    for o in ops:
        op = o["op"]
        before = st.runs
        if op in ("call", "lcall"):
            if op == "lcall":
                fn = get(o["arg"], 0)
                r = [outcome(lambda: fn())]
            else:
                s = o["calls"][0]
                args, kwargs = spell(s)
                fn = get(s.get("g", 1), s["i"])
                r = [outcome(lambda: fn(*args, **kwargs))]
        elif op == "pair":
            thunks = []
            for s in o["calls"]:
                args, kwargs = spell(s)
                thunks.append((get(s.get("g", 1), s["i"]), args, kwargs))
            r = [list(x) for x in together(thunks)]
        elif op == "drop":
            dead_id = id(objs[2])
            del objs[2]
            gc.collect()
            n = table_size(cls)
            bound_ = o["res"][0][1]           # prescribed: at most this many per-instance caches remain
            r = [["le", bound_ if n is None or n <= bound_ else n]]
        elif op == "new":
            # a new instance; try to get it at the address of the dropped one (a stale cache would then show)
            spare = []
            cand = cls(2)
            for _ in range(64):
                if id(cand) == dead_id:
                    break
                spare.append(cand)
                cand = cls(2)
            objs[2] = cand
            cand = spare = None           # objs[2] must be the only reference
            r = [["ok"]]
        elif op == "dirty":
            get(o["arg"], 0).dirty()
            r = [["ok"]]
        elif op == "tick":
            CLOCK[0] += o["arg"]
            r = [["ok"]]
        elif op == "arm":
            st.armed = True
            r = [["ok"]]
        else:
            r = [["?"]]
        got.append({"res": r, "runs": st.runs - before})
        fn = thunks = None                # keep no reference to an instance between operations
    return got


def matches(want, have):
    """one prescribed result against one real result"""
    want, have = list(want), list(have)
    if want == ["any"]:
        return True
    if want[0] == "fresh":          # <<"fresh", kind, args.., lo, hi>>: the fresh value of a body run of THIS operation
        kind, args, lo, hi = want[1], want[2:-2], want[-2], want[-1]
        return len(have) == len(args) + 2 and have[0] == kind and have[1:-1] == args and isinstance(have[-1], int) and lo <= have[-1] <= hi
    return want == have


def differs(o, g):
    if o["runs"] >= 0 and o["runs"] != g["runs"]:
        return True
    if len(o["res"]) != len(g["res"]):
        return True
    for want, have in zip(o["res"], g["res"]):
        if not matches(want, have):
            return True
    fresh = [tuple(have) for want, have in zip(o["res"], g["res"]) if list(want)[:1] == ["fresh"]]
    return len(set(fresh)) != len(fresh)      # every call of the operation got the result of its OWN body run


def main():
    cases = json.load(sys.stdin)
    out = []
    for i, c in enumerate(cases):
        ops = c["h"]
        try:
            got = run_history(c["cfg"], ops)
        except BaseException as e:
            import traceback
            out.append({"i": i, "got": "harness exception %s: %s %s" % (type(e).__name__, e, traceback.format_exc()[-600:]), "diff": [0]})
            continue
        diff = [j for j, (o, g) in enumerate(zip(ops, got)) if differs(o, g)]
        if diff:
            out.append({"i": i, "got": got, "diff": diff})
    out.append({"n": len(cases)})
    json.dump(out, real_out)
    real_out.flush()


main()
