"""Replays Cache.tla histories into the real alru_cache / acached_per_instance / alazy_constant
(runs inside the build under test).  Only executes and compares; what is right is prescribed by the histories."""
import gc
import json
import os
import sys

devnull = open(os.devnull, "w")
real_out = os.fdopen(os.dup(1), "w")
os.dup2(devnull.fileno(), 1)
sys.stdout = devnull
os.dup2(devnull.fileno(), 2)

import asynq
import asynq.tools
from asynq import asynq as asynq_deco
from asynq.batching import DebugBatchItem
from asynq.tools import acached_per_instance, alazy_constant, alru_cache

CLOCK = [1000]
asynq.tools.utime = lambda: CLOCK[0]      # the logical clock of Cache.tla (Tick)


class VErr(Exception):
    def __init__(self, v):
        Exception.__init__(self, "body raised %r" % (v,))
        self.v = v


class St(object):
    def __init__(self):
        self.cnt = {}
        self.runs = 0
        self.armed = False

    def bump(self, args):
        self.runs += 1
        n = self.cnt.get(args, 0) + 1
        self.cnt[args] = n
        return args + (n,)


def bound(self_first, args, kwargs):
    """what a user-written key_fn has to do: normalise the spelling"""
    args = list(args)
    me = args.pop(0) if self_first else None
    a = args[0] if len(args) > 0 else kwargs["a"]
    b = args[1] if len(args) > 1 else kwargs.get("b", 0)
    c = kwargs.get("c", 0)
    return me, a, b, c


def make_target(cfg, st):
    """returns (get_callable(i), instances dict, cls or None)"""
    deco, form, block = cfg["deco"], cfg["form"], cfg["body"] == "block"
    if deco == "lazy":
        if block:
            def body():
                v = st.bump((0, 0, 0, 0))
                armed, st.armed = st.armed, False
                yield DebugBatchItem()
                if armed:
                    raise VErr(v)
                return v
        else:
            def body():
                v = st.bump((0, 0, 0, 0))
                armed, st.armed = st.armed, False
                if armed:
                    raise VErr(v)
                return v
        fn = alazy_constant(ttl=cfg["ttl"])(asynq_deco()(body))
        return (lambda i: fn), {}, None

    def finish(v):
        if v[1] == 2:
            raise VErr(v)
        return v

    if deco == "lru" and form == "fn":
        if block:
            def f(a, b=0, *, c=0):
                v = st.bump((0, a, b, c))
                yield DebugBatchItem()
                return finish(v)
        else:
            def f(a, b=0, *, c=0):
                return finish(st.bump((0, a, b, c)))
        key_fn = None
        if cfg["keyfn"]:
            def key_fn(args, kwargs):
                _, a, b, c = bound(False, args, kwargs)
                return (a, c)
        fn = alru_cache(maxsize=cfg["maxsize"], key_fn=key_fn)(asynq_deco()(f))
        return (lambda i: fn), {}, None

    if deco == "lru":
        key_fn = None
        if cfg["keyfn"]:
            def key_fn(args, kwargs):
                me, a, b, c = bound(True, args, kwargs)
                return (me, a, c)
        wrap = alru_cache(maxsize=cfg["maxsize"], key_fn=key_fn)
    else:
        wrap = acached_per_instance()

    if block:
        class K(object):
            def __init__(self, i):
                self.i = i

            @wrap
            @asynq_deco()
            def m(self, a, b=0, *, c=0):
                v = st.bump((self.i, a, b, c))
                yield DebugBatchItem()
                return finish(v)
    else:
        class K(object):
            def __init__(self, i):
                self.i = i

            @wrap
            @asynq_deco()
            def m(self, a, b=0, *, c=0):
                return finish(st.bump((self.i, a, b, c)))
    objs = {1: K(1), 2: K(2)}
    return (lambda i: objs[i].m), objs, K


def spell(s):
    args, kwargs = [], {}
    if s["sa"] == "p":
        args.append(s["a"])
    else:
        kwargs["a"] = s["a"]
    if s["sb"] == "p":
        args.append(s["b"])
    elif s["sb"] == "k":
        kwargs["b"] = s["b"]
    if s["sc"] == "k":
        kwargs["c"] = s["c"]
    return args, kwargs


def outcome(thunk):
    try:
        v = thunk()
        return ["val"] + list(v) if isinstance(v, tuple) else ["odd", repr(v)]
    except VErr as e:
        return ["err"] + list(e.v)
    except Exception as e:
        return ["exc", type(e).__name__, str(e)[:80]]


@asynq_deco()
def catcher(fn, args, kwargs):
    try:
        v = yield fn.asynq(*args, **kwargs)
        return ["val"] + list(v) if isinstance(v, tuple) else ["odd", repr(v)]
    except VErr as e:
        return ["err"] + list(e.v)
    except Exception as e:
        return ["exc", type(e).__name__, str(e)[:80]]


@asynq_deco()
def together(thunks):
    return (yield [catcher.asynq(fn, args, kwargs) for fn, args, kwargs in thunks])


def table_size(cls):
    """number of per-instance caches the decorator holds, if the implementation exposes it (else None)"""
    for o in (cls.__dict__.get("m"), getattr(cls.__dict__.get("m"), "decorator", None), getattr(cls, "m", None)):
        t = getattr(o, "__acached_per_instance_cache__", None)
        if t is not None:
            return len(t)
    return None


def run_history(cfg, ops):
    asynq.scheduler.reset()
    CLOCK[0] = 1000
    st = St()
    get, objs, cls = make_target(cfg, st)
    got = []
    dead_id = None
    fn = thunks = None
    for o in ops:
        op = o["op"]
        before = st.runs
        if op in ("call", "lcall"):
            if op == "lcall":
                fn = get(0)
                r = [outcome(lambda: fn())]
            else:
                s = o["calls"][0]
                args, kwargs = spell(s)
                fn = get(s["i"])
                r = [outcome(lambda: fn(*args, **kwargs))]
        elif op == "pair":
            thunks = []
            for s in o["calls"]:
                args, kwargs = spell(s)
                thunks.append((get(s["i"]), args, kwargs))
            r = [list(x) for x in together(thunks)]
        elif op == "drop":
            dead_id = id(objs[2])
            del objs[2]
            gc.collect()
            n = table_size(cls)
            bound_ = o["res"][0][1]           # prescribed: at most this many per-instance caches remain
            r = [["le", bound_ if n is None or n <= bound_ else n]]
        elif op == "new":
            # a new instance; try to get it at the address of the dropped one (a stale cache would then show)
            spare = []
            cand = cls(2)
            for _ in range(64):
                if id(cand) == dead_id:
                    break
                spare.append(cand)
                cand = cls(2)
            objs[2] = cand
            cand = spare = None           # objs[2] must be the only reference
            r = [["ok"]]
        elif op == "dirty":
            get(0).dirty()
            r = [["ok"]]
        elif op == "tick":
            CLOCK[0] += o["arg"]
            r = [["ok"]]
        elif op == "arm":
            st.armed = True
            r = [["ok"]]
        else:
            r = [["?"]]
        got.append({"res": r, "runs": st.runs - before})
        fn = thunks = None                # keep no reference to an instance between operations
    return got


def differs(o, g):
    if o["runs"] >= 0 and o["runs"] != g["runs"]:
        return True
    for want, have in zip(o["res"], g["res"]):
        if list(want) != ["any"] and list(want) != list(have):
            return True
    return len(o["res"]) != len(g["res"])


def main():
    cases = json.load(sys.stdin)
    out = []
    for i, c in enumerate(cases):
        ops = c["h"]
        try:
            got = run_history(c["cfg"], ops)
        except BaseException as e:
            import traceback
            out.append({"i": i, "got": "harness exception %s: %s %s" % (type(e).__name__, e, traceback.format_exc()[-600:]), "diff": [0]})
            continue
        diff = [j for j, (o, g) in enumerate(zip(ops, got)) if differs(o, g)]
        if diff:
            out.append({"i": i, "got": got, "diff": diff})
    out.append({"n": len(cases)})
    json.dump(out, real_out)
    real_out.flush()


main()
