"""P-lang program families: seeded random samplers and small exhaustive enumerators.

A program is plain JSON (see specs/PLang.tla).  Every generator is deterministic in its seed."""
import itertools
import json
import random


def S(g, n=0, xs=()):
    return {"g": g, "n": n, "xs": list(xs)}


def op(o, a=0):
    return {"o": o, "a": a, "v": 0}


def term(k, s=None, catch=False, ret=0, reuse=0, cscope=0):
    """ret (only with k == "return"): return the task object of spawned task `ret` itself instead of a value;
    reuse (only with k == "yield"): yield again the very object that was yielded at segment `reuse`"""
    # cscope (with catch): 1 = the try/except also encloses the with-blocks entered in this segment (they are left by the
    # exception before it is caught), 0 = it encloses the yield only
    return {"k": k, "s": s if s is not None else S("N"), "catch": bool(catch), "ret": ret, "reuse": reuse, "cscope": cscope}


def seg(ops, t):
    return {"ops": list(ops), "term": t}


def kind(base=0, flush="ok"):
    return {"base": base, "flush": flush}


def ctx(type_="async", var=0, val=0, faulty="-"):
    return {"type": type_, "var": var, "val": val, "faulty": faulty}


def program(tasks, kinds=None, ctxs=None, nvars=0, calls=None):
    return {"tasks": tasks, "kinds": kinds or [kind()], "ctxs": ctxs or [], "nvars": nvars,
            "calls": calls or [{"root": 1, "conv": "call"}]}


# --------------------------------------------------------------------------------------------------
# profiles: which language features a family uses

BASE = dict(ntasks=(1, 6), nseg=(1, 3), nleaf=(0, 3), nkinds=(1, 2), depth=1,
            p_item=0.45, p_task=0.35, p_const=0.08, p_none=0.05, p_lazy=0.03,
            p_share=0.0, p_reyield=0.0, flush_modes=("ok",), bases=(0,),
            p_raise=0.0, p_errleaf=0.0, p_lazyfail=0.0, p_bad=0.0, p_catch=0.0,
            p_sync=0.0, p_spawn=0.0, ctx_types=(), p_ctx=0.0, nvars=0, p_read=0.0, faulty=(),
            ncalls=1, convs=("call", "value"), p_result=0.3, containers=("Tup", "Lst", "Dct"),
            p_dedup=0.0, p_dirty=0.0, ndfn=(1, 2), nkeys=2, p_ival=0.0, p_raiseb=0.0, p_set=0.0, p_rep=0.0, p_reuse=0.0, p_cancelb=0.0, p_fail=0.0)

PROFILES = {
    "plain": dict(BASE),
    "dag": dict(BASE, p_share=0.25, p_reyield=0.1),
    "kinds3": dict(BASE, nkinds=(2, 3), bases=(0, 1, 2), ntasks=(2, 7)),
    "faults": dict(BASE, flush_modes=("ok", "itemerr", "skip", "raise"), p_raise=0.12, p_errleaf=0.06,
                   p_bad=0.04, p_catch=0.4, p_share=0.1),
    "flushfaults": dict(BASE, ntasks=(3, 7), nseg=(2, 4), nkinds=(2, 3), flush_modes=("raise", "raise", "ok", "itemerr"), p_item=0.6, p_task=0.3,
                        p_catch=0.75, p_share=0.05),
    "lazyfail": dict(BASE, p_lazyfail=0.08, p_lazy=0.08, p_catch=0.4),
    "sync": dict(BASE, p_sync=0.3, ntasks=(2, 6)),
    "syncfaults": dict(BASE, p_sync=0.3, ntasks=(2, 6), flush_modes=("ok", "itemerr", "raise"), p_raise=0.1,
                       p_catch=0.3),
    "ctx": dict(BASE, ctx_types=("async",), p_ctx=0.5, p_share=0.1),
    "ctxsync": dict(BASE, ctx_types=("async",), p_ctx=0.5, p_sync=0.25, p_share=0.1),
    "ctxnonlifo": dict(BASE, ntasks=(2, 6), ctx_types=("async", "async", "timer"), p_ctx=0.7, p_nonlifo=0.6, p_share=0.1, nseg=(2, 4)),
    "timer": dict(BASE, ctx_types=("timer", "timer", "async"), p_ctx=0.6, p_share=0.1, nseg=(2, 4)),
    "timersync": dict(BASE, ctx_types=("timer",), p_ctx=0.6, p_sync=0.25, p_share=0.1, nseg=(2, 4)),
    "timerfaults": dict(BASE, ctx_types=("timer", "override"), nvars=1, p_ctx=0.6, flush_modes=("ok", "itemerr", "raise"), p_raise=0.12,
                        p_catch=0.4, nseg=(2, 4)),
    "ctxfaults": dict(BASE, ctx_types=("async",), p_ctx=0.5, flush_modes=("ok", "itemerr", "raise"), p_raise=0.12,
                      p_catch=0.4, p_result=0.5),
    "override": dict(BASE, ctx_types=("override", "attr", "async", "oapi"), p_ctx=0.5, nvars=2, p_read=0.5),
    "overridesync": dict(BASE, ctx_types=("override", "attr", "oapi"), p_ctx=0.5, nvars=2, p_read=0.5, p_sync=0.25),
    "overridenonasync": dict(BASE, ntasks=(3, 7), ctx_types=("override", "attr", "oapi", "nonasync"), p_ctx=0.6, nvars=2, p_read=0.4, nseg=(2, 4),
                             p_catch=0.4, p_share=0.1),
    "overrideapi": dict(BASE, ntasks=(3, 8), ctx_types=("oapi", "oapi", "override"), p_ctx=0.55, nvars=1, p_read=0.6, p_share=0.3, p_reyield=0.1,
                        nseg=(2, 4)),
    "overridefaults": dict(BASE, ctx_types=("override", "attr"), p_ctx=0.5, nvars=2, p_read=0.4,
                           flush_modes=("ok", "itemerr", "raise"), p_raise=0.12, p_catch=0.4),
    "nonasync": dict(BASE, ctx_types=("nonasync", "async"), p_ctx=0.5),
    "nonasyncfaults": dict(BASE, ctx_types=("nonasync", "nonasync", "async"), p_ctx=0.6, p_catch=0.6, p_raise=0.15, nseg=(2, 4),
                           flush_modes=("ok", "itemerr", "raise"), p_errleaf=0.08),
    "spawn": dict(BASE, p_spawn=0.2, flush_modes=("ok", "spawn")),
    "session": dict(BASE, ncalls=3, flush_modes=("ok", "itemerr", "raise", "skip"), p_raise=0.12, p_sync=0.2,
                    p_catch=0.3, ctx_types=("async",), p_ctx=0.3, p_errleaf=0.05),
    "sessionfaulty": dict(BASE, ncalls=3, flush_modes=("ok", "raise"), p_raise=0.1, p_sync=0.2, p_catch=0.3,
                          ctx_types=("async", "nonasync"), p_ctx=0.5, faulty=("-", "-", "pause", "resume"),
                          p_lazyfail=0.05),
    "faultyctx": dict(BASE, ctx_types=("async",), p_ctx=0.6, faulty=("-", "pause", "resume"), p_share=0.1, p_catch=0.3),
    "faultyalways": dict(BASE, ctx_types=("async",), p_ctx=0.6, faulty=("-", "pause_always", "resume_always", "pause"), p_share=0.1,
                         p_catch=0.4, ncalls=2, p_sync=0.1),
    "faultyexit": dict(BASE, ctx_types=("async",), p_ctx=0.7, faulty=("-", "pause_exit", "pause_exit"), p_share=0.1, p_catch=0.3, nseg=(2, 5)),
    "overridefaulty": dict(BASE, ctx_types=("override", "attr", "async"), p_ctx=0.7, nvars=2, p_read=0.3, faulty=("-", "resume", "resume_always", "pause"),
                           p_catch=0.3, p_share=0.1, nseg=(2, 4)),
    "faultysync": dict(BASE, ctx_types=("async",), p_ctx=0.6, faulty=("-", "pause", "resume"), p_sync=0.25, p_catch=0.3),
    "overflow": dict(BASE, ntasks=(3, 8), nleaf=(1, 3), p_task=0.6, p_item=0.25, p_sync=0.15, maxstack=(2, 5), ncalls=2,
                     p_catch=0.3),
    "throw": dict(BASE, nkinds=(1, 3), bases=(0, 1), flush_modes=("ok", "throw", "raise"), p_sync=0.2, p_catch=0.4, ncalls=2),
    "dedup": dict(BASE, ntasks=(3, 9), p_dedup=0.45, p_task=0.25, p_item=0.2, p_dirty=0.25, flush_modes=("ok", "ok", "itemerr")),
    "dedupdirty": dict(BASE, ntasks=(4, 9), nseg=(2, 4), p_dedup=0.6, p_task=0.2, p_item=0.15, p_dirty=0.45, ndfn=(1, 1), nkeys=1,
                       nkinds=(2, 2)),
    "dedupself": dict(BASE, ntasks=(5, 10), nseg=(2, 4), p_dedup=0.6, p_task=0.25, p_item=0.15, p_dirty=0.15, ndfn=(1, 1), nkeys=1,
                      nkinds=(1, 2), p_dself=0.6, dbinds=("fn", "inst1")),
    "dedupsync": dict(BASE, ntasks=(3, 9), p_dedup=0.4, p_task=0.25, p_item=0.2, p_dirty=0.25, p_sync=0.2),
    "dedupvar": dict(BASE, ntasks=(4, 9), nseg=(2, 4), p_dedup=0.6, p_task=0.2, p_item=0.15, p_dirty=0.3, ndfn=(1, 1), nkeys=2, dfn_base=10,
                     nkinds=(1, 2)),
    "dedupcatch": dict(BASE, ntasks=(4, 9), nseg=(2, 4), p_dedup=0.5, p_task=0.2, p_item=0.25, p_dirty=0.15, ndfn=(1, 1), nkeys=1,
                       nkinds=(2, 2), p_errleaf=0.15, p_raise=0.1, p_catch=0.7),
    "overflowbatch": dict(BASE, ntasks=(4, 9), nleaf=(1, 3), p_task=0.45, p_item=0.45, p_sync=0.1, maxstack=(3, 6), ncalls=3,
                          nkinds=(2, 3), p_catch=0.3),
    "cleanup": dict(BASE, ntasks=(3, 8), ctx_types=("cleanup", "cleanup", "async"), p_ctx=0.6, p_result=0.7, p_sync=0.1, p_raise=0.1, p_catch=0.3),
    "ival": dict(BASE, ntasks=(2, 7), nkinds=(1, 3), p_ival=0.5, p_share=0.1, flush_modes=("ok", "ok", "itemerr", "skip", "raise"), p_catch=0.3,
                 p_sync=0.1),
    "basefaults": dict(BASE, p_raise=0.25, p_raiseb=0.6, p_catch=0.6, p_share=0.1, p_sync=0.1, ctx_types=("async",), p_ctx=0.2,
                       flush_modes=("ok", "itemerr")),
    "spawnsync": dict(BASE, ntasks=(3, 8), p_spawn=0.35, p_sync=0.35, p_task=0.4, p_item=0.3, p_catch=0.3, p_raise=0.08),
    "overridedag": dict(BASE, ntasks=(3, 8), ctx_types=("override", "attr", "oapi"), p_ctx=0.5, nvars=2, p_read=0.6, p_share=0.35, p_reyield=0.1,
                        nkinds=(1, 2)),
    "overrideset": dict(BASE, ctx_types=("override", "attr"), p_ctx=0.5, nvars=2, p_read=0.5, p_set=0.5, p_share=0.1),
    "again": dict(BASE, ntasks=(2, 7), nseg=(2, 4), nleaf=(1, 4), p_rep=0.35, p_reuse=0.35, p_lazy=0.15, p_lazyfail=0.05, p_share=0.1, p_reyield=0.2,
                  flush_modes=("ok", "ok", "itemerr"), p_catch=0.4, p_errleaf=0.05),
    "nestself": dict(BASE, ntasks=(2, 6), nkinds=(2, 2), bases=(0, 1), nest=True, nestself=0.8, p_item=0.55, p_task=0.3, p_catch=0.3),
    "nestflush": dict(BASE, ntasks=(2, 7), nkinds=(2, 3), bases=(0, 1), nest=True, p_item=0.55, p_task=0.3, p_share=0.1, p_catch=0.3, ncalls=2),
    "cancelsession": dict(BASE, ntasks=(3, 7), nkinds=(1, 2), bases=(0, 1), p_cancelb=0.45, p_catch=0.6, p_share=0.1, nseg=(2, 4), ncalls=3),
    "cancel": dict(BASE, ntasks=(3, 8), nkinds=(1, 3), bases=(0, 1), p_cancelb=0.35, p_catch=0.5, p_share=0.1, nseg=(2, 4)),
    "kill": dict(BASE, ntasks=(3, 8), p_fail=0.4, p_catch=0.5, p_share=0.15, ctx_types=("async", "override"), p_ctx=0.4, nvars=1, nseg=(2, 4)),
    "helpers": dict(BASE, ntasks=(3, 9), nleaf=(1, 4), p_task=0.55, p_item=0.35, p_via=0.6, nkinds=(1, 2), p_catch=0.3, p_raise=0.05),
    "batchleaf": dict(BASE, ntasks=(2, 7), nkinds=(1, 3), p_batchleaf=0.15, p_item=0.4, p_share=0.1, flush_modes=("ok", "ok", "raise", "itemerr"),
                      p_catch=0.4, p_sync=0.1),
    "everything": dict(BASE, ntasks=(2, 8), nkinds=(1, 3), bases=(0, 1), p_share=0.1, p_reyield=0.05,
                       flush_modes=("ok", "ok", "itemerr", "skip", "raise"), p_raise=0.08, p_errleaf=0.04, p_bad=0.03,
                       p_catch=0.35, p_sync=0.15, ctx_types=("async", "override"), p_ctx=0.35, nvars=1, p_read=0.3),
    "big": dict(BASE, ntasks=(10, 40), nseg=(1, 4), nleaf=(0, 4), nkinds=(1, 3), bases=(0, 1), p_share=0.05,
                depth=2),
}


class Gen(object):
    def __init__(self, rng, prof):
        self.r = rng
        self.p = prof
        self.N = rng.randint(*prof["ntasks"])
        self.next = 2
        self.tasks = {}
        self.ctxs = []
        self.nk = rng.randint(*prof["nkinds"])
        self.created = []        # task ids allocated so far (for sharing)
        self.sync_targets = set()
        self.spawn_pool = []     # tasks created by a spawn op and never named again so far: candidates for a later .value()
        self.dedup_inst = []     # instance ids of deduplicated calls
        self.dfn_bodies = {}
        self.predefined = {}

    def alloc(self):
        if self.next > self.N:
            return None
        u = self.next
        self.next += 1
        self.created.append(u)
        return u

    def leaf(self, t, yielded_before):
        r, p = self.r, self.p
        opts = (("I", p["p_item"]), ("T", p["p_task"]), ("C", p["p_const"]), ("N", p["p_none"]),
                ("L", p["p_lazy"]), ("E", p["p_errleaf"]), ("LF", p["p_lazyfail"]), ("Bad", p["p_bad"]), ("D", p["p_dedup"]), ("B", p.get("p_batchleaf", 0.0)))
        x = r.random() * sum(w for _, w in opts)
        acc = 0.0
        tag = "I"
        for tg, pr in opts:
            acc += pr
            if x < acc:
                tag = tg
                break
        if tag == "I":
            return S("I", r.randint(1, self.nk))
        if tag == "T":
            if yielded_before and r.random() < p["p_reyield"]:
                return S("T", r.choice(yielded_before))
            cands = [u for u in self.created if u > t and u not in self.sync_targets]
            if cands and r.random() < p["p_share"]:
                return S("T", r.choice(cands))
            u = self.alloc()
            if u is None:
                return S("I", r.randint(1, self.nk))
            return S("T", u)
        if tag == "C":
            return S("C", r.randint(1, 3))
        if tag == "B":
            return S("B", r.randint(1, self.nk))
        if tag == "D":
            u = self.alloc()
            if u is None:
                return S("I", r.randint(1, self.nk))
            self.sync_targets.add(u)     # never shared as a plain T leaf
            self.predefined[u] = self.dedup_instance()
            self.dedup_inst.append(u)
            return S("D", u)
        return S(tag)

    def dedup_instance(self):
        r, p = self.r, self.p
        g = r.randint(1, r.randint(*p["ndfn"])) + p.get("dfn_base", 0)      # function numbers > 10: signature (a=-1, *rest, b=0)
        if g not in self.dfn_bodies:
            segs = []
            for k in range(r.randint(0, 2)):
                n = r.randint(1, 2)
                leaves = [S("I", r.randint(1, self.nk)) if r.random() < 0.8 else S("C", 1) for _ in range(n)]
                segs.append(seg([], term("yield", leaves[0] if n == 1 else S("Lst", 0, leaves))))
            segs.append(seg([], term("raise" if r.random() < 0.15 else "return")))
            self.dfn_bodies[g] = segs
        d = {"fn": g, "key": r.randint(1, p["nkeys"]), "spell": r.randint(0, 5),
             "bind": r.choice(p.get("dbinds", ("fn", "fn", "inst1", "inst1", "inst2", "static")))}
        segs = json.loads(json.dumps(self.dfn_bodies[g]))
        if p.get("p_dself") and r.random() < p["p_dself"] and self.next + 1 <= self.N:
            # the body first calls, synchronously, a helper that calls the same deduplicated function with the same key
            # (a call from inside the running body); the re-entered execution does not recurse further
            h, u2 = self.alloc(), self.alloc()
            self.sync_targets.update((h, u2))
            self.predefined[u2] = {"segs": json.loads(json.dumps(self.dfn_bodies[g])), "dedup": dict(d, spell=r.randint(0, 5))}
            self.predefined[h] = {"segs": [seg([], term("yield", S("D", u2))), seg([], term("return"))]}
            self.dedup_inst.append(u2)
            segs[0]["ops"] = [op("sync", h)] + segs[0]["ops"]
        return {"segs": segs, "dedup": d}

    def struct(self, t, yielded_before, depth):
        r, p = self.r, self.p
        n = r.randint(*p["nleaf"])
        if n == 1 and r.random() < 0.6:
            return self.leaf(t, yielded_before)
        if n == 0 and r.random() < 0.5:
            return S("N")
        xs = []
        for _ in range(n):
            if depth > 0 and r.random() < 0.2:
                xs.append(self.struct(t, yielded_before, depth - 1))
            else:
                xs.append(self.leaf(t, yielded_before))
        return S(r.choice(p["containers"]), 0, xs)

    def task(self, t):
        r, p = self.r, self.p
        nseg = r.randint(*p["nseg"])
        segs = []
        open_ctx = []
        yielded = []
        spawned = []
        extended = set()
        for k in range(1, nseg + 1):
            ops = []
            nops = r.randint(0, 4) if (p["p_ctx"] or p["p_sync"] or p["p_read"] or p["p_spawn"] or p["p_dirty"] or p["p_ival"] or p["p_cancelb"] or p["p_fail"]) else 0
            for _ in range(nops):
                x = r.random()
                if p["ctx_types"] and x < p["p_ctx"]:
                    if open_ctx and r.random() < 0.45:
                        if p.get("p_nonlifo") and len(open_ctx) > 1 and r.random() < p["p_nonlifo"]:
                            ops.append(op("exit", open_ctx.pop(r.randrange(len(open_ctx) - 1))))     # not the innermost one
                        else:
                            ops.append(op("exit", open_ctx.pop()))
                            if self.ctxs[ops[-1]["a"] - 1]["faulty"] == "pause_exit" and r.random() < 0.75:
                                ops[-1]["c"] = 1            # the error of leaving the block is caught by the task
                    elif len(open_ctx) < 3:
                        ty = r.choice(p["ctx_types"])
                        var = r.randint(1, p["nvars"]) if ty in ("override", "attr", "oapi") else 0
                        if ty == "cleanup":
                            u = self.alloc()
                            if u is None:
                                continue
                            self.sync_targets.add(u)
                            # the cleanup target cannot fail and ends with result()
                            self.predefined[u] = {"segs": ([seg([], term("yield", S("C", 1)))] if r.random() < 0.5 else []) + [seg([], term("result"))]}
                            var = u
                        faulty = r.choice(p["faulty"]) if (p["faulty"] and ty == "async") else "-"
                        self.ctxs.append(ctx(ty, var, r.choice((10, 10, 20, 30 + len(self.ctxs) % 10)), faulty))
                        c = len(self.ctxs)
                        open_ctx.append(c)
                        ops.append(op("enter", c))
                elif p["p_sync"] and x < p["p_ctx"] + p["p_sync"]:
                    pool = [u for u in self.spawn_pool if u > t]
                    if pool and r.random() < 0.5:
                        u = r.choice(pool)            # synchronous .value() on a task some other task created
                        self.spawn_pool.remove(u)
                        ops.append(op("sync", u))
                        continue
                    u = self.alloc()
                    if u is not None:
                        self.sync_targets.add(u)
                        ops.append(op("sync", u))
                elif p["p_set"] and open_ctx and r.random() < p["p_set"] and \
                        self.ctxs[open_ctx[-1] - 1]["type"] in ("override", "attr"):
                    c = self.ctxs[open_ctx[-1] - 1]
                    o_ = op("set", c["var"] if c["type"] == "override" else 100 + c["var"])
                    o_["v"] = 70 + r.randint(1, 3)
                    ops.append(o_)
                elif p["nvars"] and x < p["p_ctx"] + p["p_sync"] + p["p_read"]:
                    v = r.randint(1, p["nvars"])
                    ops.append(op("read", v if r.random() < 0.5 or "attr" not in p["ctx_types"] else 100 + v))
                elif p["p_cancelb"] and r.random() < p["p_cancelb"]:
                    ops.append(op("cancelb", r.randint(1, self.nk)))
                elif p["p_fail"] and r.random() < p["p_fail"] and len(self.created) > 2:
                    ops.append(op("fail", r.choice([u for u in self.created if u != t] or [t])))
                elif p["p_ival"] and r.random() < p["p_ival"]:
                    if not any(o["o"] == "ival" for o in ops):          # at most one per segment (item ids)
                        ops.append(op("ival", r.randint(1, self.nk)))
                elif p["p_dirty"] and self.dedup_inst and r.random() < p["p_dirty"]:
                    ops.append(op("dirty", r.choice(self.dedup_inst)))
                elif p["p_spawn"] and r.random() < p["p_spawn"]:
                    u = self.alloc()
                    if u is not None:
                        self.sync_targets.add(u)   # never shared as a T leaf
                        ops.append(op("spawn", u))
                        spawned.append(u)
                        if p["p_sync"]:
                            self.spawn_pool.append(u)
            last = k == nseg
            if not last and r.random() < p["p_raise"] * 0.5:
                segs.append(seg(ops, term(("raisec" if r.random() < 0.3 else "raiseb") if r.random() < p["p_raiseb"] else "raise")))
                break
            if last:
                x = r.random()
                if x < p["p_raise"]:
                    segs.append(seg(ops, term(("raisec" if r.random() < 0.3 else "raiseb") if r.random() < p["p_raiseb"] else "raise")))
                elif x < p["p_raise"] + p["p_result"]:
                    segs.append(seg(ops, term("result")))
                elif spawned and r.random() < 0.5:
                    segs.append(seg(ops, term("return", ret=r.choice(spawned))))   # hands out a task it never awaited
                else:
                    segs.append(seg(ops, term("return")))
            else:
                prev = [j + 1 for j, sg in enumerate(segs) if sg["term"]["k"] == "yield" and not sg["term"]["reuse"]
                        and sg["term"]["s"]["g"] in ("Tup", "Lst", "Dct") and (j + 1) not in extended]
                if p["p_reuse"] and prev and r.random() < p["p_reuse"]:
                    k0 = r.choice(prev)
                    ext = None
                    if segs[k0 - 1]["term"]["s"]["g"] == "Lst" and k0 not in extended and r.random() < 0.5:
                        # append new futures to the list before yielding it again (that base is not re-yielded afterwards)
                        ext = S("Lst", 0, [self.leaf(t, yielded) for _ in range(r.randint(1, 2))])
                        yielded += [x["n"] for x in _leaves(ext) if x["g"] == "T"]
                        extended.add(k0)
                    segs.append(seg(ops, term("yield", ext, r.random() < p["p_catch"], reuse=k0)))
                    continue
                s = self.struct(t, yielded, p["depth"])
                if p["p_rep"]:
                    _add_reps(s, r, p["p_rep"])
                yielded += [x["n"] for x in _leaves(s) if x["g"] == "T"]
                cat = r.random() < p["p_catch"]
                entered_here = any(o["o"] == "enter" for o in ops) and not any(o["o"] == "exit" for o in ops)
                segs.append(seg(ops, term("yield", s, cat, cscope=1 if (cat and entered_here and r.random() < 0.5) else 0)))
        return {"segs": segs}

    def build(self):
        r, p = self.r, self.p
        roots = [1]
        self.created.append(1)
        t = 1
        calls = []
        while True:
            while t < self.next:
                self.tasks[t] = self.predefined[t] if t in self.predefined else self.task(t)
                t += 1
            if len(roots) < p["ncalls"] and self.next <= self.N:
                u = self.alloc()
                roots.append(u)
                continue
            break
        tasks = [self.tasks[i] for i in range(1, self.next)]
        if p.get("p_via"):
            # some children are started through asynq's amap() helper (only plain T-leaf children, named once)
            named = [x["n"] for tk in tasks for sg in tk["segs"] if sg["term"]["k"] == "yield" for x in _leaves(sg["term"]["s"]) if x["g"] == "T"]
            for u in set(named):
                if named.count(u) == 1 and u not in self.sync_targets and "dedup" not in tasks[u - 1] and r.random() < p["p_via"]:
                    tasks[u - 1]["via"] = "amap"
        kinds = [kind(r.choice(p["bases"]), r.choice(p["flush_modes"])) for _ in range(self.nk)]
        if p.get("nest"):
            # kind 1's flush body calls, synchronously, a task that needs a request of kind 2
            kinds[0]["flush"] = "nest"
            kinds[0]["nest"] = len(tasks) + 1
            kinds[1]["flush"] = "ok"
            if p.get("nestself") and r.random() < p["nestself"]:
                # ... or of kind 1 itself: the follow-up request joins a FRESH kind-1 batch (only the first kind-1 flush nests)
                kinds[0]["nestself"] = 1
                tasks.append({"segs": [seg([], term("yield", S("Lst", 0, [S("I", 1)] * r.randint(1, 2)))), seg([], term("return"))]})
            else:
                tasks.append({"segs": [seg([], term("yield", S("Lst", 0, [S("I", 2)] * r.randint(1, 3)))), seg([], term("return"))]})
        calls = [{"root": u, "conv": r.choice(p["convs"])} for u in roots]
        prog = program(tasks, kinds, self.ctxs, p["nvars"], calls)
        if p.get("maxstack"):
            prog["maxstack"] = r.randint(*p["maxstack"])
        return prog


def _leaves(s):
    if s["g"] in ("Tup", "Lst", "Dct"):
        out = []
        for x in s["xs"]:
            out += _leaves(x)
        return out
    return [s]


def _add_reps(s, r, prob):
    """turn some leaves into a second occurrence of the very same object as an earlier future leaf"""
    leaves = _leaves(s)
    for j, lf in enumerate(leaves):
        earlier = [i + 1 for i in range(j) if leaves[i]["g"] in ("T", "I", "L", "LF", "C", "E")]
        if earlier and lf["g"] in ("I", "L", "C", "N") and r.random() < prob:
            lf["g"], lf["n"] = "Rep", r.choice(earlier)


def sample(profile, seed, n):
    """n programs of a profile; program i depends only on (profile, seed, i)."""
    prof = PROFILES[profile]
    out = []
    for i in range(n):
        rng = random.Random("%s/%d/%d" % (profile, seed, i))
        out.append(Gen(rng, prof).build())
    return out


# --------------------------------------------------------------------------------------------------
# exhaustive small families


def enum_structs(leaves, maxn):
    """all structures with <= maxn leaves drawn from 'leaves' (flat: leaf, or one container of leaves)"""
    out = [S("N")]
    for lf in leaves:
        out.append(lf)
    for n in range(2, maxn + 1):
        for combo in itertools.product(leaves, repeat=n):
            out.append(S("Lst", 0, combo))
    return out


def enum_trees(ntasks_max=3, nseg_max=2, nkinds=2, modes=("ok",), bases=((0, 0),), child_nseg=None):
    """Complete family: every program whose tasks form a tree with <= ntasks_max tasks, each task with <=
    nseg_max yields, each yield a flat list of <= 2 leaves from {I(k), T(new child)}; for every kind priority
    assignment in 'bases' and flush mode in 'modes'.  Tasks are numbered in creation (DFS pre-) order, so
    the enumeration is complete up to task renaming."""
    progs = []

    def leaf_options(budget):
        opts = [("I", k) for k in range(1, nkinds + 1)]
        if budget > 0:
            opts.append(("T", 0))
        return opts

    # a task shape = list of yields, each yield = tuple of leaf kinds; children attached later in order
    def shapes(budget, is_root):
        """yield (list_of_yields, used_children) for one task given remaining child budget"""
        res = [([], 0)]
        lim = nseg_max if (is_root or child_nseg is None) else child_nseg
        def rec(prefix, used, depth):
            if depth == lim:
                return
            for n in (1, 2):
                for combo in itertools.product(leaf_options(budget - used), repeat=n):
                    u = sum(1 for c in combo if c[0] == "T")
                    if used + u > budget:
                        continue
                    ys = prefix + [combo]
                    res.append((ys, used + u))
                    rec(ys, used + u, depth + 1)
        rec([], 0, 0)
        return res

    # build programs by DFS allocation
    def expand(pending, tasks, budget):
        """pending: list of task ids still to define (in order); tasks: dict id->yields"""
        if not pending:
            yield dict(tasks)
            return
        t = pending[0]
        for ys, used in shapes(budget, t == 1):
            nxt = max(list(tasks.keys()) + pending) + 1
            new_children = []
            ys2 = []
            for combo in ys:
                c2 = []
                for c in combo:
                    if c[0] == "T":
                        c2.append(("T", nxt))
                        new_children.append(nxt)
                        nxt += 1
                    else:
                        c2.append(c)
                ys2.append(c2)
            tasks[t] = ys2
            for r in expand(pending[1:] + new_children, tasks, budget - used):
                yield r
            del tasks[t]

    for tasks in expand([1], {}, ntasks_max - 1):
        ids = sorted(tasks)
        # renumber to 1..n in id order (already contiguous)
        tl = []
        for t in ids:
            segs = []
            for combo in tasks[t]:
                leaves = [S(g, n) for (g, n) in combo]
                s = leaves[0] if len(leaves) == 1 else S("Lst", 0, leaves)
                segs.append(seg([], term("yield", s)))
            segs.append(seg([], term("return")))
            tl.append({"segs": segs})
        for bs in bases:
            for m in modes:
                kinds = [kind(bs[i], m) for i in range(nkinds)]
                progs.append(program(tl, kinds))
    return progs


if __name__ == "__main__":
    import sys
    prof = sys.argv[1]
    ps = sample(prof, int(sys.argv[2]), int(sys.argv[3]))
    json.dump(ps, sys.stdout)


def chain(depth, variant="plain"):
    """task i awaits task i+1; the last one awaits a batch item ('batch'), or returns"""
    tasks = []
    for i in range(1, depth + 1):
        if i == depth:
            if variant == "batch":
                tasks.append({"segs": [seg([], term("yield", S("I", 1))), seg([], term("return"))]})
            else:
                tasks.append({"segs": [seg([], term("return"))]})
        else:
            child = S("T", i + 1)
            s = child if variant != "list" else S("Lst", 0, [child, S("N")])
            tasks.append({"segs": [seg([], term("yield", s)), seg([], term("return"))]})
    return program(tasks)


def enum_dedup(max_len=3, bodies=(1, 2), nactors=2, bind="fn", key=1, spell0=0, body_kind=1, catching=False, fn=1):
    """Complete family for C12: the root yields [D(first call), actor_1, ..., actor_n]; every actor is a sequence of
    <= max_len steps over {W: wait one flush round, C: call the deduplicated function, X: dirty() then call};
    the deduplicated body waits for 1 or 2 flush rounds.  One function, one key, one batch kind.
    catching: the body first catches an error delivered at a yield (it is resumed through generator.throw());
    body_kind=2: the body waits on a second batch kind, so that either side can be flushed first."""
    steps = []
    for n in range(1, max_len + 1):
        steps += list(itertools.product("WCX", repeat=n))
    progs = []
    for nb in bodies:
        body = [seg([], term("yield", S("I", body_kind))) for _ in range(nb)] + [seg([], term("return"))]
        if catching:
            body = [seg([], term("yield", S("E", 0), catch=True))] + body
        for combo in itertools.product(steps, repeat=nactors):
            tasks = [None]                      # index 0 = task 1 (root), filled below
            insts = []

            def new_inst():
                tasks.append({"segs": json.loads(json.dumps(body)), "dedup": {"fn": fn, "key": key, "spell": (spell0 + len(insts)) % 6, "bind": bind}})
                insts.append(len(tasks))
                return len(tasks)

            first = new_inst()
            leaves = [S("D", first)]
            for seq in combo:
                tasks.append(None)
                aid = len(tasks)
                leaves.append(S("T", aid))
                segs = []
                for st in seq:
                    if st == "W":
                        segs.append(seg([], term("yield", S("I", 1))))
                    else:
                        u = new_inst()
                        ops = [op("dirty", first)] if st == "X" else []
                        segs.append(seg(ops, term("yield", S("D", u))))
                segs.append(seg([], term("return")))
                tasks[aid - 1] = {"segs": segs}
            tasks[0] = {"segs": [seg([], term("yield", S("Lst", 0, leaves))), seg([], term("return"))]}
            progs.append(program(tasks, kinds=[kind() for _ in range(max(1, body_kind))]))
    return progs


def enum_empties():
    """Complete small family for C01: structures without any future in them - {}, [], (), None and containers of those -
    yielded twice in a row by two sibling tasks and by the root (every pair of shapes): what comes back is a fresh
    structure of the same shape each time, whoever received (and changed) an equal one before."""
    E = lambda g: S(g, 0, [])
    shapes = [E("Dct"), E("Lst"), E("Tup"), S("N"), S("Lst", 0, [E("Dct"), E("Dct")]), S("Dct", 0, [E("Dct"), E("Lst")]),
              S("Tup", 0, [E("Lst"), E("Dct"), S("N")])]
    progs = []
    for a, b in itertools.product(shapes, repeat=2):
        def child():
            return {"segs": [seg([], term("yield", json.loads(json.dumps(a)))), seg([], term("yield", json.loads(json.dumps(b)))),
                             seg([], term("return"))]}
        root = {"segs": [seg([], term("yield", S("Tup", 0, [S("T", 2), S("T", 3)]))), seg([], term("yield", json.loads(json.dumps(a)))),
                         seg([], term("yield", json.loads(json.dumps(b)))), seg([], term("return"))]}
        progs.append(program([root, child(), child()]))
    return progs


def enum_shared_override():
    """Complete small family for C07: a task S with its own override block (entered before a blocking yield, read before
    and after it) is awaited by two parents A and B that override the same variable - with S's value or another one -
    and reach S in the same round or one flush round apart (so S is started below one parent and resumed below the
    other); every combination of context flavour (recording subclass / public API), values, who waits first, and
    one or two batch kinds."""
    progs = []
    for ty in ("oapi", "override"):
        for pty in ("oapi", "override"):
            for va, vb, vs in itertools.product((10, 20), repeat=3):
                for delay_a, delay_b in ((0, 1), (1, 0), (0, 0), (1, 1)):
                    for ks in (1, 2):
                        ctxs = [ctx(pty, 1, va), ctx(pty, 1, vb), ctx(ty, 1, vs)]

                        def parent(c, delay):
                            segs = [seg([op("enter", c), op("read", 1)], term("yield", S("I", 1) if delay else S("N")))]
                            segs.append(seg([op("read", 1)], term("yield", S("T", 4))))
                            segs.append(seg([op("read", 1), op("exit", c)], term("return")))
                            return {"segs": segs}
                        shared = {"segs": [seg([op("enter", 3), op("read", 1)], term("yield", S("I", ks))),
                                           seg([op("read", 1), op("exit", 3), op("read", 1)], term("return"))]}
                        root = {"segs": [seg([], term("yield", S("Tup", 0, [S("T", 2), S("T", 3)]))), seg([op("read", 1)], term("return"))]}
                        progs.append(program([root, parent(1, delay_a), parent(2, delay_b), shared],
                                             kinds=[kind(), kind()], ctxs=ctxs, nvars=1))
    return progs


def enum_overflow():
    """Complete small family for C08 (runaway recursion while requests are pending): computation 1 yields a tuple of
    1-3 'readers' (each blocked on one item of kind 1 or 2) and one chain of tasks deeper than the stack limit, the
    chain at any position of the tuple; computation 2 is a task waiting for 1-2 items of kind 1 or 2 in 1-2 rounds."""
    progs = []
    for nread in (1, 2, 3):
        for rk in (1, 2):
            for pos in range(nread + 1):
                for maxstack in (3, 5):
                    for k2 in (1, 2):
                        for n2 in (1, 2):
                            for segs2 in (1, 2):
                                tasks = [None]
                                leaves = []
                                for i in range(nread):
                                    tasks.append({"segs": [seg([], term("yield", S("I", rk))), seg([], term("return"))]})
                                    leaves.append(S("T", len(tasks)))
                                first_chain = len(tasks) + 1
                                depth = maxstack + 3
                                for d in range(depth):
                                    last = d == depth - 1
                                    tasks.append({"segs": [seg([], term("return"))] if last else
                                                  [seg([], term("yield", S("T", len(tasks) + 2))), seg([], term("return"))]})
                                leaves.insert(pos, S("T", first_chain))
                                tasks[0] = {"segs": [seg([], term("yield", S("Tup", 0, leaves), True)), seg([], term("return"))]}
                                root2 = len(tasks) + 1
                                ys = [seg([], term("yield", S("Lst", 0, [S("I", k2)] * n2))) for _ in range(segs2)]
                                tasks.append({"segs": ys + [seg([], term("return"))]})
                                p = program(tasks, [kind(0, "ok"), kind(0, "ok")], calls=[{"root": 1, "conv": "call"}, {"root": root2, "conv": "value"}])
                                p["maxstack"] = maxstack
                                progs.append(p)
    return progs
