"""Replays AsyncGen.tla histories into real @async_generator() objects (runs inside the build under test).

case = {"body": ["A","V","G",...], "k": int, "inner": "AVA" (shape of the nested generator, k Values), "h": [...]}
The generator body increments st["pulls"] before every A, before every Value it yields and when it returns;
awaits of inner tasks (the flattened "g") are not counted, exactly as Cnt() in the spec."""
import json
import os
import sys

devnull = open(os.devnull, "w")
real_out = os.fdopen(os.dup(1), "w")
os.dup2(devnull.fileno(), 1)
sys.stdout = devnull
os.dup2(devnull.fileno(), 2)

import qcore

import asynq
from asynq.batching import BatchBase, BatchItemBase
from asynq.futures import ConstFuture
from asynq.generator import END_OF_GENERATOR, Value, async_generator, list_of_generator, take_first


@asynq.asynq()
def leaf(x):
    return x


@asynq.asynq()
def deeper(x):
    y = yield leaf.asynq(x)
    z = yield ConstFuture(y)
    return z


class RB(BatchBase):
    def __init__(self, st):
        BatchBase.__init__(self)
        self.st = st

    def _try_switch_active_batch(self):
        if self.st.get("batch") is self:
            self.st["batch"] = None

    def _flush(self):
        for it in self.items:
            if not it.is_computed():
                it.set_value(it.v)


class RI(BatchItemBase):
    """a batch item: whoever awaits it stays suspended until the scheduler has nothing else to run"""

    def __init__(self, st, v):
        b = st.get("batch")
        if b is None:
            b = st["batch"] = RB(st)
        BatchItemBase.__init__(self, b)
        self.v = v


def awaited(i, st=None):
    """the future an 'A' element awaits: a task, a task with awaits of its own, or a constant future;
    in histories that use "start" always a batch item"""
    if st is not None and st.get("batchy"):
        return RI(st, i)
    if i % 3 == 0:
        return leaf.asynq(i)
    if i % 3 == 1:
        return deeper.asynq(i)
    return ConstFuture(i)


class AnyEq(object):
    """compares equal to anything, like unittest.mock.ANY"""

    def __eq__(self, other):
        return True

    def __ne__(self, other):
        return False

    def __hash__(self):
        return 0


class RaisingEq(object):
    def __eq__(self, other):
        raise ValueError("these objects cannot be compared")

    __ne__ = __eq__
    __hash__ = None


class NoTruth(object):
    def __bool__(self):
        raise ValueError("the truth value of a comparison result is ambiguous")


class ArrayEq(object):
    """== is element-wise, as for array types: the result is not a bool"""

    def __eq__(self, other):
        return NoTruth()

    __ne__ = __eq__
    __hash__ = None


def payload(st, v):
    """the object Value(...) carries for the spec's value v, by the payload kind of the case"""
    kind = st["kind"]
    if kind == "int":
        return v
    if kind == "none":
        return None
    objs = st["objs"]
    if kind == "same":
        if not objs:
            objs.append((object(), 0))
        return objs[0][0]
    if kind == "anyeq":
        o = AnyEq()
    elif kind == "badeq":
        o = RaisingEq() if v % 2 else ArrayEq()
    elif kind == "marker":
        o = qcore.MarkerObject(u"end of generator")
    else:
        raise ValueError(kind)
    objs.append((o, v))
    return o


def make_inner(shape, st):
    @async_generator()
    def inner():
        m = 0
        for j, e in enumerate(shape):
            if e == "A":
                yield awaited(j)
            else:
                m += 1
                yield Value(payload(st, 10 + m))
    return inner


def make(body, shape, st):
    inner = make_inner(shape, st)

    @async_generator()
    def gen():
        for i, e in enumerate(body):
            if e == "A":
                st["pulls"] += 1
                got = yield awaited(i, st)
                if got != i:
                    st["bad_await"] = (i, got)
            elif e == "V":
                st["pulls"] += 1
                yield Value(payload(st, i + 1))
            else:
                for task in inner():
                    v = yield task
                    if v is END_OF_GENERATOR:
                        continue
                    st["pulls"] += 1
                    yield Value(v)
        st["pulls"] += 1
    return gen()


def encv(v, st=None):
    """results are identified by IDENTITY with the objects the body put into Value(...)"""
    if v is END_OF_GENERATOR:
        return "END"
    if st is None or st["kind"] == "int":
        return v if type(v) is int else "?" + type(v).__name__
    if st["kind"] == "none":
        return 0 if v is None else "?" + type(v).__name__
    for o, vid in st["objs"]:
        if o is v:
            return vid
    return "?" + type(v).__name__


def run_history(case):
    asynq.scheduler.reset()
    st = {"pulls": 0, "kind": case.get("kind", "int"), "objs": []}
    g = make(case["body"], case.get("inner", ""), st)
    last = None
    got = []
    ops = case["h"]
    st["batchy"] = any(o["op"] == "start" for o in ops)

    def do_next():
        try:
            f = next(g)
            return f, ["fut", 1 if f.is_computed() else 0]
        except StopIteration:
            return None, ["stop"]
        except RuntimeError:
            return None, ["runtime"]
        except Exception as e:
            return None, ["raised", type(e).__name__]

    j = 0
    while j < len(ops):
        o = ops[j]
        j += 1
        op = o["op"]
        if op == "start":
            # the future returned last is yielded together with a sibling task; it runs first, gets as far as the
            # body's await (a batch item) and is suspended; the sibling then executes the history's next() calls up
            # to the compute (= let the scheduler flush and the future finish)
            block = []
            while j < len(ops) and ops[j]["op"] == "next":
                block.append(ops[j])
                j += 1
            has_compute = j < len(ops) and ops[j]["op"] == "compute"
            if has_compute:
                j += 1
            sib = []
            keep = {"last": last}

            @asynq.asynq()
            def sibling():
                for _ in block:
                    f, r = do_next()
                    if f is not None:
                        keep["last"] = f
                    sib.append(r)

            @asynq.asynq()
            def driver(fut):
                v, _ = yield fut, sibling.asynq()
                return v

            try:
                v = driver(last)
                r = ["end"] if v is END_OF_GENERATOR else ["val", [encv(v, st)]]
            except Exception as e:
                r = ["raised", type(e).__name__]
            while len(sib) < len(block):
                sib.append(["not_run"])
            got.append(["ok"])
            got.extend(sib)
            if has_compute:
                got.append(r)
            last = keep["last"]
            continue
        if op == "next":
            try:
                last = next(g)
                r = ["fut", 1 if last.is_computed() else 0]
            except StopIteration:
                r = ["stop"]
            except RuntimeError:
                r = ["runtime"]
            except Exception as e:
                r = ["raised", type(e).__name__]
        elif op == "compute":
            if last is None:
                r = ["nofut"]
            else:
                try:
                    v = last.value()
                    r = ["end"] if v is END_OF_GENERATOR else ["val", [encv(v, st)]]
                except Exception as e:
                    r = ["raised", type(e).__name__]
        else:
            try:
                vs = list_of_generator(g) if op == "list" else take_first(g, o["n"])
                r = ["lst", [encv(v, st) for v in vs], st["pulls"]]
            except RuntimeError:
                r = ["runtime"]
            except StopIteration:
                r = ["stop"]
            except Exception as e:
                r = ["raised", type(e).__name__]
        got.append(r)
    return got


def compare(ops, got):
    if len(got) != len(ops):
        return [0]
    """indexes of the operations whose real result is not one the spec allows"""
    diff = []
    tail = None        # what the real generator did at the next() issued with no Value ahead
    tail_fut_done = False
    for j, (o, g) in enumerate(zip(ops, got)):
        k, vs, p = o["res"]["k"], o["res"]["vs"], o["res"]["p"]
        ok = True
        if k == "any" or k == "ok":
            pass
        elif k in ("stop", "runtime"):
            ok = g == [k]
        elif k == "fut":
            ok = g[0] == "fut"
        elif k == "val":
            ok = g == ["val", list(vs)]
        elif k == "lst":
            ok = g[0] == "lst" and g[1] == list(vs) and g[2] <= p
        elif k == "tail":
            ok = g[0] in ("fut", "stop")
            tail = g[0]
            tail_fut_done = g[0] == "fut" and g[1] == 1
        elif k == "tailnext":
            if tail == "stop" or tail_fut_done:
                ok = g == ["stop"]
            elif tail == "fut":
                ok = g == ["runtime"]
        elif k == "tailend":
            if tail == "fut":
                ok = g == ["end"]
                tail_fut_done = True
        else:
            ok = False
        if not ok:
            diff.append(j)
    return diff


def main():
    cases = json.load(sys.stdin)
    out = []
    for i, c in enumerate(cases):
        try:
            got = run_history(c)
        except BaseException as e:
            out.append({"i": i, "got": "harness exception %s: %s" % (type(e).__name__, e), "diff": [0]})
            continue
        diff = compare(c["h"], got)
        if diff:
            out.append({"i": i, "got": got, "diff": diff})
    out.append({"n": len(cases)})
    json.dump(out, real_out)
    real_out.flush()


main()
