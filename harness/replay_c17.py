"""Replays AsyncGen.tla histories into real @async_generator() objects (runs inside the build under test).

case = {"body": ["A","V","G",...], "k": int, "inner": "AVA" (shape of the nested generator, k Values), "h": [...]}
The generator body increments st["pulls"] before every A, before every Value it yields and when it returns;
awaits of inner tasks (the flattened "g") are not counted, exactly as Cnt() in the spec."""
import json
import os
import sys

devnull = open(os.devnull, "w")
real_out = os.fdopen(os.dup(1), "w")
os.dup2(devnull.fileno(), 1)
sys.stdout = devnull
os.dup2(devnull.fileno(), 2)

import asynq
from asynq.futures import ConstFuture
from asynq.generator import END_OF_GENERATOR, Value, async_generator, list_of_generator, take_first


@asynq.asynq()
def leaf(x):
    return x


@asynq.asynq()
def deeper(x):
    y = yield leaf.asynq(x)
    z = yield ConstFuture(y)
    return z


def awaited(i):
    """the future an 'A' element awaits: a task, a task with awaits of its own, or a constant future"""
    if i % 3 == 0:
        return leaf.asynq(i)
    if i % 3 == 1:
        return deeper.asynq(i)
    return ConstFuture(i)


def make_inner(shape):
    @async_generator()
    def inner():
        m = 0
        for j, e in enumerate(shape):
            if e == "A":
                yield awaited(j)
            else:
                m += 1
                yield Value(10 + m)
    return inner


def make(body, shape, st):
    inner = make_inner(shape)

    @async_generator()
    def gen():
        for i, e in enumerate(body):
            if e == "A":
                st["pulls"] += 1
                got = yield awaited(i)
                if got != i:
                    st["bad_await"] = (i, got)
            elif e == "V":
                st["pulls"] += 1
                yield Value(i + 1)
            else:
                for task in inner():
                    v = yield task
                    if v is END_OF_GENERATOR:
                        continue
                    st["pulls"] += 1
                    yield Value(v)
        st["pulls"] += 1
    return gen()


def encv(v):
    if v is END_OF_GENERATOR:
        return "END"
    return v if isinstance(v, int) and not isinstance(v, bool) else repr(v)


def run_history(case):
    asynq.scheduler.reset()
    st = {"pulls": 0}
    g = make(case["body"], case.get("inner", ""), st)
    last = None
    got = []
    for o in case["h"]:
        op = o["op"]
        if op == "next":
            try:
                last = next(g)
                r = ["fut", 1 if last.is_computed() else 0]
            except StopIteration:
                r = ["stop"]
            except RuntimeError:
                r = ["runtime"]
            except Exception as e:
                r = ["raised", type(e).__name__]
        elif op == "compute":
            if last is None:
                r = ["nofut"]
            else:
                try:
                    v = last.value()
                    r = ["end"] if v is END_OF_GENERATOR else ["val", [encv(v)]]
                except Exception as e:
                    r = ["raised", type(e).__name__]
        else:
            try:
                vs = list_of_generator(g) if op == "list" else take_first(g, o["n"])
                r = ["lst", [encv(v) for v in vs], st["pulls"]]
            except RuntimeError:
                r = ["runtime"]
            except StopIteration:
                r = ["stop"]
            except Exception as e:
                r = ["raised", type(e).__name__]
        got.append(r)
    return got


def compare(ops, got):
    """indexes of the operations whose real result is not one the spec allows"""
    diff = []
    tail = None        # what the real generator did at the next() issued with no Value ahead
    tail_fut_done = False
    for j, (o, g) in enumerate(zip(ops, got)):
        k, vs, p = o["res"]["k"], o["res"]["vs"], o["res"]["p"]
        ok = True
        if k == "any":
            pass
        elif k in ("stop", "runtime"):
            ok = g == [k]
        elif k == "fut":
            ok = g[0] == "fut"
        elif k == "val":
            ok = g == ["val", list(vs)]
        elif k == "lst":
            ok = g[0] == "lst" and g[1] == list(vs) and g[2] <= p
        elif k == "tail":
            ok = g[0] in ("fut", "stop")
            tail = g[0]
            tail_fut_done = g[0] == "fut" and g[1] == 1
        elif k == "tailnext":
            if tail == "stop" or tail_fut_done:
                ok = g == ["stop"]
            elif tail == "fut":
                ok = g == ["runtime"]
        elif k == "tailend":
            if tail == "fut":
                ok = g == ["end"]
                tail_fut_done = True
        else:
            ok = False
        if not ok:
            diff.append(j)
    return diff


def main():
    cases = json.load(sys.stdin)
    out = []
    for i, c in enumerate(cases):
        try:
            got = run_history(c)
        except BaseException as e:
            out.append({"i": i, "got": "harness exception %s: %s" % (type(e).__name__, e), "diff": [0]})
            continue
        diff = compare(c["h"], got)
        if diff:
            out.append({"i": i, "got": got, "diff": diff})
    out.append({"n": len(cases)})
    json.dump(out, real_out)
    real_out.flush()


main()
