"""Replays MockPatch.tla histories with the real asynq_mock.patch / patch.object on a scratch module (runs inside
the build under test).  Nesting of with-blocks / decorated functions is realised by recursion: an `enter` of a
block style opens a real `with` statement (or calls a really decorated function / test-class method) whose body
replays the following operations until the matching exit operation."""
import asyncio
import json
import os
import sys
import types

devnull = open(os.devnull, "w")
real_out = os.fdopen(os.dup(1), "w")
os.dup2(devnull.fileno(), 1)
sys.stdout = devnull
if not os.environ.get("VERIF_DEBUG"):
    os.dup2(devnull.fileno(), 2)

from unittest import mock

import asynq
from asynq import mock_ as asynq_mock  # asynq.mock is the attribute name of this module
from asynq import asynq as asynq_deco

MODNAME = "c19_scratch_mod"


class ExitExc(Exception):
    pass


class Abort(Exception):
    """a patch operation itself raised: recorded as that operation's observation, rest of the history skipped"""


class Val(object):
    """a non-callable replacement value"""

    def __init__(self, k):
        self.k = k


class State(object):
    def __init__(self):
        self.calls = []
        self.stack = []  # (style, patcher, k)
        self.values = {}


ST = State()


def rec(k, a, kw):
    """every original / replacement ends here: who was reached, with which arguments"""
    bound = "none"
    if len(a) == 2:
        bound = "inst" if a[0] is ST.inst else "other"
    elif len(a) != 1:
        bound = "argc%d" % len(a)
    x = a[-1] if a else "missing"
    y = kw.get("y", "missing")
    extra = sorted(k_ for k_ in kw if k_ != "y")
    ST.calls.append({"reach": k, "bound": bound, "x": x, "y": y, "extra": extra})
    return ["r", k, x, y]


def make_module():
    mod = types.ModuleType(MODNAME)

    @asynq_deco()
    def fn(x, y=0):
        return rec(0, (x,), {"y": y})

    class Cls(object):
        @asynq_deco()
        def meth(self, x, y=0):
            return rec(0, (self, x), {"y": y})

        @asynq_deco()
        @classmethod
        def cmeth(cls, x, y=0):
            return rec(0, (x,), {"y": y})

        @asynq_deco()
        @staticmethod
        def smeth(x, y=0):
            return rec(0, (x,), {"y": y})

        attr = Val(0)

    mod.fn = fn
    mod.Cls = Cls
    sys.modules[MODNAME] = mod
    return mod


TARGETS = {
    "modfn": (MODNAME + ".fn", lambda m: m, "fn"),
    "meth": (MODNAME + ".Cls.meth", lambda m: m.Cls, "meth"),
    "cmeth": (MODNAME + ".Cls.cmeth", lambda m: m.Cls, "cmeth"),
    "smeth": (MODNAME + ".Cls.smeth", lambda m: m.Cls, "smeth"),
    "attr": (MODNAME + ".Cls.attr", lambda m: m.Cls, "attr"),
}


class Recorder(object):
    def __init__(self, k):
        self.k = k

    def method(self, *a, **kw):
        return rec(self.k, a, kw)


class CallObj(object):
    def __init__(self, k):
        self.k = k

    def __call__(self, *a, **kw):
        return rec(self.k, a, kw)


def make_patcher(target, api, repl, k):
    name, holder, attr = TARGETS[target]
    args, kwargs = [], {}
    if repl == "function":
        def replacement(*a, **kw):
            return rec(k, a, kw)
        args = [replacement]
    elif repl == "boundmeth":
        ST.keep.append(Recorder(k))
        args = [ST.keep[-1].method]
    elif repl == "callobj":
        args = [CallObj(k)]
    elif repl == "newcallable":
        kwargs = {"new_callable": lambda: mock.MagicMock(side_effect=lambda *a, **kw: rec(k, a, kw))}
    elif repl == "value":
        ST.values[k] = Val(k)
        args = [ST.values[k]]
    if api == "str":
        return asynq_mock.patch(name, *args, **kwargs)
    return asynq_mock.patch.object(holder(ST.mod), attr, *args, **kwargs)


def configure(m, repl, k):
    if repl == "default":
        m.side_effect = lambda *a, **kw: rec(k, a, kw)


def slot_token(target):
    _, holder, attr = TARGETS[target]
    cur = holder(ST.mod).__dict__.get(attr, "absent")
    if cur is ST.orig:
        return "orig"
    for k, v in ST.values.items():
        if cur is v:
            return "val%d" % k
    if cur == "absent":
        return "absent"
    return "other"


def accessor(target):
    m = ST.mod
    if target == "modfn":
        return m.fn
    if target == "meth":
        return ST.inst.meth
    if target == "cmeth":
        return m.Cls.cmeth
    if target == "smeth":
        return m.Cls.smeth
    return m.Cls.attr


def do_call(target, conv, x, y):
    ST.calls = []
    if conv == "read":
        return {"conv": conv, "slot": slot_token(target)}
    try:
        f = accessor(target)
        if conv == "sync":
            r = f(x, y=y)
        elif conv == "asynq":
            r = f.asynq(x, y=y).value()
        elif conv == "yield":
            @asynq_deco()
            def caller():
                v = yield f.asynq(x, y=y)
                return v
            r = caller()
        elif conv == "asyncio":
            r = asyncio.run(f.asyncio(x, y=y))
        else:
            r = "unknown convention"
    except BaseException as e:
        return {"conv": conv, "raised": "%s: %s" % (type(e).__name__, e)}
    if len(ST.calls) != 1:
        return {"conv": conv, "reached": ST.calls, "result": repr(r)}
    c = ST.calls[0]
    if c["extra"]:
        return {"conv": conv, "extra_kwargs": c["extra"]}
    ok = r == ["r", c["reach"], x, y]
    return {"conv": conv, "reach": c["reach"], "bound": c["bound"], "x": c["x"], "y": c["y"], "result": "agrees" if ok else repr(r)}


def observe(case, i):
    """the slot, and one call through every convention the model lists for this step (x = index, y = step)"""
    target = case["target"]
    convs = case["h"][i]["res"]["convs"]
    return {"slot": slot_token(target), "calls": [do_call(target, c, n + 1, i + 1) for n, c in enumerate(convs)]}


def run(case, i, got):
    """replays ops[i:] until the innermost open block is closed; returns (next index, how)"""
    ops = case["h"]
    target = case["target"]
    while i < len(ops):
        o = ops[i]
        op = o["op"]
        if op == "enter":
            k, style, repl = o["k"], o["style"], o["repl"]
            try:
                patcher = make_patcher(target, case["api"], repl, k)
                if style == "start":
                    m = patcher.start()
            except Exception as e:
                got[i] = {"raised": "%s: %s" % (type(e).__name__, e)}
                raise Abort()
            if style == "start":
                ST.stack.append((style, patcher, k))
                configure(m, repl, k)
                got[i] = observe(case, i)
                i += 1
                continue
            box = {"i": i + 1, "how": "end"}

            def body(m, i=i, box=box):
                box["entered"] = True
                ST.stack.append((style, patcher, k))
                if m is not None:
                    configure(m, repl, k)
                got[i] = observe(case, i)
                box["i"], box["how"] = run(case, i + 1, got)
                if box["how"] == "end":
                    cleanup_started()
                ST.stack.pop()
                if box["how"] == "exit_exception":
                    raise ExitExc()

            try:
                if style == "with":
                    with patcher as m:
                        body(m if repl in ("default", "newcallable") else None)
                elif style == "deco":
                    @patcher
                    def decorated(*mocks):
                        body(mocks[0] if mocks else None)
                    decorated()
                elif style == "classdeco":
                    @patcher
                    class Tests(object):
                        def test_it(self, *mocks):
                            body(mocks[0] if mocks else None)
                    Tests().test_it()
            except ExitExc:
                pass
            except Abort:
                raise
            except Exception as e:
                at = i if not box.get("entered") else min(box["i"] - 1, len(ops) - 1)
                got[at] = {"raised": "%s: %s" % (type(e).__name__, e)}
                raise Abort()
            if box["how"] == "end":
                return len(ops), "end"
            got[box["i"] - 1] = observe(case, box["i"] - 1)
            i = box["i"]
            continue
        if op in ("exit_normal", "exit_exception"):
            return i + 1, op
        try:
            if op == "stop":
                style, patcher, k = ST.stack.pop()
                assert style == "start", "model/harness disagree: stop on a %s patch" % style
                patcher.stop()
            elif op == "stopall":
                while ST.stack and ST.stack[-1][0] == "start":
                    ST.stack.pop()
                asynq_mock.patch.stopall()
        except AssertionError:
            raise
        except Exception as e:
            got[i] = {"raised": "%s: %s" % (type(e).__name__, e)}
            raise Abort()
        got[i] = observe(case, i)
        i += 1
    return len(ops), "end"


def cleanup_started():
    while ST.stack and ST.stack[-1][0] == "start":
        _, p, _ = ST.stack.pop()
        p.stop()


def run_case(case):
    asynq.scheduler.reset()
    ST.__init__()
    ST.keep = []
    ST.mod = make_module()
    ST.inst = ST.mod.Cls()
    _, holder, attr = TARGETS[case["target"]]
    ST.orig = holder(ST.mod).__dict__[attr]
    got = [None] * len(case["h"])
    try:
        run(case, 0, got)
        cleanup_started()
    except Abort:
        got = [g if g is not None else "skipped" for g in got]
    finally:
        mock.patch.stopall()
        sys.modules.pop(MODNAME, None)
    return got


def matches(o, g, step):
    """prescribed (o['res']) against observed"""
    if g == "skipped":
        return True
    if g is None:
        return False
    want = o["res"]
    if want["slot"] != g.get("slot"):
        return False
    gc = g.get("calls") or []
    if len(gc) != len(want["convs"]):
        return False
    for n, (conv, c) in enumerate(zip(want["convs"], gc)):
        if conv == "read":
            if c.get("slot") != want["slot"]:
                return False
            continue
        if c.get("reach") != want["reach"] or c.get("x") != n + 1 or c.get("y") != step or c.get("result") != "agrees" or c.get("bound") != want["bound"]:
            return False
    return True


def main():
    cases = json.load(sys.stdin)
    out = []
    for i, c in enumerate(cases):
        try:
            got = run_case(c)
        except BaseException as e:
            out.append({"i": i, "got": "harness exception %s: %s" % (type(e).__name__, e), "diff": [0]})
            continue
        diff = [j for j, (o, g) in enumerate(zip(c["h"], got)) if not matches(o, g, j + 1)]
        if diff:
            out.append({"i": i, "got": got, "diff": diff})
    out.append({"n": len(cases)})
    json.dump(out, real_out, default=lambda x: "<%s>" % type(x).__name__)
    real_out.flush()


main()
