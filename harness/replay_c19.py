"""Replays MockPatch.tla histories with the real asynq.mock.patch / patch.object on a scratch module (runs inside
the build under test).  Nesting of with-blocks / decorated functions is realised by recursion: activating a
block-style patcher opens a real `with` statement (or calls the really decorated function / test-class method)
whose body replays the following operations until the exit operation of that block.  Patcher objects are kept,
so that `reenter` activates THE SAME patcher (decorated function, test class, with-statement object, start())
again; `rehold` re-creates the scratch module (new holders, new originals) under the same dotted names."""
import asyncio
import json
import os
import sys
import types

devnull = open(os.devnull, "w")
real_out = os.fdopen(os.dup(1), "w")
os.dup2(devnull.fileno(), 1)
sys.stdout = devnull
if not os.environ.get("VERIF_DEBUG"):
    os.dup2(devnull.fileno(), 2)

from unittest import mock

import asynq
from asynq import mock_ as asynq_mock  # asynq.mock is the attribute name of this module
from asynq import asynq as asynq_deco
from asynq.futures import ConstFuture, FutureBase

MODNAME = "c19_scratch_mod"


class ExitExc(Exception):
    pass


class Abort(Exception):
    """a patch operation itself raised: recorded as that operation's observation, rest of the history skipped"""


class Val(object):
    """a non-callable replacement value"""

    def __init__(self, k):
        self.k = k


class State(object):
    def __init__(self):
        self.calls = []
        self.act = []      # active patcher numbers, activation order
        self.pat = {}      # k -> dict(style, repl, target, patcher, run=callable that activates a block patcher)
        self.objs = {}     # object id -> the replacement object handed to patch()
        self.values = {}   # object id -> Val
        self.keep = []
        self.orig = {}
        self.nact = {}     # patcher -> number of activations so far (generated mocks: one fresh mock per activation)
        self.futk = set()  # object ids of replacements that return an asynq future


ST = State()


def want_result(k, x, y):
    """what every convention must hand back after reaching object k with (x, y=y)"""
    return ["fut", ["r", k, x, y]] if k in ST.futk else ["r", k, x, y]


def norm_result(r):
    """a future handed back by a replacement is compared by its value (and by being a future)"""
    return ["fut", r.value()] if isinstance(r, FutureBase) else r


def rec(k, a, kw):
    """every original / replacement ends here: who was reached, with which arguments"""
    bound = "none"
    if len(a) == 2:
        bound = "inst" if a[0] is ST.inst else "cls" if a[0] is ST.mod.Cls else "other"
    elif len(a) != 1:
        bound = "argc%d" % len(a)
    x = a[-1] if a else "missing"
    y = kw.get("y", "missing")
    extra = sorted(k_ for k_ in kw if k_ != "y")
    ST.calls.append({"reach": k, "bound": bound, "x": x, "y": y, "extra": extra})
    return ["r", k, x, y]


def make_module():
    mod = types.ModuleType(MODNAME)

    @asynq_deco()
    def fn(x, y=0):
        return rec(0, (x,), {"y": y})

    @asynq_deco()
    def fn2(x, y=0):
        return rec(0, (x,), {"y": y})

    class Cls(object):
        def __len__(self):      # instances are falsy (an empty container-like object): binding must not depend on truthiness
            return 0

        @asynq_deco()
        def meth(self, x, y=0):
            return rec(0, (self, x), {"y": y})

        @asynq_deco()
        @classmethod
        def cmeth(cls, x, y=0):
            return rec(0, (cls, x), {"y": y})

        @asynq_deco()
        @staticmethod
        def smeth(x, y=0):
            return rec(0, (x,), {"y": y})

        attr = Val(0)

    mod.fn = fn
    mod.fn2 = fn2
    mod.Cls = Cls
    sys.modules[MODNAME] = mod
    return mod


TARGETS = {
    "modfn": (MODNAME + ".fn", lambda m: m, "fn"),
    "modfn2": (MODNAME + ".fn2", lambda m: m, "fn2"),
    "meth": (MODNAME + ".Cls.meth", lambda m: m.Cls, "meth"),
    "cmeth": (MODNAME + ".Cls.cmeth", lambda m: m.Cls, "cmeth"),
    "smeth": (MODNAME + ".Cls.smeth", lambda m: m.Cls, "smeth"),
    "attr": (MODNAME + ".Cls.attr", lambda m: m.Cls, "attr"),
}


def targets_of(case):
    return [case["target"], "modfn2"] if case.get("two") else [case["target"]]


def install_module(case):
    ST.mod = make_module()
    ST.inst = ST.mod.Cls()
    ST.orig = {}
    for t in targets_of(case):
        _, holder, attr = TARGETS[t]
        ST.orig[t] = holder(ST.mod).__dict__[attr]


class Recorder(object):
    def __init__(self, k):
        self.k = k

    def method(self, *a, **kw):
        return rec(self.k, a, kw)


class CallObj(object):
    def __init__(self, k):
        self.k = k

    def __call__(self, *a, **kw):
        return rec(self.k, a, kw)


def replacement_object(repl, k):
    """the object the caller hands to patch(); created once per object id, so that `share` reuses it"""
    if k in ST.objs:
        return ST.objs[k]
    if repl == "function":
        def replacement(*a, **kw):
            return rec(k, a, kw)
        o = replacement
    elif repl == "futfn":
        def replacement(*a, **kw):
            return ConstFuture(rec(k, a, kw))       # the replacement's result IS a future: handed back as is by every convention
        ST.futk.add(k)
        o = replacement
    elif repl == "boundmeth":
        ST.keep.append(Recorder(k))
        o = ST.keep[-1].method
    elif repl == "callobj":
        o = CallObj(k)
    elif repl == "classmethod":
        o = classmethod(lambda cls, *a, **kw: rec(k, (cls,) + a, kw))
    elif repl == "staticmethod":
        o = staticmethod(lambda *a, **kw: rec(k, a, kw))
    else:
        o = ST.values[k] = Val(k)
    ST.objs[k] = o
    return o


def make_patcher(target, api, repl, k, share):
    name, holder, attr = TARGETS[target]
    args, kwargs = [], {}
    if repl in ("function", "futfn", "boundmeth", "callobj", "value", "classmethod", "staticmethod"):
        args = [replacement_object(repl, share or k)]
    elif repl == "newcallable":
        def factory():          # called by every activation: each generates a fresh mock (reach = k + 100 * activation number)
            ST.nact[k] = n = ST.nact.get(k, 0) + 1
            return mock.MagicMock(side_effect=lambda *a, **kw: rec(k + 100 * n, a, kw))
        kwargs = {"new_callable": factory}
    if api == "str":
        return asynq_mock.patch(name, *args, **kwargs)
    return asynq_mock.patch.object(holder(ST.mod), attr, *args, **kwargs)


def configure(m, P):
    if P["repl"] == "default" and m is not None:
        k = P["k"]
        ST.nact[k] = n = ST.nact.get(k, 0) + 1          # the mock THIS activation generated
        m.side_effect = lambda *a, **kw: rec(k + 100 * n, a, kw)


def slot_token(target):
    _, holder, attr = TARGETS[target]
    cur = holder(ST.mod).__dict__.get(attr, "absent")
    if cur is ST.orig[target]:
        return "orig"
    for k, v in ST.values.items():
        if cur is v:
            return "val%d" % k
    if isinstance(cur, str) and cur == "absent":
        return "absent"
    return "other"


def accessor(target, path):
    m = ST.mod
    if target == "modfn":
        return m.fn
    if target == "modfn2":
        return m.fn2
    return getattr(ST.inst if path == "inst" else m.Cls, {"meth": "meth", "cmeth": "cmeth", "smeth": "smeth", "attr": "attr"}[target])


_LOOP = []


def run_coroutine(coro):
    """awaits the coroutine on an asyncio event loop, like asyncio.run(coro) but on ONE loop per replay process:
    building and tearing down a loop (and its signal handlers) for each of the ~10^6 calls dominates the run time"""
    if not _LOOP:
        _LOOP.append(asyncio.new_event_loop())
    return _LOOP[0].run_until_complete(coro)


GATHER = 3


@asynq_deco()
def yield_caller(f, x, y):
    v = yield f.asynq(x, y=y)
    return v


def do_call(target, path, conv, x, y):
    ST.calls = []
    if conv == "read":
        return {"conv": conv, "slot": slot_token(target)}
    xs = [x]
    try:
        f = accessor(target, path)
        if conv == "sync":
            r = f(x, y=y)
        elif conv == "asynq":
            r = f.asynq(x, y=y).value()
        elif conv == "yield":
            r = yield_caller(f, x, y)
        elif conv == "asyncio":
            r = run_coroutine(f.asyncio(x, y=y))
        elif conv == "gather":
            xs = [x + 1000 * (j + 1) for j in range(GATHER)]

            async def fan_out():
                pending = [f.asyncio(xj, y=y) for xj in xs]     # all created before any is awaited
                return await asyncio.gather(*pending)
            r = run_coroutine(fan_out())
        else:
            r = "unknown convention"
    except BaseException as e:
        asynq.scheduler.reset()
        return {"conv": conv, "raised": "%s: %s" % (type(e).__name__, e)}
    if len(ST.calls) != len(xs):
        return {"conv": conv, "reached": ST.calls, "result": repr(r)}
    if any(c["extra"] for c in ST.calls):
        return {"conv": conv, "extra_kwargs": [c["extra"] for c in ST.calls]}
    c = ST.calls[0]
    if conv == "gather":
        same = all(d["reach"] == c["reach"] and d["bound"] == c["bound"] and d["y"] == c["y"] for d in ST.calls)
        ok = same and sorted(d["x"] for d in ST.calls) == xs and [norm_result(z) for z in r] == [want_result(c["reach"], xj, y) for xj in xs]
        return {"conv": conv, "reach": c["reach"], "bound": c["bound"], "x": x, "y": c["y"], "result": "agrees" if ok else repr((r, ST.calls))}
    ok = norm_result(r) == want_result(c["reach"], x, y)
    return {"conv": conv, "reach": c["reach"], "bound": c["bound"], "x": c["x"], "y": c["y"], "result": "agrees" if ok else repr(r)}


def do_async_pair(target, path, x1, x2, y):
    """the conventions "asyncio" (one coroutine awaited alone, argument x1) and "gather" (GATHER coroutines created
    first, then awaited together, arguments x2 + 1000, x2 + 2000, ...) in ONE event loop run; -> two observations"""
    ST.calls = []
    xs = [x2 + 1000 * (j + 1) for j in range(GATHER)]
    mark = {}
    try:
        f = accessor(target, path)

        async def both():
            r1 = await f.asyncio(x1, y=y)
            mark["n"] = len(ST.calls)
            pending = [f.asyncio(xj, y=y) for xj in xs]     # all created before any is awaited
            return r1, await asyncio.gather(*pending)
        r1, r2 = run_coroutine(both())
    except BaseException as e:
        asynq.scheduler.reset()
        err = {"raised": "%s: %s" % (type(e).__name__, e)}
        return dict(err, conv="asyncio"), dict(err, conv="gather")
    calls = ST.calls
    out = []
    for conv, cs, want_xs, r in (("asyncio", calls[:mark["n"]], [x1], [r1]), ("gather", calls[mark["n"]:], xs, r2)):
        if len(cs) != len(want_xs):
            out.append({"conv": conv, "reached": cs, "result": repr(r)})
        elif any(c["extra"] for c in cs):
            out.append({"conv": conv, "extra_kwargs": [c["extra"] for c in cs]})
        else:
            c = cs[0]
            same = all(d["reach"] == c["reach"] and d["bound"] == c["bound"] and d["y"] == c["y"] for d in cs)
            ok = same and sorted(d["x"] for d in cs) == want_xs and [norm_result(z) for z in r] == [want_result(c["reach"], xj, y) for xj in want_xs]
            out.append({"conv": conv, "reach": c["reach"], "bound": c["bound"], "x": x1 if conv == "asyncio" else x2, "y": c["y"],
                        "result": "agrees" if ok else repr((r, cs))})
    return out[0], out[1]


def xval(t, a, n):
    return 100 * t + 10 * a + n + 1


def observe(case, i):
    """per target: the slot, and per access path one call through every convention the model lists for this step"""
    out = []
    for t, target in enumerate(targets_of(case)):
        want = case["h"][i]["res"][t]
        convs = want["convs"]
        paths = []
        for a, pa in enumerate(want["paths"]):
            if convs[-2:] == ["asyncio", "gather"]:
                n = len(convs) - 2
                got = [do_call(target, pa["path"], c, xval(t, a, m), i + 1) for m, c in enumerate(convs[:-2])]
                got += list(do_async_pair(target, pa["path"], xval(t, a, n), xval(t, a, n + 1), i + 1))
            else:
                got = [do_call(target, pa["path"], c, xval(t, a, m), i + 1) for m, c in enumerate(convs)]
            paths.append(got)
        out.append({"slot": slot_token(target), "paths": paths})
    return out


def raised(e):
    return {"raised": "%s: %s" % (type(e).__name__, e)}


def activate(case, i, k, got):
    """activation of patcher k by the operation at index i; returns the next index (None: history ended inside)"""
    P = ST.pat[k]
    ops = case["h"]
    if P["style"] == "start":
        try:
            m = P["patcher"].start()
        except Exception as e:
            got[i] = raised(e)
            raise Abort()
        ST.act.append(k)
        configure(m if P["repl"] in ("default", "newcallable") else None, P)
        got[i] = observe(case, i)
        return i + 1
    box = {"i": i + 1, "how": "end", "entered": False}

    def body(m):
        box["entered"] = True
        ST.act.append(k)
        configure(m, P)
        got[i] = observe(case, i)
        box["i"], box["how"] = run(case, i + 1, got)
        if box["how"] == "end":
            cleanup_started()
        if k in ST.act:
            ST.act.remove(k)
        if box["how"] == "exit_exception":
            raise ExitExc()

    P["body"] = body
    try:
        if P["style"] == "with":
            with P["patcher"] as m:
                body(m if P["repl"] in ("default", "newcallable") else None)
        else:
            P["run"]()
    except ExitExc:
        pass
    except Abort:
        raise
    except Exception as e:
        got[i if not box["entered"] else min(box["i"] - 1, len(ops) - 1)] = raised(e)
        raise Abort()
    if box["how"] == "end":
        return None
    got[box["i"] - 1] = observe(case, box["i"] - 1)
    return box["i"]


def create(case, o):
    k = o["k"]
    target = targets_of(case)[o["tgt"] - 1]
    patcher = make_patcher(target, case["api"], o["repl"], k, o["share"])
    P = {"k": k, "style": o["style"], "repl": o["repl"], "target": target, "patcher": patcher}
    if o["style"] == "deco":
        @patcher
        def decorated(*mocks):
            P["body"](mocks[0] if mocks else None)
        P["run"] = decorated
    elif o["style"] == "classdeco":
        @patcher
        class Tests(object):
            def test_it(self, *mocks):
                P["body"](mocks[0] if mocks else None)
        P["run"] = lambda: Tests().test_it()
    ST.pat[k] = P


def run(case, i, got):
    """replays ops[i:] until the innermost open block is closed; returns (next index, how)"""
    ops = case["h"]
    while i < len(ops):
        o = ops[i]
        op = o["op"]
        if op in ("enter", "reenter"):
            if op == "enter":
                try:
                    create(case, o)
                except Exception as e:
                    got[i] = raised(e)
                    raise Abort()
            i = activate(case, i, o["k"], got)
            if i is None:
                return len(ops), "end"
            continue
        if op in ("exit_normal", "exit_exception"):
            return i + 1, op
        try:
            if op == "stop":
                assert ST.pat[o["k"]]["style"] == "start", "model/harness disagree: stop on a block patch"
                ST.act.remove(o["k"])
                ST.pat[o["k"]]["patcher"].stop()
            elif op == "stopall":
                ST.act = [k for k in ST.act if ST.pat[k]["style"] != "start"]
                asynq_mock.patch.stopall()
            elif op == "rehold":
                install_module(case)
        except AssertionError:
            raise
        except Exception as e:
            got[i] = raised(e)
            raise Abort()
        got[i] = observe(case, i)
        i += 1
    return len(ops), "end"


def cleanup_started():
    for k in reversed(list(ST.act)):
        if ST.pat[k]["style"] == "start":
            ST.act.remove(k)
            try:
                ST.pat[k]["patcher"].stop()
            except Exception:
                pass


def run_case(case):
    asynq.scheduler.reset()
    ST.__init__()
    install_module(case)
    got = [None] * len(case["h"])
    try:
        run(case, 0, got)
        cleanup_started()
    except Abort:
        got = [g if g is not None else "skipped" for g in got]
    finally:
        mock.patch.stopall()
        sys.modules.pop(MODNAME, None)
    return got


def mismatch(o, g, step):
    """prescribed (o['res'], one record per target) against observed; None if they agree, else what the failing
    target should have held: 'active' (a replacement had to be reached) or 'restored' (the original)"""
    if g == "skipped":
        return None
    if not isinstance(g, list) or len(g) != len(o["res"]):
        return "active" if o["op"] in ("enter", "reenter") else "restored"
    for t, (want, gt) in enumerate(zip(o["res"], g)):
        what = "restored" if want["slot"] == "orig" else "active"
        if want["slot"] != gt.get("slot"):
            return what
        gp = gt.get("paths") or []
        if len(gp) != len(want["paths"]):
            return what
        for a, (pa, gc) in enumerate(zip(want["paths"], gp)):
            if len(gc) != len(want["convs"]):
                return what
            for n, (conv, c) in enumerate(zip(want["convs"], gc)):
                if conv == "read":
                    if c.get("slot") != want["slot"]:
                        return what
                    continue
                if c.get("reach") != want["reach"] or c.get("x") != xval(t, a, n) or c.get("y") != step or c.get("result") != "agrees" or c.get("bound") != pa["bound"]:
                    return what
    return None


def main():
    cases = json.load(sys.stdin)
    out = []
    for i, c in enumerate(cases):
        try:
            got = run_case(c)
        except BaseException as e:
            out.append({"i": i, "got": "harness exception %s: %s" % (type(e).__name__, e), "diff": [0]})
            continue
        why = [(j, mismatch(o, g, j + 1)) for j, (o, g) in enumerate(zip(c["h"], got))]
        diff = [j for j, w in why if w]
        if diff:
            out.append({"i": i, "got": got, "diff": diff, "why": [w for j, w in why if w][0]})
    out.append({"n": len(cases)})
    json.dump(out, real_out, default=lambda x: "<%s>" % type(x).__name__)
    real_out.flush()


main()
