"""Run P-lang programs in a build of the real code (in parallel worker processes) and validate the
recorded traces with TLC against the monitor specification TraceObs.tla."""
import json
import os
import subprocess
import time
from concurrent.futures import ThreadPoolExecutor

from common import NCPU, PY, SPECS, VERIF, MachineryError, pyenv, run_tlc

REALIZE = os.path.join(VERIF, "harness", "realize.py")


def _run_chunk(build_dir, jobs, timeout, extra_env=None):
    req = json.dumps({"jobs": jobs, "timeout": timeout})
    limit = 120 + len(jobs) * 0.5
    try:
        r = subprocess.run([PY, "-W", "ignore", REALIZE], input=req, capture_output=True, text=True,
                           env=pyenv(build_dir, extra_env), timeout=limit)
    except subprocess.TimeoutExpired:
        # a hang the in-process alarm could not interrupt (C-level loop): re-run job by job to find it
        if len(jobs) == 1:
            return [{"id": jobs[0].get("id"), "events": [{"e": "Hang"}], "hang": True, "crash": None}]
        out = []
        for j in jobs:
            out += _run_chunk(build_dir, [j], timeout, extra_env)
        return out
    if r.returncode != 0:
        if len(jobs) == 1:
            return [{"id": jobs[0].get("id"), "events": [{"e": "Hang"}], "hang": False,
                     "crash": "worker died rc=%d: %s" % (r.returncode, r.stderr[-500:])}]
        out = []
        for j in jobs:
            out += _run_chunk(build_dir, [j], timeout, extra_env)
        return out
    return json.loads(r.stdout)


def run_jobs(build_dir, jobs, nproc=None, timeout=10, chunk=None, extra_env=None):
    """jobs: [{"id":..., "prog":..., "schedule":..., "tb":...}] -> results in the same order"""
    nproc = nproc or NCPU
    if not jobs:
        return []
    chunk = chunk or max(1, min(500, (len(jobs) + nproc - 1) // nproc))
    chunks = [jobs[i:i + chunk] for i in range(0, len(jobs), chunk)]
    with ThreadPoolExecutor(max_workers=nproc) as ex:
        res = list(ex.map(lambda c: _run_chunk(build_dir, c, timeout, extra_env), chunks))
    out = []
    for r in res:
        out += r
    return out


def validate(traces, scratch, nproc=None, chunk=400, timeout=1800):
    """traces: [{"id": any JSON scalar, "prog":..., "events": [...]}]; returns ({id: [clause...]}, stats)
    where each clause is "<event index>:<clause id>".  Runs TraceObs.tla under TLC, several JVMs in parallel."""
    nproc = nproc or max(1, NCPU // 2)
    if not traces:
        return {}, {"states": 0, "tlc_runs": 0, "wall": 0.0}
    chunks = [traces[i:i + chunk] for i in range(0, len(traces), chunk)]
    d = scratch.mkdir("traces")
    t0 = time.time()

    def one(args):
        n, ch = args
        path = os.path.join(d, "tr-%d-%d.json" % (os.getpid(), n))
        # ids are replaced by positions: TLC prints them back
        with open(path, "w") as f:
            json.dump([{"id": i, "prog": t["prog"], "events": t["events"]} for i, t in enumerate(ch)], f,
                      separators=(",", ":"))
        res = run_tlc("TraceObs", "TraceObs.cfg", scratch, env={"TRACES": path}, workers=2, timeout=timeout, heap="3g")
        os.unlink(path)
        if res.timed_out or not res.ok:
            raise MachineryError("TraceObs run failed rc=%s:\n%s" % (res.rc, res.out[-3000:]))
        verdicts = {}
        for v in res.printed():
            if isinstance(v, dict) and "verdict" in v:
                verdicts[v["verdict"]] = v["bad"]
        if len(verdicts) != len(ch):
            raise MachineryError("TraceObs printed %d verdicts for %d traces:\n%s" % (len(verdicts), len(ch), res.out[-2000:]))
        return [(ch[i]["id"], verdicts[i]) for i in range(len(ch))], res.distinct

    with ThreadPoolExecutor(max_workers=nproc) as ex:
        results = list(ex.map(one, list(enumerate(chunks))))
    out = {}
    states = 0
    for r, st in results:
        states += st
        for i, bad in r:
            out[i] = bad
    return out, {"states": states, "tlc_runs": len(chunks), "wall": time.time() - t0}


def clause_of(entry):
    """'12:C05.prio' -> 'C05.prio'"""
    return entry.split(":", 1)[1]


def prop_of(clause):
    return clause.split(".", 1)[0]
