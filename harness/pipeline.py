"""Run P-lang programs in a build of the real code (in parallel worker processes) and validate the
recorded traces with TLC against the monitor specification TraceObs.tla."""
import json
import os
import subprocess
import time
from concurrent.futures import ThreadPoolExecutor

from common import NCPU, PY, SPECS, VERIF, MachineryError, limit_resources, pyenv, run_tlc

REALIZE = os.path.join(VERIF, "harness", "realize.py")


def _run_chunk(build_dir, jobs, timeout, extra_env=None):
    req = json.dumps({"jobs": jobs, "timeout": timeout})
    limit = 120 + len(jobs) * 0.5
    try:
        r = subprocess.run([PY, "-W", "ignore", REALIZE], input=req, capture_output=True, text=True,
                           env=pyenv(build_dir, extra_env), timeout=limit, preexec_fn=limit_resources())
    except subprocess.TimeoutExpired:
        # a hang the in-process alarm could not interrupt (C-level loop): re-run job by job to find it
        if len(jobs) == 1:
            return [{"id": jobs[0].get("id"), "events": [{"e": "Hang"}], "hang": True, "crash": None}]
        out = []
        for j in jobs:
            out += _run_chunk(build_dir, [j], timeout, extra_env)
        return out
    if r.returncode != 0:
        if len(jobs) == 1:
            return [{"id": jobs[0].get("id"), "events": [{"e": "Hang"}], "hang": False,
                     "crash": "worker died rc=%d: %s" % (r.returncode, r.stderr[-500:])}]
        out = []
        for j in jobs:
            out += _run_chunk(build_dir, [j], timeout, extra_env)
        return out
    return json.loads(r.stdout)


def run_jobs(build_dir, jobs, nproc=None, timeout=10, chunk=None, extra_env=None):
    """jobs: [{"id":..., "prog":..., "schedule":..., "tb":...}] -> results in the same order"""
    nproc = nproc or NCPU
    if not jobs:
        return []
    chunk = chunk or max(1, min(500, (len(jobs) + nproc - 1) // nproc))
    chunks = [jobs[i:i + chunk] for i in range(0, len(jobs), chunk)]
    with ThreadPoolExecutor(max_workers=nproc) as ex:
        res = list(ex.map(lambda c: _run_chunk(build_dir, c, timeout, extra_env), chunks))
    out = []
    for r in res:
        out += r
    return out


def validate(traces, scratch, nproc=None, chunk=400, timeout=1800):
    """traces: [{"id": any JSON scalar, "prog":..., "events": [...]}]; returns ({id: [clause...]}, stats)
    where each clause is "<event index>:<clause id>".  Runs TraceObs.tla under TLC, several JVMs in parallel."""
    nproc = nproc or max(1, NCPU // 2)
    if not traces:
        return {}, {"states": 0, "tlc_runs": 0, "wall": 0.0}
    chunks = [traces[i:i + chunk] for i in range(0, len(traces), chunk)]
    d = scratch.mkdir("traces")
    t0 = time.time()

    def one(args):
        n, ch = args
        path = os.path.join(d, "tr-%d-%d.json" % (os.getpid(), n))
        # ids are replaced by positions: TLC prints them back
        with open(path, "w") as f:
            json.dump([{"id": i, "prog": t["prog"], "events": t["events"]} for i, t in enumerate(ch)], f,
                      separators=(",", ":"))
        res = run_tlc("TraceObs", "TraceObs.cfg", scratch, env={"TRACES": path}, workers=2, timeout=timeout, heap="3g")
        os.unlink(path)
        if res.timed_out:
            raise MachineryError("TraceObs timed out")
        if not res.ok:
            # the monitor is meant to be total; if a (grossly malformed) trace still breaks its evaluation, isolate that
            # trace instead of giving up on the whole run: it gets the pseudo clause H.monitor_error
            if len(ch) == 1:
                if ("evaluating" in res.out or "Attempted to" in res.out) and " in Obs" in res.out and "JsonException" not in res.out:
                    return [(ch[0]["id"], ["0:H.monitor_error"])], res.distinct
                raise MachineryError("TraceObs run failed rc=%s:\n%s" % (res.rc, res.out[-3000:]))
            mid = len(ch) // 2
            a, sa = one((n * 2 + 1000000, ch[:mid]))
            b, sb = one((n * 2 + 1000001, ch[mid:]))
            return a + b, sa + sb
        verdicts = {}
        for v in res.printed():
            if isinstance(v, dict) and "verdict" in v:
                verdicts[v["verdict"]] = v["bad"]
        if len(verdicts) != len(ch):
            raise MachineryError("TraceObs printed %d verdicts for %d traces:\n%s" % (len(verdicts), len(ch), res.out[-2000:]))
        return [(ch[i]["id"], verdicts[i]) for i in range(len(ch))], res.distinct

    with ThreadPoolExecutor(max_workers=nproc) as ex:
        results = list(ex.map(one, list(enumerate(chunks))))
    out = {}
    states = 0
    for r, st in results:
        states += st
        for i, bad in r:
            out[i] = bad
    return out, {"states": states, "tlc_runs": len(chunks), "wall": time.time() - t0}


def clause_of(entry):
    """'12:C05.prio' -> 'C05.prio'"""
    return entry.split(":", 1)[1]


def prop_of(clause):
    return clause.split(".", 1)[0]


# --------------------------------------------------------------------------------------------------
# Sched.tla: exhaustive model checking of a family, behaviour export, drift detection


def write_family(path, progs):
    with open(path, "w") as f:
        json.dump([{"prog": p} for p in progs], f, separators=(",", ":"))


def model_check(progs, scratch, cfg="Sched.cfg", workers=None, timeout=1800, coverage=False, chunk=None, clauses=""):
    """TLC on Sched.tla over a family (program x all tie-break schedules).  Returns a dict with
    states, transitions(generated), ok, violated invariants, and the list of exported behaviours
    [{"beh": pid (1-based index into progs), "sched": [kind per flush round]}]."""
    t0 = time.time()
    d = scratch.mkdir("family")
    chunk = chunk or len(progs)
    res_all = {"states": 0, "generated": 0, "ok": True, "violated": [], "behaviours": [], "out": "", "depth": 0, "coverage": {}}
    from common import Findings
    known = sorted({c for (p_, c, t_, x_) in Findings().entries if c and c.startswith(clauses or "")})
    kpath = ""
    if known:
        kpath = os.path.join(d, "known-%d.json" % os.getpid())
        with open(kpath, "w") as f:
            json.dump(known, f)
    for off in range(0, len(progs), chunk):
        part = progs[off:off + chunk]
        path = os.path.join(d, "fam-%d-%d.json" % (os.getpid(), off))
        write_family(path, part)
        res = run_tlc("Sched", cfg, scratch, env={"PROGS": path, "CLAUSES": clauses, "KNOWNFILE": kpath}, workers=workers, timeout=timeout, coverage=coverage)
        os.unlink(path)
        if res.timed_out:
            raise MachineryError("Sched model checking timed out after %ss" % timeout)
        res_all["states"] += res.distinct
        res_all["generated"] += res.generated
        res_all["depth"] = max(res_all["depth"], res.depth)
        if coverage:
            for k, v in res.action_coverage().items():
                a = res_all["coverage"].get(k, (0, 0))
                res_all["coverage"][k] = (a[0] + v[0], a[1] + v[1])
        if not res.ok:
            res_all["ok"] = False
            res_all["violated"] += res.invariant_violated
            res_all["out"] = res.out[-6000:]
            if not res.invariant_violated:
                raise MachineryError("Sched run failed rc=%s:\n%s" % (res.rc, res.out[-4000:]))
        for v in res.printed():
            if isinstance(v, dict) and "beh" in v:
                res_all["behaviours"].append({"beh": v["beh"] + off, "sched": v["sched"]})
    res_all["wall"] = time.time() - t0
    return res_all


def strip_prio(events):
    return [e for e in events if e.get("e") != "Prio"]


def validate_sched(traces, scratch, nproc=None, chunk=300, timeout=1800):
    """Drift detection: can Sched.tla reproduce each recorded trace?  returns ({id: None | drift-info}, stats)"""
    nproc = nproc or max(1, NCPU // 2)
    if not traces:
        return {}, {"states": 0, "tlc_runs": 0, "wall": 0.0}
    chunks = [traces[i:i + chunk] for i in range(0, len(traces), chunk)]
    d = scratch.mkdir("straces")
    t0 = time.time()

    def one(args):
        n, ch = args
        path = os.path.join(d, "st-%d-%d.json" % (os.getpid(), n))
        with open(path, "w") as f:
            json.dump([{"id": i, "prog": t["prog"], "events": strip_prio(t["events"])} for i, t in enumerate(ch)], f,
                      separators=(",", ":"))
        res = run_tlc("TraceSched", "TraceSched.cfg", scratch, env={"PROGS": path}, workers=2, timeout=timeout, heap="3g")
        os.unlink(path)
        if res.timed_out or not res.ok:
            raise MachineryError("TraceSched run failed rc=%s:\n%s" % (res.rc, res.out[-3000:]))
        done = {}
        drift = {}
        for v in res.printed():
            if isinstance(v, dict) and "tdone" in v:
                if v["l"] == v["n"] + 1:
                    done[v["tdone"]] = True
                else:
                    drift.setdefault(v["tdone"], []).append({"at": v["l"], "exp": {"e": "END"}, "got": "more events"})
            elif isinstance(v, dict) and "tdrift" in v:
                drift.setdefault(v["tdrift"], []).append(v)
        out = []
        for i in range(len(ch)):
            if done.get(i):
                out.append((ch[i]["id"], None))
            else:
                ds = drift.get(i) or [{"at": 0, "exp": None, "got": "no verdict"}]
                out.append((ch[i]["id"], max(ds, key=lambda x: x["at"])))
        return out, res.distinct

    with ThreadPoolExecutor(max_workers=nproc) as ex:
        results = list(ex.map(one, list(enumerate(chunks))))
    out = {}
    states = 0
    for r, st in results:
        states += st
        for i, dr in r:
            out[i] = dr
    return out, {"states": states, "tlc_runs": len(chunks), "wall": time.time() - t0}
