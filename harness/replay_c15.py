"""Runs batch-free P-lang programs through BOTH engines of the build under test - asyncio.run(... fn.asyncio() ...)
and the plain asynq call fn() - and compares each outcome with the one AsyncioBridge.tla prescribes.

case = {"id": int, "prog": P-lang program, "seed": int, "pre": asynq-mode history before the asyncio run, "exp": prescribed outcome}
Every task of the program is realised by one of several flavours chosen from the seed: a plain @asynq() function, an
@asynq() method, an @async_proxy() function returning the task of an @asynq() function, an @async_proxy() function
returning a ConstFuture (tasks that only return), an @asynq(asyncio_fn=...) function with an explicit coroutine that
yields to the loop a few times before finishing (tasks without yields; this varies the completion order), a
@deduplicate() function or method, an @aretry() or @alru_cache() wrapped function.  "pre" (AsyncioBridge.tla, Before):
what asynq-mode code did on this thread with the deduplicated functions before the asyncio run (see Run.before).
The generated bodies log (t, k) when segment k begins and (t, 0) when the body is left; in asyncio mode every segment
also checks is_asyncio_mode() and that a plain synchronous call of an @asynq() function raises RuntimeError.
If C15_TRACE_DIR is set, the step order of every asyncio run is written there for validation against the spec."""
import asyncio
import json
import os
import random
import sys

devnull = open(os.devnull, "w")
real_out = os.fdopen(os.dup(1), "w")
os.dup2(devnull.fileno(), 1)
sys.stdout = devnull
os.dup2(devnull.fileno(), 2)

import asynq
from asynq.asynq_to_async import is_asyncio_mode
from asynq.futures import ConstFuture
from asynq.tools import alru_cache, aretry, deduplicate


def V(g, n=0, xs=()):
    return {"g": g, "n": n, "xs": list(xs)}


class R(object):
    __slots__ = ("t", "recvs")

    def __init__(self, t, recvs):
        self.t = t
        self.recvs = list(recvs)


class RExc(Exception):
    """the same return value as R, but the object happens to be an exception instance: a value that is RETURNED (or
    produced by a sub-computation and handed back at a yield) is a value whatever its type - it must never be raised"""

    def __init__(self, t, recvs):
        Exception.__init__(self, "a value, not a failure")
        self.t = t
        self.recvs = list(recvs)


class Caught(object):
    __slots__ = ("vid",)

    def __init__(self, vid):
        self.vid = vid


class VErr(Exception):
    __bool__ = lambda self: getattr(self, "vid", 0) % 2 == 0       # unusual but legal: about half of the exception objects are falsy

    def __init__(self, vid):
        Exception.__init__(self, "verr-%d" % vid)
        self.vid = vid


def vid_of(e):
    return e.vid if isinstance(e, VErr) else 99999


def dict_keys(n):
    """insertion order differs from sorted order on purpose"""
    return ["k%d" % (n - i) for i in range(n)]


def enc(x):
    if x is None:
        return V("none")
    if isinstance(x, bool):
        return V("opaque", 1)
    if isinstance(x, int):
        return V("c", x)
    if isinstance(x, (R, RExc)):
        return V("r", x.t, [enc(y) for y in x.recvs])
    if isinstance(x, Caught):
        return V("caught", x.vid)
    if isinstance(x, tuple):
        return V("tup", 0, [enc(y) for y in x])
    if isinstance(x, list):
        return V("lst", 0, [enc(y) for y in x])
    if isinstance(x, dict):
        ks = dict_keys(len(x))          # structure order; the order of the result's keys is not judged
        if set(x.keys()) != set(ks):
            return V("opaque", 2)
        return V("dct", 0, [enc(x[k]) for k in ks])
    if isinstance(x, BaseException):
        return V("x", vid_of(x))
    return V("opaque", 0)


# ---- the realisations (module level: one decorator object each, parametrised by (run, t)) ---------------------------

@asynq.asynq()
def probe_fn():
    return 1


@asynq.asynq()
def probe_gen():
    x = yield ConstFuture(1)
    return x


@asynq.asynq()
def task_fn(run, t):
    return (yield from run.interp(t))


def make_closure(run, t):
    @asynq.asynq()
    def closure_fn():
        return (yield from run.interp(t))
    return closure_fn


class Holder(object):
    def __init__(self, run, t):
        self.run = run
        self.t = t

    def __len__(self):          # an empty container-like receiver: falsy, but a perfectly good instance to bind
        return 0

    @asynq.asynq()
    def body(self):
        return (yield from self.run.interp(self.t))

    @deduplicate()
    @asynq.asynq()
    def dbody(self):
        return (yield from self.run.interp(self.t))


@deduplicate()
@asynq.asynq()
def dedup_fn(run, t):
    return (yield from run.interp(t))


class NeverRaised(Exception):
    pass


@aretry(NeverRaised, max_tries=2, sleep=0)
@asynq.asynq()
def retry_fn(run, t):
    return (yield from run.interp(t))


@alru_cache(maxsize=64, key_fn=lambda args, kwargs: (args[0].uid, args[0].epoch, args[1]))
@asynq.asynq()
def lru_fn(run, t):
    return (yield from run.interp(t))


@asynq.async_proxy()
def proxy_fn(run, t):
    return task_fn.asynq(run, t)


@asynq.async_proxy()
def proxy_const(run, t):
    run.ev(t, 1)
    run.ev(t, 0)
    return ConstFuture(R(t, []))


async def aio_leaf(run, t):
    for _ in range(run.delay[t]):
        await asyncio.sleep(0)
    run.ev(t, 1)
    run.ev(t, 0)
    run.used_aio += 1
    return run.leaf_result(t)


@asynq.asynq(asyncio_fn=aio_leaf)
def aio_fn(run, t):
    run.ev(t, 1)
    run.ev(t, 0)
    return run.leaf_result(t)


@asynq.asynq()
def plain_fn(run, t):       # an @asynq() function WITHOUT a yield (no asyncio_fn either): still lazy - it runs when awaited
    run.ev(t, 1)
    run.ev(t, 0)
    return run.leaf_result(t)


class Run(object):
    serial = [0]

    def __init__(self, prog, seed, engine):
        Run.serial[0] += 1
        self.uid = Run.serial[0]          # never reused (id() of a dead Run may be)
        self.prog = prog
        self.engine = engine
        self.recording = True
        self.epoch = 0
        self.leftover = []
        self.trace = []
        self.notes = []
        self.used_aio = 0
        n = len(prog["tasks"])
        root = prog["calls"][0]["root"]
        rng = random.Random(seed * 7919 + 13)
        self.flavour = {}
        self.delay = {}
        self.holders = {}
        self.closures = {}       # functions made by ONE factory: the same code object, different closure cells
        for t in range(1, n + 1):
            segs = prog["tasks"][t - 1]["segs"]
            opts = ["fn", "method", "proxy", "dedup", "dedupm", "retry", "lru", "closure", "closure"]
            if len(segs) == 1 and t != root:
                opts += ["aio", "aio", "plain", "plain"]
                if segs[0]["term"]["k"] == "return":
                    opts.append("const")
            self.flavour[t] = rng.choice(opts) if seed else "fn"
            self.delay[t] = rng.randint(0, 3)
            if self.flavour[t] in ("method", "dedupm"):
                self.holders[t] = Holder(self, t)
            if self.flavour[t] == "closure":
                self.closures[t] = make_closure(self, t)

    def ev(self, t, k):
        if self.recording:
            self.trace.append([t, k])

    def before(self, pre):
        """asynq-mode history on this thread before the asyncio run, for every task realised through @deduplicate():
        created = a task for the same function and arguments is created and never run (it stays registered);
        computed = one is run to completion; other = one for different arguments is created and never run"""
        if pre == "none":
            return
        self.recording = False
        try:
            for t, f in sorted(self.flavour.items()):
                if f not in ("dedup", "dedupm"):
                    continue
                if pre == "created":
                    self.leftover.append(dedup_fn.asynq(self, t) if f == "dedup" else self.holders[t].dbody.asynq())
                elif pre == "other":
                    if f == "dedup":
                        self.leftover.append(dedup_fn.asynq(self, t + 100000))
                    else:
                        h = Holder(self, t)
                        self.leftover.append(h)
                        self.leftover.append(h.dbody.asynq())
                elif pre == "computed":
                    try:
                        (dedup_fn.asynq(self, t) if f == "dedup" else self.holders[t].dbody.asynq()).value()
                    except Exception:
                        pass
        finally:
            self.recording = True
            self.epoch += 1
            del self.trace[:]
            del self.notes[:]

    def cleanup(self):
        for t, f in self.flavour.items():
            if f == "dedup":
                dedup_fn.dirty(self, t)
                dedup_fn.dirty(self, t + 100000)
            elif f == "dedupm":
                self.holders[t].dbody.dirty()
        for x in self.leftover:
            if isinstance(x, Holder):
                x.dbody.dirty()
        del self.leftover[:]

    def leaf_result(self, t):
        term = self.prog["tasks"][t - 1]["segs"][0]["term"]
        if term["k"] == "raise":
            raise VErr(10000 + t * 100 + 1)
        return R(t, [])

    # the three ways to reach task t
    def target(self, t):
        f = self.flavour[t]
        if f == "fn":
            return task_fn, (self, t)
        if f == "closure":
            return self.closures[t], ()
        if f == "method":
            return self.holders[t].body, ()
        if f == "proxy":
            return proxy_fn, (self, t)
        if f == "const":
            return proxy_const, (self, t)
        if f == "dedup":
            return dedup_fn, (self, t)
        if f == "dedupm":
            return self.holders[t].dbody, ()
        if f == "retry":
            return retry_fn, (self, t)
        if f == "lru":
            return lru_fn, (self, t)
        if f == "plain":
            return plain_fn, (self, t)
        return aio_fn, (self, t)

    def call_async(self, t):        # what a body writes: child.asynq(...)
        fn, args = self.target(t)
        return fn.asynq(*args)

    def build(self, s):
        g = s["g"]
        if g == "Tup":
            return tuple(self.build(x) for x in s["xs"])
        if g == "Lst":
            return [self.build(x) for x in s["xs"]]
        if g == "Dct":
            ks = dict_keys(len(s["xs"]))
            return dict((ks[i], self.build(x)) for i, x in enumerate(s["xs"]))
        if g == "N":
            return None
        if g == "C":
            return ConstFuture(s["n"])
        if g == "T":
            return self.call_async(s["n"])
        raise ValueError("not in the C15 fragment: %r" % g)

    def probe(self, t, k):
        if not self.recording:
            return
        m = is_asyncio_mode()
        if self.engine == "asyncio":
            if not m:
                self.notes.append(["mode_off_in_body", t, k])
            for fn in (probe_fn, probe_gen):
                try:
                    fn()
                    self.notes.append(["sync_call_allowed", t, k])
                except RuntimeError:
                    pass
                except BaseException as e:
                    self.notes.append(["sync_call_raised_%s" % type(e).__name__, t, k])
        elif m:
            self.notes.append(["mode_on_in_asynq_body", t, k])

    def interp(self, t):
        segs = self.prog["tasks"][t - 1]["segs"]
        recvs = []
        try:
            k = 0
            while True:
                k += 1
                term = segs[k - 1]["term"]
                self.ev(t, k)
                self.probe(t, k)
                tk = term["k"]
                if tk == "yield":
                    obj = self.build(term["s"])
                    try:
                        recv = yield obj
                        recvs.append(recv)
                    except Exception as e:
                        if not term.get("catch"):
                            raise
                        recvs.append(Caught(vid_of(e)))
                elif tk == "return":
                    # every third return value is an exception OBJECT (returned, not raised)
                    return (RExc if (t + len(recvs)) % 3 == 0 else R)(t, recvs)
                elif tk == "raise":
                    raise VErr(10000 + t * 100 + k)
                else:
                    raise ValueError("not in the C15 fragment: %r" % tk)
        finally:
            self.ev(t, 0)


def outcome(fn):
    try:
        return enc(fn()), None
    except Exception as e:
        return V("x", vid_of(e)), (None if isinstance(e, VErr) else "%s: %s" % (type(e).__name__, e))


def run_asyncio(prog, seed, pre="none"):
    asynq.scheduler.reset()
    run = Run(prog, seed, "asyncio")
    root = prog["calls"][0]["root"]
    fn, args = run.target(root)
    res = {}
    run.before(pre)
    try:
        return _run_asyncio(run, fn, args, seed, res)
    finally:
        run.cleanup()


def _run_asyncio(run, fn, args, seed, res):
    before = is_asyncio_mode()
    if seed % 2 == 0:
        async def main():
            b = is_asyncio_mode()
            try:
                out = enc(await fn.asyncio(*args)), None
            except Exception as e:
                out = V("x", vid_of(e)), (None if isinstance(e, VErr) else "%s: %s" % (type(e).__name__, e))
            a = is_asyncio_mode()
            sync_ok = None
            if not a:
                try:
                    sync_ok = probe_fn() == 1        # the flag is off again: a plain call works
                except Exception as e:
                    sync_ok = "%s" % type(e).__name__
            return out, b, a, sync_ok
        (out, note), b, a, sync_ok = asyncio.run(main())
        res["mode_before"] = bool(b or before)
        res["mode_after"] = bool(a)
        if sync_ok is not None and sync_ok is not True:
            run.notes.append(["sync_call_after_run", sync_ok])
    else:
        out, note = outcome(lambda: asyncio.run(fn.asyncio(*args)))
        res["mode_before"] = bool(before)
        res["mode_after"] = False
    res["mode_after"] = bool(res["mode_after"] or is_asyncio_mode())
    res["out"] = out
    res["note"] = note
    res["notes"] = run.notes
    res["trace"] = run.trace
    res["flavours"] = sorted(set(run.flavour.values()))
    res["used_aio"] = run.used_aio
    return res


def run_asynq(prog, seed):
    asynq.scheduler.reset()
    run = Run(prog, seed, "asynq")
    root = prog["calls"][0]["root"]
    fn, args = run.target(root)
    out, note = outcome(lambda: fn(*args))
    run.cleanup()
    return {"out": out, "note": note, "notes": run.notes}


def norm(v):
    return {"g": v["g"], "n": v["n"], "xs": [norm(x) for x in v["xs"]]}


def main():
    cases = json.load(sys.stdin)
    out = []
    tdir = os.environ.get("C15_TRACE_DIR")
    tf = open(os.path.join(tdir, "traces-%d.jsonl" % os.getpid()), "a") if tdir else None
    for i, c in enumerate(cases):
        exp = norm(c["exp"])
        try:
            pre = c.get("pre", "none")
            ra = run_asyncio(c["prog"], c["seed"], pre)
            rs = run_asynq(c["prog"], c["seed"]) if pre == "none" else {"out": exp, "note": "not run", "notes": []}
        except BaseException as e:
            out.append({"i": i, "got": "harness exception %s: %s" % (type(e).__name__, e), "diff": ["harness"]})
            continue
        diff = []
        if ra["out"] != exp:
            diff.append("asyncio_outcome")
        if ra["mode_after"] or ra["mode_before"]:
            diff.append("mode_after")
        if any(n[0] == "mode_off_in_body" for n in ra["notes"]):
            diff.append("mode_in_body")
        if any(n[0].startswith("sync_call") for n in ra["notes"]):
            diff.append("sync_call")
        if rs["out"] != exp:
            diff.append("asynq_outcome")
        if rs["notes"]:
            diff.append("mode_in_asynq")
        if tf is not None:
            tf.write(json.dumps({"id": c["id"], "trace": ra["trace"], "flavours": ra["flavours"], "used_aio": ra["used_aio"]}) + "\n")
        if diff:
            out.append({"i": i, "got": {"asyncio": ra, "asynq": rs}, "diff": diff})
    if tf is not None:
        tf.close()
    out.append({"n": len(cases)})
    json.dump(out, real_out)
    real_out.flush()


main()
