"""C15: AsyncioBridge.tla (engine B = gather semantics, all event-loop interleavings, checked by TLC against the
sequential oracle PLang!TaskOut for every program of a family) bound to the code: every program is run through
asyncio.run(... fn.asyncio() ...) and through fn() in the build under test, both outcomes are compared with the
prescribed one, and the step order observed on the real event loop is validated against the spec by a second TLC run."""
import argparse
import glob
import itertools
import json
import os
import random
import sys
import time

sys.path.insert(0, os.path.dirname(os.path.abspath(__file__)))
import common
import plang
import sat
from common import MachineryError, Scratch, Verdict
from plang import S, seg, term

PID = "C15"
PROFILE = dict(plang.BASE, ntasks=(1, 6), nseg=(1, 3), nleaf=(0, 3), depth=2, p_item=0.0, p_lazy=0.0, p_task=0.5,
               p_const=0.2, p_none=0.1, p_raise=0.15, p_catch=0.4, p_result=0.0, flush_modes=("ok",), ncalls=1,
               convs=("call",))
TIERS = {
    "quick": dict(random=1500, ntasks=(1, 6), seeds=(0, 1, 2), rich=False),
    "thorough": dict(random=20000, ntasks=(1, 8), seeds=(0, 1, 2, 3, 4, 5), rich=True),
}


# ---- program families ------------------------------------------------------------------------------------------------
# a task is written as a list of segments ("yield", struct, catch) ... ("return",) | ("raise",); a struct leaf ("T", task)
# embeds the child task; number() turns it into a P-lang program (tasks numbered in order of first mention)

RET = [("return",)]
RAI = [("raise",)]


def T(task):
    return ("T", task)


C1 = ("C", 1)
C2 = ("C", 2)
NONE = ("N",)
YC = [("yield", C1, False), ("return",)]
YCH = [("yield", T(RET), False), ("return",)]
YCATCH = [("yield", T(RAI), True), ("return",)]
YNOCATCH = [("yield", T(RAI), False), ("return",)]
YLIST = [("yield", ("Lst", [T(RET), T(RAI)]), False), ("return",)]
DEEP = [("yield", T([("yield", T(RET), False), ("return",)]), False), ("return",)]
DEEPRAI = [("yield", T([("yield", T(RAI), False), ("return",)]), False), ("return",)]


def number(root_task):
    tasks = []

    def conv_struct(s):
        if s[0] == "T":
            return S("T", conv_task(s[1]))
        if s[0] == "C":
            return S("C", s[1])
        if s[0] == "N":
            return S("N")
        return S(s[0], 0, [conv_struct(x) for x in s[1]])

    def conv_task(t):
        tasks.append(None)
        me = len(tasks)
        segs = []
        for sg in t:
            if sg[0] == "yield":
                segs.append(seg([], term("yield", conv_struct(sg[1]), sg[2])))
            else:
                segs.append(seg([], term(sg[0])))
        tasks[me - 1] = {"segs": segs}
        return me

    conv_task(root_task)
    return plang.program(tasks)


def structs(rich):
    kinds = [RET, RAI, YC, YCH, YCATCH, YNOCATCH, YLIST, DEEP] + ([DEEPRAI] if rich else [])
    leaves = [T(k) for k in kinds] + [C1, NONE]
    few = [T(RET), T(RAI), T(DEEP), NONE] + ([T(DEEPRAI), C2] if rich else [])
    out = list(leaves)
    for c in ("Tup", "Lst", "Dct"):
        out.append((c, []))
        out += [(c, [a]) for a in few]
        out += [(c, [a, b]) for a in leaves for b in leaves]
    out += [("Lst", [a, b, c]) for a in few for b in few for c in few]
    out += [("Lst", [("Tup", [a, b]), c]) for a in few for b in few for c in few]
    out += [("Dct", [("Lst", [a]), ("Dct", [b, c])]) for a in few for b in few for c in few]
    out += [("Tup", [a, ("Dct", [b, c])]) for a in few for b in few for c in few]
    return out


def small_structs(rich):
    single = [T(RET), T(RAI), T(YNOCATCH), C1] + ([T(DEEP), NONE] if rich else [])
    pair = [T(RET), T(RAI), T(DEEP)]
    return single + [("Lst", [a, b]) for a in pair for b in pair] + ([("Dct", [a, b]) for a in pair for b in pair] if rich else [])


def exhaustive(rich):
    progs = []
    for s in structs(rich):
        for catch in (False, True):
            for fin in ("return", "raise"):
                progs.append(number([("yield", s, catch), (fin,)]))
    sm = small_structs(rich)
    for s1, c1, s2, c2, fin in itertools.product(sm, (False, True), sm, (False, True), ("return", "raise")):
        progs.append(number([("yield", s1, c1), ("yield", s2, c2), (fin,)]))
    progs.append(number(RET))
    progs.append(number(RAI))
    return progs


def sanitize(s):
    """plang.Gen falls back to a batch item when it runs out of task ids: C15 has no batch items"""
    if s["g"] in ("Tup", "Lst", "Dct"):
        for x in s["xs"]:
            sanitize(x)
    elif s["g"] not in ("T", "C", "N"):
        s["g"], s["n"] = "C", 3


def sampled(n, ntasks, seed):
    prof = dict(PROFILE, ntasks=ntasks)
    out = []
    for i in range(n):
        p = plang.Gen(random.Random("c15/%d/%d" % (seed, i)), prof).build()
        for t in p["tasks"]:
            for sg in t["segs"]:
                sanitize(sg["term"]["s"])
        out.append(p)
    return out


def family(tier):
    cfg = TIERS[tier]
    progs = exhaustive(cfg["rich"]) + sampled(cfg["random"], cfg["ntasks"], common.seed())
    seen, out = set(), []
    for p in progs:
        k = json.dumps(p, sort_keys=True)
        # PLang numbers a task's own exception 10000 + 100 t + k; from t = 10 on that runs into the ids of other exception classes
        if k not in seen and len(p["tasks"]) <= 9:
            seen.add(k)
            out.append(p)
    return out


# ---- TLC -------------------------------------------------------------------------------------------------------------

def run_spec(entries, sc, name):
    path = os.path.join(sc.mkdir("c15fam"), name)
    with open(path, "w") as f:
        json.dump(entries, f, separators=(",", ":"))
    hs, res = sat.tlc_histories("AsyncioBridge", "AsyncioBridge.cfg", sc, env={"PROGS": path})
    os.unlink(path)
    return hs, res


def exit_path(prog, exp):
    if exp["g"] != "x":
        return "return"
    root = prog["calls"][0]["root"]
    n = exp["n"]
    return "raise" if 10000 <= n < 20000 and (n - 10000) // 100 == root else "failure_at_yield"


def features(prog):
    f = set()

    def walk(s, depth):
        if s["g"] in ("Tup", "Lst", "Dct"):
            f.add(s["g"])
            if not s["xs"]:
                f.add("empty_" + s["g"])
            if depth:
                f.add("nested")
            for x in s["xs"]:
                walk(x, depth + 1)
        else:
            f.add(s["g"])
    for t in prog["tasks"]:
        for i, sg in enumerate(t["segs"]):
            tm = sg["term"]
            if tm["k"] == "yield":
                walk(tm["s"], 0)
                if tm["catch"]:
                    f.add("catch")
                    if i + 2 < len(t["segs"]):
                        f.add("yield_after_catch")
            else:
                f.add(tm["k"])
    return f


def trigger_of(kind, case, got):
    exp = case["exp"]
    if kind in ("asyncio_outcome", "asynq_outcome"):
        eng = "asyncio" if kind == "asyncio_outcome" else "asynq"
        g = got[eng]["out"] if isinstance(got, dict) else {"g": "?"}
        return "%s->%s" % (exp["g"], g["g"]) + ("" if case.get("pre", "none") == "none" else "@after_" + case["pre"])
    if kind == "mode_after":
        return "after_" + exit_path(case["prog"], exp)
    return "in_body"


def main():
    ap = argparse.ArgumentParser()
    ap.add_argument("pid")
    ap.add_argument("--tier", default=None)
    ap.add_argument("--replay", default=None)
    a = ap.parse_args()
    tier = a.tier or common.tier()
    t0 = time.time()
    verdict = Verdict(PID)
    with Scratch("c15") as sc:
        builds = {"pure": sc.build("pure")}
        if tier == "thorough" and not os.environ.get("VERIF_SKIP_CY"):
            builds["cy"] = sc.build("cy")
        if a.replay:
            case = json.load(open(a.replay))["case"]
            b = case.get("build", "pure")
            bdir = builds[b] if b in builds else builds["pure"]
            tdir = sc.mkdir("traces")
            mism, _ = sat.replay(bdir, "replay_c15.py", [case["case"]], nproc=1, extra_env={"C15_TRACE_DIR": tdir})
            bad = bool(mism)
            print(json.dumps(mism, indent=1))
            if not bad:     # the outcome agrees: is the observed step order a behaviour of the spec?
                tr = [json.loads(x) for f in glob.glob(os.path.join(tdir, "*.jsonl")) for x in open(f)]
                hs, _ = run_spec([{"prog": case["case"]["prog"], "trace": tr[0]["trace"]}], sc, "one.json")
                bad = not any(h.get("traced") == 1 for h in hs)
                print("observed step order:", tr[0]["trace"], "- not a behaviour of AsyncioBridge.tla" if bad else "- accepted")
            if bad:
                print("VIOLATION property=%s replay=%s" % (PID, a.replay))
            return 1 if bad else 0

        progs = family(tier)
        hs, res = run_spec([{"prog": p} for p in progs], sc, "family.json")
        alarm = sat.model_alarm(res)
        exp = {}
        for h in hs:
            if "pid" in h:
                exp.setdefault(h["pid"], []).append(h)
        missing = [i for i in range(1, len(progs) + 1) if i not in exp]
        if alarm or missing:
            raise MachineryError("%s; %d programs without a prescribed outcome (first: %s)\n%s" % (
                alarm or "no invariant refuted", len(missing), json.dumps(progs[missing[0] - 1]) if missing else "-", res.out[-3000:]))
        for i, lst in exp.items():
            if len(lst) != 1 or lst[0]["out"] != lst[0]["ref"] or lst[0]["mode_after"] or not lst[0]["refused"]:
                raise MachineryError("AsyncioBridge.tla does not prescribe one outcome for program %d: %s" % (i, json.dumps(lst)[:600]))
        seeds = TIERS[tier]["seeds"]
        # seed 0 = plain functions only (no registry): no pre-history; seed 1: every pre-history the spec lists;
        # seed 2: all of them in the thorough tier; otherwise none/created
        cases = []
        for i, p in enumerate(progs):
            pres = sorted(exp[i + 1][0]["pres"], key=["none", "created", "computed", "other"].index)
            for s in seeds:
                for pre in (["none"] if s == 0 else pres if (s == 1 or (s == 2 and tier == "thorough")) else pres[:2]):
                    cases.append({"id": len(cases), "pi": i, "prog": p, "seed": s, "pre": pre, "exp": exp[i + 1][0]["ref"]})
        total = 0
        nmis = 0
        states, trans = res.distinct, res.generated
        traces_ok = 0
        distinct_orders = 0
        dedup_runs = {}
        flav = set()
        used_aio = 0
        for bname, bdir in builds.items():
            tdir = sc.mkdir("traces-" + bname)
            mism, n = sat.replay(bdir, "replay_c15.py", cases, extra_env={"C15_TRACE_DIR": tdir})
            total += n
            nmis += len(mism)
            failed = set()
            for m in mism:
                c = cases[m["i"]]
                failed.add(c["id"])
                kind = m["diff"][0] if m["diff"] else "?"
                verdict.report("C15." + kind, trigger_of(kind, c, m["got"]),
                               {"case": c, "got": m["got"], "diff": m["diff"], "build": bname})
            # the real event loop's step order must be a behaviour of engine B
            traces = {}
            for f in glob.glob(os.path.join(tdir, "*.jsonl")):
                for line in open(f):
                    r = json.loads(line)
                    traces[r["id"]] = r["trace"]
                    flav.update(r["flavours"])
                    if "dedup" in r["flavours"] or "dedupm" in r["flavours"]:
                        dedup_runs[cases[r["id"]]["pre"]] = dedup_runs.get(cases[r["id"]]["pre"], 0) + 1
                    used_aio += r["used_aio"]
            if len(traces) != len(cases):
                raise MachineryError("%d traces for %d cases" % (len(traces), len(cases)))
            groups = {}         # runs of one program that showed the same step order are validated once
            for i in sorted(traces):
                groups.setdefault((cases[i]["pi"], json.dumps(traces[i])), []).append(i)
            reps = sorted(g[0] for g in groups.values())
            hs2, res2 = run_spec([{"prog": cases[i]["prog"], "trace": traces[i], "pre": cases[i]["pre"]} for i in reps], sc, "traces-%s.json" % bname)
            states += res2.distinct
            trans += res2.generated
            ok_reps = {reps[h["pid"] - 1] for h in hs2 if h.get("traced") == 1}
            accepted = {i for g in groups.values() if g[0] in ok_reps for i in g}
            traces_ok += len(accepted)
            distinct_orders += len(reps)
            ids = sorted(traces)
            alarm2 = sat.model_alarm(res2)
            for i in ids:
                if i not in accepted and i not in failed:
                    verdict.report("C15.await_all", exit_path(cases[i]["prog"], cases[i]["exp"]),
                                   {"case": cases[i], "got": {"trace": traces[i]}, "diff": ["await_all"], "build": bname})
            if alarm2 and not verdict.violations:
                raise MachineryError(alarm2 + " while validating real traces although every outcome agrees\n" + res2.out[-3000:])
        feats = {}
        exits = {}
        for i, p in enumerate(progs):
            for x in features(p):
                feats[x] = feats.get(x, 0) + 1
            e = exit_path(p, exp[i + 1][0]["ref"])
            exits[e] = exits.get(e, 0) + 1
        sigs = {}
        for cl, tr, _ in verdict.violations:
            sigs["%s/%s" % (cl, tr)] = sigs.get("%s/%s" % (cl, tr), 0) + 1
        nontriv = sum(1 for p in progs if len(p["tasks"]) >= 3)
        cov = {
            "states": states, "transitions": trans, "traces_validated_against_impl": traces_ok,
            "samples": [{"prog": cases[i]["prog"], "seed": cases[i]["seed"], "prescribed": cases[i]["exp"]}
                        for i in (0, len(cases) // 3, len(cases) - 1)],
            "programs": len(progs), "seeds": list(seeds), "runs_per_engine": total, "builds": list(builds),
            "states_free_exploration": res.distinct, "features": feats, "root_exit_paths": exits,
            "realisations": sorted(flav), "runs_with_deduplicated_task_by_prehistory": dedup_runs, "distinct_step_orders_validated": distinct_orders, "explicit_asyncio_fn_runs": used_aio,
            "model_invariants": ["InFragment", "SameOutcome", "AwaitedToCompletion", "ModeConfined", "SyncRefused"],
            "model_ok": res.ok, "mismatching_cases": nmis, "violation_signatures": sigs,
            "evaluations": total + sum(1 for c in cases if c["pre"] == "none") * len(builds), "distinct_nontrivial": nontriv,
            "rule": "every program with a root of one yield over %d structures (or two yields over %d) x catch x return/raise, plus %d "
                    "sampled programs of up to %d tasks; each run with %d realisation seeds (seed 1, in the thorough tier also seed 2, x 4 asynq-mode pre-histories; later seeds x 2) through asyncio, and through asynq; "
                    "non-trivial = at least 3 tasks" % (len(structs(TIERS[tier]["rich"])), len(small_structs(TIERS[tier]["rich"])),
                                                         TIERS[tier]["random"], TIERS[tier]["ntasks"][1], len(seeds)),
            "exhaustive": True,
        }
        rc = verdict.finish()
        common.write_evidence(PID, "model_checking", cov, time.time() - t0, violations=len(verdict.violations),
                              assumptions=["TLC explores every interleaving of engine B for every program of the family; the real event loop "
                                           "realises one interleaving per run (varied by explicit asyncio_fn coroutines that sleep), "
                                           "validated as a behaviour of the spec",
                                           "batch-free, tree-shaped programs only; asynq.result() and ErrorFuture leaves are outside C15 and not judged",
                                           "programs are bounded (sampled part: seed %d)" % common.seed(),
                                           "TLC and the replay harness are trusted"], tier_=tier)
        return rc


if __name__ == "__main__":
    common.main_wrapper(main)
