"""Replays Future.tla histories into real asynq futures (runs inside the build under test)."""
import json
import os
import sys

devnull = open(os.devnull, "w")
real_out = os.fdopen(os.dup(1), "w")
os.dup2(devnull.fileno(), 1)
sys.stdout = devnull
os.dup2(devnull.fileno(), 2)

import asynq
from asynq.batching import BatchBase, BatchItemBase
from asynq.futures import ConstFuture, ErrorFuture, Future, FutureIsAlreadyComputed


class VErr(Exception):
    def __init__(self, n):
        Exception.__init__(self, "e%d" % n)
        self.n = n

    def __bool__(self):          # unusual but legal: a falsy exception object (odd codes)
        return self.n % 2 == 0


class CleanupFailed(BaseException):
    """raised by the suspended generator when it is closed (not an Exception: nothing in asynq may swallow it silently
    and still skip the completion notification)"""


class B(BatchBase):
    def __init__(self, st):
        BatchBase.__init__(self)
        self.st = st

    def _try_switch_active_batch(self):
        pass

    def _flush(self):
        self.st["runs"] += 1
        for it in self.items:
            if not it.is_computed():
                it.set_value(5)


class It(BatchItemBase):
    pass


from asynq.decorators import lazy as _lazy


def make(kind, st):
    def prov_ok():
        st["runs"] += 1
        return 5

    def prov_raise():
        st["runs"] += 1
        raise VErr(7)

    # every other history builds the lazy future through the public decorator asynq.lazy(fn)(...) instead of Future(provider)
    if kind == "fut_ok":
        return _lazy(prov_ok)() if st.get("alt") else Future(prov_ok)
    if kind == "fut_raise":
        return _lazy(prov_raise)() if st.get("alt") else Future(prov_raise)
    if kind == "const":
        return ConstFuture(5)
    if kind == "error":
        return ErrorFuture(VErr(7))
    if kind == "task_ok":
        @asynq.asynq()
        def f():
            st["runs"] += 1
            return 5
        return f.asynq()
    if kind == "task_raise":
        @asynq.asynq()
        def g():
            st["runs"] += 1
            raise VErr(7)
        return g.asynq()
    if kind == "task_susp":
        from asynq.batching import DebugBatchItem

        @asynq.asynq()
        def h():
            st["runs"] += 1
            try:
                yield DebugBatchItem("c10-susp", 1)
            except GeneratorExit:
                raise CleanupFailed("cleanup of the suspended generator failed")
            return 5
        return h.asynq()
    b = B(st)
    if kind == "batch0":          # a batch that is completed while it holds no request at all
        st["keep"] = (b,)
        return b
    it = It(b)
    st["keep"] = (b, it)
    return b if kind == "batch" else it


def code(e):
    if isinstance(e, VErr):
        return e.n
    if isinstance(e, FutureIsAlreadyComputed):
        return "already"
    return type(e).__name__


def encv(kind, v):
    if v is None and kind in ("batch", "batch0"):
        return 0
    return v if isinstance(v, int) else repr(v)


def run_history(kind, ops):
    asynq.scheduler.reset()
    st = {"runs": 0, "alt": len(ops) % 2 == 1 or sum(len(o.get("op", "")) for o in ops) % 2 == 1}
    obj = make(kind, st)
    notes = []
    got = []

    once = set()

    def subscriber(i, kind_):
        def cb(f):
            if obj.is_computed():
                notes[i] += 1
            else:
                notes[i] -= 100
            if kind_ == 2:
                obj.on_computed.unsubscribe(cb)        # the one-shot idiom
            if kind_ == 1:
                raise RuntimeError("bad subscriber")
        return cb

    def apply_all():
        for o in ops:
            apply_one(o)

    def apply_one(o):
        op, arg = o["op"], o["arg"]
        if op in ("value", "call"):
            try:
                v = obj.value() if op == "value" else obj()
                r = ["val", encv(kind, v)]
            except Exception as e:
                r = ["err", code(e)]
        elif op == "error":
            try:
                e = obj.error()
                if e is None:
                    r = ["errq", "val", encv(kind, obj.value())]
                else:
                    r = ["errq", "err", code(e)]
            except Exception as e:
                r = ["errq", "err", code(e)]
        elif op == "is_computed":
            r = ["bool", 1 if obj.is_computed() else 0]
        elif op in ("set_value", "set_error"):
            try:
                if op == "set_value":
                    obj.set_value(arg)
                else:
                    obj.set_error(VErr(arg))
                r = ["ok"]
            except FutureIsAlreadyComputed:
                r = ["already"]
            except BaseException as e:
                r = ["raised", code(e)]
        elif op == "reset_unsafe":
            obj.reset_unsafe()
            st["runs"] = 0
            for i in range(len(notes)):
                if i not in once:
                    notes[i] = 0
            r = ["ok"]
        elif op == "subscribe":
            notes.append(0)
            if arg == 2:
                once.add(len(notes) - 1)
            obj.on_computed.subscribe(subscriber(len(notes) - 1, arg))
            r = ["ok"]
        elif op == "probe":
            r = ["notes"] + list(notes)
        else:
            r = ["?"]
        got.append(r)

    if kind == "task_susp":
        # the operations are applied by a sibling task while the object under test is suspended on its batch item
        @asynq.asynq()
        def driver():
            apply_all()

        @asynq.asynq()
        def root():
            try:
                yield obj, driver.asynq()
            except Exception:
                pass

        root()
    else:
        apply_all()
    return got, st["runs"]


def main():
    cases = json.load(sys.stdin)
    out = []
    for i, c in enumerate(cases):
        ops = c["h"]
        try:
            got, runs = run_history(c["kind"], ops)
        except BaseException as e:
            out.append({"i": i, "got": "harness exception %s: %s" % (type(e).__name__, e), "diff": [0]})
            continue
        diff = [j for j, (o, g) in enumerate(zip(ops, got)) if o["res"] != ["any"] and list(o["res"]) != g]
        if diff:
            out.append({"i": i, "got": got, "diff": diff})
    out.append({"n": len(cases)})
    json.dump(out, real_out)
    real_out.flush()


main()
