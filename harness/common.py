"""Shared plumbing of every /verif check: scratch builds of /repo's working tree, running TLC,
evidence files, replay files, known findings.  Standard library only (runs under /venv/bin/python
or python3)."""
import hashlib
import json
import os
import re
import shutil
import subprocess
import sys
import tempfile
import time

VERIF = os.path.dirname(os.path.dirname(os.path.abspath(__file__)))
REPO = os.environ.get("VERIF_REPO", "/repo")
SPECS = os.path.join(VERIF, "specs")
EVID = os.environ.get("VERIF_EVID") or os.path.join(VERIF, "evidence")
REPLAYS = os.path.join(EVID, "replays")
PY = "/venv/bin/python"
NCPU = os.cpu_count() or 4
KNOWN = os.path.join(VERIF, "KNOWN_FINDINGS.txt")


class MachineryError(Exception):
    """Something in the checking machinery itself failed (exit code 2, never a verdict)."""


def seed():
    try:
        return int(os.environ.get("VERIF_SEED", "0"))
    except ValueError:
        return 0


def tier(default="quick"):
    t = os.environ.get("VERIF_TIER", default)
    return t if t in ("quick", "thorough") else default


# ------------------------------------------------------------------------------------------------
# scratch directory and builds


class Scratch(object):
    """One mktemp directory per check invocation, outside /repo and /verif, removed on exit."""

    def __init__(self, tag="verif"):
        base = os.environ.get("VERIF_SCRATCH_BASE") or tempfile.gettempdir()
        self.dir = tempfile.mkdtemp(prefix="%s-" % tag, dir=base)
        self._builds = {}

    def __enter__(self):
        return self

    def __exit__(self, *a):
        shutil.rmtree(self.dir, ignore_errors=True)

    def path(self, *p):
        d = os.path.join(self.dir, *p)
        return d

    def mkdir(self, *p):
        d = self.path(*p)
        os.makedirs(d, exist_ok=True)
        return d

    def build(self, kind="pure"):
        """Copy /repo's *working tree sources* and (kind == 'cy') compile them.  Returns the
        directory to put on PYTHONPATH."""
        if kind in self._builds:
            return self._builds[kind]
        dst = self.path("build-" + kind)
        cmd = ["rsync", "-a", "--exclude=*.so", "--exclude=*.c", "--exclude=*.h", "--exclude=__pycache__",
               "--exclude=.git", "--exclude=build", "--exclude=*.egg-info", REPO.rstrip("/") + "/", dst + "/"]
        r = subprocess.run(cmd, capture_output=True, text=True)
        if r.returncode != 0:
            raise MachineryError("rsync failed: " + r.stderr)
        if kind == "cy":
            env = dict(os.environ)
            env.pop("PYTHONPATH", None)
            r = subprocess.run([PY, "setup.py", "build_ext", "--inplace", "-j", str(NCPU)], cwd=dst,
                               capture_output=True, text=True, env=env)
            if r.returncode != 0:
                raise MachineryError("cython build failed:\n" + r.stdout[-3000:] + r.stderr[-3000:])
            shutil.rmtree(os.path.join(dst, "build"), ignore_errors=True)
            sos = [f for f in os.listdir(os.path.join(dst, "asynq")) if f.endswith(".so")]
            if len(sos) < 8:
                raise MachineryError("cython build produced %d modules" % len(sos))
        self._builds[kind] = dst
        return dst


def limit_resources(mem_gb=6):
    """preexec_fn for harness subprocesses: a mutant must not be able to eat the machine"""
    def f():
        import resource
        b = int(mem_gb * (1 << 30))
        try:
            resource.setrlimit(resource.RLIMIT_AS, (b, b))
        except (ValueError, OSError):
            pass
    return f


def pyenv(build_dir, extra=None):
    env = dict(os.environ)
    env["PYTHONPATH"] = build_dir + os.pathsep + os.path.join(VERIF, "harness")
    env["PYTHONHASHSEED"] = env.get("PYTHONHASHSEED", "0")
    env["PYTHONDONTWRITEBYTECODE"] = "1"
    if extra:
        env.update(extra)
    return env


def run_py(build_dir, args, stdin=None, timeout=3600, extra_env=None):
    """Run a harness script in the build under test."""
    r = subprocess.run([PY] + list(args), input=stdin, capture_output=True, text=True,
                       env=pyenv(build_dir, extra_env), timeout=timeout, preexec_fn=limit_resources())
    return r


# ------------------------------------------------------------------------------------------------
# TLC

_TLC_JAR = "/opt/veriftools/tla/tla2tools.jar"


def _tlc_classpath():
    cp = [_TLC_JAR]
    d = os.path.dirname(_TLC_JAR)
    for f in sorted(os.listdir(d)):
        if f.endswith(".jar") and os.path.join(d, f) not in cp:
            cp.append(os.path.join(d, f))
    return os.pathsep.join(cp)


class TlcResult(object):
    def __init__(self, rc, out, wall):
        self.rc = rc
        self.out = out
        self.wall = wall
        self.generated = self.distinct = 0
        self.depth = 0
        m = None
        for m in re.finditer(r"(\d[\d,]*) states generated, (\d[\d,]*) distinct states found", out):
            pass
        if m:
            self.generated = int(m.group(1).replace(",", ""))
            self.distinct = int(m.group(2).replace(",", ""))
        m = re.search(r"The depth of the complete state graph search is (\d+)", out)
        if m:
            self.depth = int(m.group(1))
        self.invariant_violated = re.findall(r"Invariant (\S+) is violated", out)
        self.property_violated = re.findall(r"(?:Action|Temporal) propert(?:y|ies) (\S+)? ?(?:is|were) violated", out)
        self.deadlock = "Deadlock reached" in out
        self.ok = (rc == 0 and "Model checking completed. No error has been found" in out) or \
                  (rc == 0 and "Finished in" in out and not self.invariant_violated and "Error:" not in out)
        self.coverage = {}

    def printed(self):
        """Values printed with PrintT(ToJson(x)) come out as one quoted JSON string per line."""
        res = []
        for line in self.out.splitlines():
            line = line.strip()
            if line.startswith('"') and line.endswith('"') and len(line) >= 2:
                try:
                    s = json.loads(line)
                except ValueError:
                    # TLC escapes as TLA+ strings: \" and \\ only
                    s = line[1:-1].replace('\\"', '"').replace("\\\\", "\\")
                try:
                    res.append(json.loads(s))
                except ValueError:
                    pass
        return res

    def action_coverage(self):
        """With -coverage: {action name: (distinct, taken)}"""
        cov = {}
        for m in re.finditer(r"<(\w+) line \d+, col \d+ to line \d+, col \d+ of module (\w+)>: (\d+):(\d+)", self.out):
            cov[m.group(1)] = (int(m.group(3)), int(m.group(4)))
        return cov


def run_tlc(module, cfg, scratch, env=None, workers=None, timeout=1800, simulate=None, depth=None,
            coverage=False, extra=(), cwd=None, heap="8g", dfs=False, seed_=None):
    """Run TLC on specs/<module>.tla with specs/<cfg>; returns TlcResult.  Never raises for a model
    verdict; raises MachineryError for a crash / timeout."""
    cwd = cwd or SPECS
    meta = scratch.mkdir("tlc-meta-%d" % int(time.time() * 1000000 % 10**9))
    jopts = ["-Xmx" + heap, "-Xss128m", "-XX:+UseParallelGC", "-Djava.io.tmpdir=" + meta]     # TLC's tlc-<n> temp dir goes with the scratch
    if dfs:
        jopts.append("-Dtlc2.tool.queue.IStateQueue=StateDeque")
    cmd = ["java"] + jopts + ["-cp", _tlc_classpath(), "tlc2.TLC", "-metadir", meta, "-noGenerateSpecTE",
                              "-workers", str(workers or NCPU), "-config", cfg]
    if coverage:
        cmd += ["-coverage", "1"]
    if simulate:
        cmd += ["-simulate", simulate]
    if depth:
        cmd += ["-depth", str(depth)]
    if seed_ is not None:
        cmd += ["-seed", str(seed_)]
    cmd += list(extra) + [module]
    e = dict(os.environ)
    e.pop("JAVA_TOOL_OPTIONS", None)
    if env:
        e.update(env)
    t0 = time.time()
    try:
        r = subprocess.run(cmd, cwd=cwd, capture_output=True, text=True, env=e, timeout=timeout)
    except subprocess.TimeoutExpired as ex:
        subprocess.run(["pkill", "-f", meta], capture_output=True)
        out = ex.stdout.decode() if isinstance(ex.stdout, bytes) else (ex.stdout or "")
        res = TlcResult(124, out, time.time() - t0)
        res.timed_out = True
        shutil.rmtree(meta, ignore_errors=True)
        return res
    finally:
        pass
    shutil.rmtree(meta, ignore_errors=True)
    res = TlcResult(r.returncode, r.stdout + r.stderr, time.time() - t0)
    res.timed_out = False
    return res


def tlc_must_pass(res, what):
    if res.timed_out:
        raise MachineryError("TLC timed out: " + what)
    if not res.ok:
        raise MachineryError("TLC did not finish cleanly (%s), rc=%s:\n%s" % (what, res.rc, res.out[-4000:]))


# ------------------------------------------------------------------------------------------------
# evidence, replays, known findings


def write_evidence(pid, level, coverage, wall, violations=0, assumptions=(), tier_=None):
    os.makedirs(EVID, exist_ok=True)
    ev = {
        "property_id": pid,
        "tier": tier_ or tier(),
        "seed": seed(),
        "level": level,
        "coverage": coverage,
        "assumptions": list(assumptions),
        "wall_s": round(wall, 2),
        "violations": violations,
    }
    tmp = os.path.join(EVID, ".%s.json.tmp" % pid)
    with open(tmp, "w") as f:
        json.dump(ev, f, indent=1, sort_keys=True, default=str)
    os.replace(tmp, os.path.join(EVID, "%s.json" % pid))
    return ev


def write_replay(pid, obj):
    os.makedirs(REPLAYS, exist_ok=True)
    s = json.dumps(obj, sort_keys=True, default=str)
    h = hashlib.sha1(s.encode()).hexdigest()[:12]
    p = os.path.join(REPLAYS, "%s-%s.json" % (pid, h))
    with open(p, "w") as f:
        f.write(s)
    return p


class Findings(object):
    """KNOWN_FINDINGS.txt: 'finding: property=<id> clause=<c> trigger=<sig> :: text' lines suppress
    exactly the violations whose (property, clause, trigger) match; 'fixed:' lines suppress nothing."""

    def __init__(self):
        self.entries = []
        if os.path.exists(KNOWN):
            for line in open(KNOWN):
                line = line.strip()
                if not line.startswith("finding:"):
                    continue
                head, _, text = line[len("finding:"):].partition("::")
                kv = dict(x.split("=", 1) for x in head.split() if "=" in x)
                self.entries.append((kv.get("property"), kv.get("clause"), kv.get("trigger"), text.strip()))

    def match(self, pid, clause, trigger):
        for (p, c, t, text) in self.entries:
            if p == pid and c == clause and (t == trigger or t == "*"):
                return text
        return None


class Verdict(object):
    """Collects violations of one property during a check run and produces the exit code."""

    def __init__(self, pid):
        self.pid = pid
        self.findings = Findings()
        self.violations = []     # (clause, trigger, replay obj)
        self.known = {}          # (clause, trigger) -> count
        self.seen = set()

    def report(self, clause, trigger, replay_obj):
        """clause: clause id such as 'C06.alt'; trigger: signature string computed from the case."""
        text = self.findings.match(self.pid, clause, trigger)
        if text is not None:
            k = (clause, trigger, text)
            self.known[k] = self.known.get(k, 0) + 1
            return False
        self.violations.append((clause, trigger, replay_obj))
        return True

    def finish(self, max_print=5):
        for (clause, trigger, text), n in sorted(self.known.items()):
            print("KNOWN-FINDING: property=%s clause=%s trigger=%s (%d cases) %s" % (self.pid, clause, trigger, n, text))
        shown = 0
        for clause, trigger, obj in self.violations:
            key = (clause, trigger)
            if key in self.seen and shown >= max_print:
                continue
            self.seen.add(key)
            if shown < max_print:
                p = write_replay(self.pid, {"property": self.pid, "clause": clause, "trigger": trigger, "case": obj})
                print("VIOLATION property=%s replay=%s clause=%s trigger=%s" % (self.pid, p, clause, trigger))
                shown += 1
        if len(self.violations) > shown:
            print("(%d further violations of %s not printed)" % (len(self.violations) - shown, self.pid))
        return 1 if self.violations else 0


def main_wrapper(fn):
    """Run a check's main(); exit 2 on machinery failure."""
    try:
        rc = fn()
    except MachineryError as e:
        print("MACHINERY-FAILURE: %s" % e, file=sys.stderr)
        sys.exit(2)
    sys.stdout.flush()
    sys.exit(rc or 0)
