"""C07 satellite: specs/ScopedCall.tla (enumerating oracle for asynq.tools.call_with_context around every kind of
async callable + a state machine over the AsyncScopedValue / async_override API) against the real objects.

run(sc, builds, tier, verdict) is called by the C07 check; standalone:  python3 harness/sat_c07x.py --tier quick
(VERIF_REPO points the scratch builds at another source tree, e.g. a mutated copy)."""
import argparse
import json
import os
import sys
import time

sys.path.insert(0, os.path.dirname(os.path.abspath(__file__)))
import common
import sat
from common import MachineryError, Scratch, Verdict

PID = "C07"
REPLAY = "replay_c07x.py"
INVARIANTS = ["LexEqSeq", "RestoredAtEnd", "Isolation", "SiblingSeesOuter", "CalleeSeesOverride", "ParentReads",
              "HistRestores", "HistInnermost", "HistSavedChain"]
DEPTH = {"quick": 5, "thorough": 6}

FN = {"gen": "asynq-generator", "plain": "asynq-plain", "pconst": "async_proxy-const", "ptask": "async_proxy", "acsync": "async_call-sync",
      "acpure": "async_call-pure", "acgen": "async_call-asynq", "meth": "method", "cmeth": "classmethod", "smeth": "staticmethod",
      "own": "asynq-own-override", "wrap": "make_async_decorator"}


def layout(br):
    kinds = [b["b"] for b in br]
    if "sib" not in kinds:
        return "alone" if len(br) == 1 else "two-calls"
    if len(br) == 2:
        return "sibling-first" if kinds[0] == "sib" else "sibling-last"
    return "sibling-and-two-calls"


def cell_trigger(cell, diff):
    """short signature of a failing cell: which read went wrong, the callee kind it belongs to, the layout"""
    if cell["api"] == "fresh":
        return "fresh-attribute/%s" % cell["conv"]
    br = cell["br"]
    first = diff[0]
    what, _, label = first.partition(":")
    bi = int(label[1:label.index(".")]) if label.startswith("b") and "." in label else 0
    calls = [b for b in br if b["b"] != "sib"]
    b = br[bi - 1] if bi else (calls[0] if calls else br[0])
    if b["b"] == "sib":          # the sibling read a wrong value: name the callee next to it
        who = "sibling-of-" + FN.get(calls[0]["fk"], "?") if calls else "sibling"
    else:
        who = FN.get(b["fk"], b["fk"])
    head = {"cwc": "cwc", "mid": "cwc-nested-sync", "sib": "cwc"}[b["b"]]
    if cell["conv"] != "yield":
        head += "-" + cell["conv"]
    return "%s/%s/%s" % (head, who, layout(br))


def cell_clause(cell, diff):
    first = diff[0]
    if cell["api"] == "fresh":
        return "C07.scopedcall.restore" if first.startswith("final") else "C07.scopedcall.read"
    what, _, label = first.partition(":")
    if what == "final":
        return "C07.scopedcall.restore"
    if what == "missing":
        return "C07.scopedcall.missing"
    if label in ("r1", "r2"):
        return "C07.scopedcall.restore"
    if label.startswith("b"):
        bi = int(label[1:label.index(".")])
        if cell["br"][bi - 1]["b"] == "sib":
            return "C07.scopedcall.sibling"
    return "C07.scopedcall.read"


def hist_trigger(h, got, diff):
    ops = [o["op"] for o in h["ops"]]
    bits = ["api", got.get("mode", "?").split("-")[0], got.get("sk", "?")]
    if h["outer"]:
        bits.append("outer")
    if "set" in ops:
        bits.append("set")
    if "exiterr" in ops:
        bits.append("exiterr")
    return "/".join(bits) + ":" + diff[0]


def hist_clause(diff):
    first = diff[0]
    if first.startswith("final"):
        return "C07.scopedcall.api.restore"
    if first == "read:sibling":
        return "C07.scopedcall.api.sibling"
    if first.startswith("missing") or first == "error":
        return "C07.scopedcall.api.missing"
    return "C07.scopedcall.api.read"


def run(sc, builds, tier, verdict, only_case=None):
    """returns the coverage dict; violations go to verdict; MachineryError for machinery / model failures"""
    t0 = time.time()
    if only_case is not None:
        cases, res = [only_case], None
    else:
        hs, res = sat.tlc_histories("ScopedCall", "ScopedCall.cfg", sc, env={"DEPTH": str(DEPTH[tier]), "TIER": tier}, timeout=1500)
        alarm = sat.model_alarm(res)
        if alarm:
            raise MachineryError(alarm + ": the oracle's own algebra fails, ScopedCall.tla is wrong\n" + res.out[-2500:])
        cases = [h for h in hs if h.get("kind") in ("cell", "hist")]
    cells = [c for c in cases if c["kind"] == "cell"]
    hists = [c for c in cases if c["kind"] == "hist"]
    if only_case is None and (len(cells) < 1000 or len(hists) < 1000):
        raise MachineryError("vacuous enumeration: %d cells, %d histories\n%s" % (len(cells), len(hists), res.out[-1500:]))
    t_tlc = time.time() - t0
    # interleave cheap and expensive cases so that the replay chunks are balanced
    order = sorted(range(len(cases)), key=lambda i: (i * 7919) % max(1, len(cases)))
    shuffled = [cases[i] for i in order]
    total = 0
    found = []
    for bname, bdir in builds.items():
        mism, n = sat.replay(bdir, REPLAY, shuffled, chunk=max(50, (len(shuffled) + 4 * common.NCPU - 1) // (4 * common.NCPU)))
        total += n
        for m in mism:
            c = shuffled[m["i"]]
            if "harness" in m["diff"]:
                raise MachineryError("replay_c07x crashed on %s: %s" % (json.dumps(c)[:600], m["got"]))
            if c["kind"] == "cell":
                clause, trig = cell_clause(c["cell"], m["diff"]), cell_trigger(c["cell"], m["diff"])
                stored = dict(c)
            else:
                clause, trig = hist_clause(m["diff"]), hist_trigger(c["out"], m["got"], m["diff"])
                stored = dict(c, only=[m["got"].get("mode"), m["got"].get("sk")])
            found.append((clause, trig, {"sat": "c07x", "case": stored, "got": m["got"], "diff": m["diff"], "build": bname}))
    firsts, rest, seen = [], [], set()
    for f in found:
        (rest if (f[0], f[1]) in seen else firsts).append(f)
        seen.add((f[0], f[1]))
    for clause, trig, obj in firsts + rest:
        verdict.report(clause, trig, obj)
    nontrivial = sum(1 for c in cells if any(r["x"] not in (1, 20) or r["y"] != 2 for r in c["out"]["reads"]))
    samples = []
    if cells:
        samples += [cells[len(cells) // 3], cells[-1]]
    if hists:
        samples.append(hists[len(hists) // 2])
    cov = {
        "states": res.distinct if res else 0, "transitions": res.generated if res else 0,
        "cells": len(cells), "histories": len(hists), "replayed": total, "mismatching": len(found),
        "cells_with_an_overridden_read": nontrivial,
        "history_depth": DEPTH[tier], "builds": list(builds), "model_invariants": INVARIANTS,
        "tlc_s": round(t_tlc, 1), "wall_s": round(time.time() - t0, 1),
        "samples": samples[:3],
        "rule": "cells: calling convention (yield / synchronous / .asynq().value()) x outer override x parent catches x slot kind "
                "(AsyncScopedValue / attribute) x branches awaited together (reader sibling plain or blocking on the shared batch; "
                "call_with_context at one or two nested levels on the same / the other slot around each callee kind, failing or not; a task "
                "with its own override calling call_with_context synchronously), every read prescribed; histories: every sequence of "
                "enter / exit / exit-by-exception / set / yield up to the depth, with and without an outer override, replayed as plain code and "
                "as a task next to a reading sibling (both orders), on scoped values and on attributes",
    }
    return cov


def main():
    ap = argparse.ArgumentParser()
    ap.add_argument("--tier", default=None)
    ap.add_argument("--replay", default=None)
    ap.add_argument("--cy", action="store_true", help="also replay into a Cython build")
    a = ap.parse_args()
    tier = a.tier or common.tier()
    verdict = Verdict(PID)
    with Scratch("c07x") as sc:
        builds = {"pure": sc.build("pure")}
        if a.cy:
            builds["cy"] = sc.build("cy")
        if a.replay:
            stored = json.load(open(a.replay))["case"]
            bname = stored.get("build", "pure")
            if bname not in builds:
                builds[bname] = sc.build(bname)
            cov = run(sc, {bname: builds[bname]}, tier, verdict, only_case=stored["case"])
            for clause, trig, obj in verdict.violations:
                print(json.dumps({"clause": clause, "trigger": trig, "diff": obj["diff"], "got": obj["got"]}, indent=1))
            if verdict.violations:
                print("VIOLATION property=%s replay=%s" % (PID, a.replay))
            return 1 if verdict.violations else 0
        cov = run(sc, builds, tier, verdict)
        print(json.dumps(cov, indent=1)[:6000])
        return verdict.finish(max_print=8)


if __name__ == "__main__":
    common.main_wrapper(main)
