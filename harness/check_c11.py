"""C11: Batch.tla histories (TLC, exhaustive to a depth) replayed into real batches: a BatchBase subclass with an
active-batch pointer and the built-in DebugBatch/DebugBatchItem."""
import argparse
import json
import os
import sys
import time

sys.path.insert(0, os.path.dirname(os.path.abspath(__file__)))
import common
import sat
from common import MachineryError, Scratch, Verdict

PID = "C11"
INVARIANTS = ["OneTransition", "OutcomeStable", "NoItemIntoFinished", "BodyRunsOnce", "NoItemLeftPending",
              "ItemsBeforeBatch", "AnnouncedOnce", "Precedence", "ActiveMovedBeforeBody", "ActiveIsPending"]
CONFIGS = ["own/all", "own/some", "own/evens", "own/lastraise", "own/none", "own/ierr", "own/raise", "own/braise", "own/new", "debug/all", "debug/new"]
FIN_CONFIGS = ["own/f%d-%s" % (s, how) for how in ("cancel_e", "cancel", "seterr", "setval") for s in (0, 1)]
MODES = 3        # replay_c11.py: default options, ENABLE_COMPLEX_ASSERTIONS off, KEEP_DEPENDENCIES on
ENDINGS = 3      # replay_c11.py: a self-finishing flush body then returns, raises, or tries to set its items again


def executions(case, rotate=False):
    # plain body: once per option setting; self-finishing body: every ending under the default options and one
    # ending (rotating over the histories) under each other setting; rotate (thorough tier, depth-5 runs): the
    # default options + one other setting per history, alternating over the histories
    m = 2 if rotate else MODES
    return (ENDINGS + m - 1) if case["body"].startswith("f") else m


def finishing_with_items(o):
    return any(x.startswith("b") for x in o["a"]) and any(x.startswith("i") for x in o["a"])


def main():
    ap = argparse.ArgumentParser()
    ap.add_argument("pid")
    ap.add_argument("--tier", default=None)
    ap.add_argument("--replay", default=None)
    a = ap.parse_args()
    tier = a.tier or common.tier()
    t0 = time.time()
    verdict = Verdict(PID)
    with Scratch("c11") as sc:
        if a.replay:
            case = json.load(open(a.replay))["case"]
            bname = case.get("build", "pure")
            bdir = sc.build(bname if bname in ("pure", "cy") else "pure")
            hist = dict(case["history"])
            if case.get("mode"):
                hist["variant"] = [case["mode"], case.get("ending") or "ret"]
            mism, _ = sat.replay(bdir, "replay_c11.py", [hist], nproc=1)
            print(json.dumps(mism, indent=1))
            if mism:
                print("VIOLATION property=%s replay=%s" % (PID, a.replay))
            return 1 if mism else 0
        builds = {"pure": sc.build("pure")}
        if tier == "thorough" and not os.environ.get("VERIF_SKIP_CY"):
            builds["cy"] = sc.build("cy")
        # quick: one TLC run over all configurations (self-finishing bodies start with 2 requests made);
        # thorough: one run per (kind, flush body) to bound memory, self-finishing bodies one level shallower
        if tier == "quick":
            depth, maxi = 4, 2
            runs = [("*", 4, {"FINPRE": "2"})]
        else:
            depth, maxi = 5, 3
            runs = [(c, 5, {"C11_ROTATE_MODES": "1"}) for c in CONFIGS] + [(c, 4, {}) for c in FIN_CONFIGS]
        states = trans = total = nmis = nhist = nontriv = nexec = nevals = 0
        model_ok = True
        alarms = []
        tlc_wall = 0.0
        per_body, ops, samples, maxitems = {}, {}, [], 0
        for only, d, extra in runs:
            env = {"DEPTH": str(d), "MAXI": str(maxi)}
            env.update(extra)
            if only != "*":
                env["ONLY"] = only
            hs, res = sat.tlc_histories("Batch", "Batch.cfg", sc, env=env)
            tlc_wall += res.wall
            alarm = sat.model_alarm(res)
            if alarm:
                alarms.append((alarm, res.out[-2000:]))
            model_ok = model_ok and res.ok
            states += res.distinct
            trans += res.generated
            cases = [{"kind": h["kind"], "body": h["body"], "pre": h["pre"], "h": h["h"]} for h in hs if "h" in h]
            del hs
            if not cases:
                raise MachineryError("TLC exported no histories (%s):\n%s" % (only, res.out[-2000:]))
            res.out = ""
            nhist += len(cases)
            for bname, bdir in builds.items():
                mism, n = sat.replay(bdir, "replay_c11.py", cases, extra_env=extra)
                if n != len(cases):
                    raise MachineryError("replayed %d of %d histories on %s" % (n, len(cases), bname))
                total += n
                nmis += len(mism)
                for c in cases:
                    e = executions(c, bool(extra.get("C11_ROTATE_MODES")))
                    nexec += e
                    nevals += e * len(c["h"])
                for m in mism:
                    c = cases[m["i"]]
                    j = m["diff"][0] if isinstance(m["diff"], list) and m["diff"] else 0
                    op = c["h"][j]["o"] if j < len(c["h"]) else "?"
                    got = m["got"]
                    if isinstance(got, str) and not got.startswith("harness"):
                        op = "hang"
                    elif isinstance(got, list) and got and got[-1].get("hang"):
                        op = "hang"
                    trig = "%s/%s" % (c["kind"], c["body"])
                    if m.get("mode", "default") != "default":
                        trig += "/" + m["mode"]
                    verdict.report("C11." + op, trig,
                                   {"history": c, "got": got, "first_diff": j, "build": bname,
                                    "mode": m.get("mode"), "ending": m.get("ending")})
            for c in cases:
                k = "%s/%s" % (c["kind"], c["body"])
                per_body[k] = per_body.get(k, 0) + 1
                nt = False
                for j, o in enumerate(c["h"]):
                    ops[o["o"]] = ops.get(o["o"], 0) + 1
                    if o["o"] == "add":
                        maxitems = max(maxitems, o["r"][2])
                    if j + 1 < len(c["h"]) and finishing_with_items(o):
                        nt = True
                nontriv += nt
            samples += cases[:1] + cases[len(cases) // 3: len(cases) // 3 + 1]
            del cases
        if alarms and not verdict.violations:
            raise MachineryError(alarms[0][0] + " on Batch.tla but the real objects follow every prescribed history: the model is wrong\n" + alarms[0][1])
        cov = {
            "states": states, "transitions": trans, "traces_validated_against_impl": total,
            "samples": samples[:6],
            "executions_of_histories": nexec, "option_modes": ["default", "ENABLE_COMPLEX_ASSERTIONS off", "KEEP_DEPENDENCIES on"],
            "self_finishing_body_endings": ["return", "raise", "set items again"],
            "history_depth": depth, "max_items_per_batch": maxi, "largest_item_index_created": maxitems,
            "histories": nhist, "histories_per_kind_body": per_body,
            "operation_instances": ops, "builds": list(builds), "tlc_runs": len(runs), "tlc_wall_s": round(tlc_wall, 1),
            "model_invariants": INVARIANTS, "model_ok": model_ok, "mismatching_histories": nmis,
            "evaluations": nevals, "distinct_nontrivial": nontriv,
            "rule": "every operation history of length %d over add/direct/flush/cancel(with,without error)/item.value/batch.value/batch.error/queries "
                    "on batches 1..2 with <= %d items each, starting with 0 or 2 requests already made, x 7 plain flush-body behaviours + 8 bodies that "
                    "finish their own batch half-way (cancel with/without error, set_error, set_value; before/after setting an item%s) on a BatchBase "
                    "subclass + the built-in DebugBatch; every history executed under 3 option settings%s (a self-finishing body: 3 endings under the default options, one rotating ending under the others); operations that change nothing are explored in one canonical order and in runs of <= 2 "
                    "when consecutive; non-trivial = a batch with at least one item finishes and a further operation follows; "
                    "evaluations = operation results compared" % (depth, maxi, "; these start with 2 requests made" if tier == "quick" else "; depth 4",
                                                                 "" if tier == "quick" else " (depth-5 histories: default + one alternating other setting)"),
            "exhaustive": True,
        }
        rc = verdict.finish()
        common.write_evidence(PID, "model_checking", cov, time.time() - t0, violations=len(verdict.violations),
                              assumptions=["histories are bounded by depth %d, operations address the first 2 batches of one kind, <= %d items per batch" % (depth, maxi),
                                           "the flush body behaves the same way for every batch of a history; it may finish its own batch (cancel/set_error/set_value) but does not re-enter flush()",
                                           "debug options and the way a self-finishing body ends are not dimensions of the specification: every variant is compared with the same prescribed results",
                                           "the scheduler is never run on these objects; a history that burns 3 (then 9) CPU seconds is reported as a hang",
                                           "is_flushed() of a cancelled batch, is_cancelled() of a batch whose flush failed, is_empty() of a finished batch and "
                                           "the result of flush() on a cancelled batch are not prescribed by the property (only: the body must not run)",
                                           "body executions are not observable on the built-in DebugBatch (compared on the harness subclass only)",
                                           "TLC and the replay harness are trusted"], tier_=tier)
        return rc


if __name__ == "__main__":
    common.main_wrapper(main)
