"""C11: Batch.tla histories (TLC, exhaustive to a depth) replayed into real batches: a BatchBase subclass with an
active-batch pointer and the built-in DebugBatch/DebugBatchItem."""
import argparse
import json
import os
import sys
import time

sys.path.insert(0, os.path.dirname(os.path.abspath(__file__)))
import common
import sat
from common import MachineryError, Scratch, Verdict

PID = "C11"
INVARIANTS = ["OneTransition", "OutcomeStable", "NoItemIntoFinished", "BodyRunsOnce", "NoItemLeftPending",
              "ItemsBeforeBatch", "AnnouncedOnce", "Precedence", "ActiveMovedBeforeBody", "ActiveIsPending"]


def main():
    ap = argparse.ArgumentParser()
    ap.add_argument("pid")
    ap.add_argument("--tier", default=None)
    ap.add_argument("--replay", default=None)
    a = ap.parse_args()
    tier = a.tier or common.tier()
    t0 = time.time()
    verdict = Verdict(PID)
    with Scratch("c11") as sc:
        if a.replay:
            case = json.load(open(a.replay))["case"]
            bname = case.get("build", "pure")
            bdir = sc.build(bname if bname in ("pure", "cy") else "pure")
            mism, _ = sat.replay(bdir, "replay_c11.py", [case["history"]], nproc=1)
            print(json.dumps(mism, indent=1))
            if mism:
                print("VIOLATION property=%s replay=%s" % (PID, a.replay))
            return 1 if mism else 0
        builds = {"pure": sc.build("pure")}
        if tier == "thorough" and not os.environ.get("VERIF_SKIP_CY"):
            builds["cy"] = sc.build("cy")
        depth, maxi = (4, 2) if tier == "quick" else (5, 3)
        hs, res = sat.tlc_histories("Batch", "Batch.cfg", sc, env={"DEPTH": str(depth), "MAXI": str(maxi)})
        alarm = sat.model_alarm(res)
        cases = [{"kind": h["kind"], "body": h["body"], "h": h["h"]} for h in hs if "h" in h]
        del hs
        if not cases:
            raise MachineryError("TLC exported no histories:\n" + res.out[-2000:])
        total = 0
        nmis = 0
        for bname, bdir in builds.items():
            mism, n = sat.replay(bdir, "replay_c11.py", cases)
            if n != len(cases):
                raise MachineryError("replayed %d of %d histories on %s" % (n, len(cases), bname))
            total += n
            nmis += len(mism)
            for m in mism:
                c = cases[m["i"]]
                j = m["diff"][0] if isinstance(m["diff"], list) and m["diff"] else 0
                op = c["h"][j]["o"] if j < len(c["h"]) else "?"
                verdict.report("C11." + op, "%s/%s" % (c["kind"], c["body"]),
                               {"history": c, "got": m["got"], "first_diff": j, "build": bname})
        if alarm and not verdict.violations:
            raise MachineryError(alarm + " on Batch.tla but the real objects follow every prescribed history: the model is wrong\n" + res.out[-2000:])
        finishing = lambda o: any(x.startswith("b") for x in o["a"])
        with_items = lambda o: finishing(o) and any(x.startswith("i") for x in o["a"])
        nontriv = sum(1 for c in cases if any(with_items(o) and j + 1 < len(c["h"]) for j, o in enumerate(c["h"])))
        per_body = {}
        ops = {}
        for c in cases:
            k = "%s/%s" % (c["kind"], c["body"])
            per_body[k] = per_body.get(k, 0) + 1
            for o in c["h"]:
                ops[o["o"]] = ops.get(o["o"], 0) + 1
        cov = {
            "states": res.distinct, "transitions": res.generated, "traces_validated_against_impl": total,
            "samples": cases[:1] + cases[len(cases) // 3: len(cases) // 3 + 1] + cases[-1:],
            "history_depth": depth, "max_items_per_batch": maxi, "histories": len(cases), "histories_per_kind_body": per_body,
            "operation_instances": ops, "builds": list(builds),
            "model_invariants": INVARIANTS, "model_ok": res.ok, "mismatching_histories": nmis,
            "evaluations": total * depth, "distinct_nontrivial": nontriv,
            "rule": "every operation history of length %d over add/direct/flush/cancel(with,without error)/item.value/batch.value/batch.error/queries "
                    "on batches 1..2 with <= %d items each, x 7 flush-body behaviours on a BatchBase subclass + the built-in DebugBatch; "
                    "operations that change nothing are explored in one canonical order when consecutive; "
                    "non-trivial = a batch with at least one item finishes and a further operation follows; evaluations = operation results compared" % (depth, maxi),
            "exhaustive": True,
        }
        rc = verdict.finish()
        common.write_evidence(PID, "model_checking", cov, time.time() - t0, violations=len(verdict.violations),
                              assumptions=["histories are bounded by depth %d, operations address the first 2 batches of one kind, <= %d items per batch" % (depth, maxi),
                                           "the flush body behaves the same way for every batch of a history and does not re-enter flush()/cancel() of its own batch",
                                           "is_flushed() of a cancelled batch, is_cancelled() of a batch whose flush failed, is_empty() of a finished batch and "
                                           "flush() of a cancelled batch are not prescribed by the property (only: the body must not run)",
                                           "body executions are not observable on the built-in DebugBatch (compared on the harness subclass only)",
                                           "TLC and the replay harness are trusted"], tier_=tier)
        return rc


if __name__ == "__main__":
    common.main_wrapper(main)
