"""Replays Batch.tla histories into real asynq batches (runs inside the build under test).

kind "own":   B / It are plain subclasses of BatchBase / BatchItemBase; the environment keeps the active-batch
              pointer that B._try_switch_active_batch moves (the way DebugBatch does with its registry).
kind "debug": the built-in DebugBatch / DebugBatchItem and their thread-local registry _debug_batch_state.
Only executes and compares: every expected result comes from the history record TLC exported.

Dimensions the specification does not have, so every variant must give the same prescribed results:
  * debug options: default, ENABLE_COMPLEX_ASSERTIONS off (asynq.debug.disable_complex_assertions()), KEEP_DEPENDENCIES on;
  * for flush bodies that finish their own batch (f<s>-<how>): how the body ends afterwards - returns, raises, or
    tries to set its items again (which raises FutureIsAlreadyComputed out of the body).
The scheduler is never run on these objects; every history runs under an interval-timer watchdog (CPU time of this
process, so a loaded machine cannot trip it); a history that trips it is run once more with a 3x budget and counts
as a mismatch (hang) only if it trips again."""
import contextlib
import gc
import json
import os
import signal
import sys

devnull = open(os.devnull, "w")
real_out = os.fdopen(os.dup(1), "w")
os.dup2(devnull.fileno(), 1)
sys.stdout = devnull
os.dup2(devnull.fileno(), 2)

import asynq
from asynq import batching
from asynq import debug as adebug
from asynq.batching import BatchBase, BatchCancelledError, BatchingError, BatchItemBase, DebugBatch, DebugBatchItem


class VErr(Exception):
    __bool__ = lambda self: sum(map(ord, str(self.args))) % 2 == 0       # unusual but legal: about half of the exception objects are falsy

    def __init__(self, code):
        Exception.__init__(self, code)
        self.code = code


class VBase(BaseException):          # a BaseException subclass that is not an Exception
    def __init__(self, code):
        BaseException.__init__(self, code)
        self.code = code


class Hang(BaseException):
    pass


HANG_S = 3.0          # CPU seconds without finishing one history (a history normally takes ~0.1 ms)
hung = [0]


def on_alarm(signum, frame):
    hung[0] += 1
    signal.setitimer(signal.ITIMER_VIRTUAL, HANG_S)      # keep interrupting until the history gives up
    raise Hang()


MODES = ("default", "noeca", "keepdeps")
ROTATE = os.environ.get("C11_ROTATE_MODES") == "1"
ENDINGS = ("ret", "raise", "more")


@contextlib.contextmanager
def options_mode(mode):
    if mode == "noeca":
        with adebug.disable_complex_assertions():
            yield
    elif mode == "keepdeps":
        old = adebug.options.KEEP_DEPENDENCIES
        adebug.options.KEEP_DEPENDENCIES = True
        try:
            yield
        finally:
            adebug.options.KEEP_DEPENDENCIES = old
    else:
        yield


def code(e):
    if e is None:
        return "ok"
    if isinstance(e, Hang):
        return "HANG"
    if isinstance(e, (VErr, VBase)):
        return e.code
    if isinstance(e, BatchCancelledError):
        return "bce"
    if isinstance(e, BatchingError):
        return "BatchingError"
    if isinstance(e, AssertionError) and "set" in str(e).lower():
        return "notset"
    return type(e).__name__


class B(BatchBase):
    def __init__(self, env):
        BatchBase.__init__(self)
        self.env = env
        env.register(self)

    def _try_switch_active_batch(self):
        if self.env.active is self:
            self.env.active = B(self.env)

    def _flush(self):
        env = self.env
        b = env.bindex(self)
        env.runs[b] = env.runs.get(b, 0) + 1
        mine = [(env.iindex[id(it)][1], it) for it in list(self.items)]
        body = env.body
        if body.startswith("f"):          # f<s>-<how>: finish the own batch half-way, then end as env.ending says
            first, how = body[1], body[3:]
            if first == "1" and mine:
                mine[0][1].set_value("v%d.%d" % (b, mine[0][0]))
            if how == "cancel_e":
                self.cancel(VErr("ce"))
            elif how == "cancel":
                self.cancel()
            elif how == "seterr":
                self.set_error(VErr("se"))
            elif how == "setval":
                self.set_value(None)
            if env.ending == "raise":
                raise VErr("fe")
            if env.ending == "more":
                for i, it in mine:
                    it.set_value("v%d.%d" % (b, i))
            return
        if body == "new":
            env.add_item(event=True)
        for i, it in mine:
            if body in ("all", "new"):
                it.set_value("v%d.%d" % (b, i))
            elif body == "some":
                if i % 2 == 1:
                    it.set_value("v%d.%d" % (b, i))
            elif body == "evens":
                if i % 2 == 0:
                    it.set_value("v%d.%d" % (b, i))
            elif body == "lastraise":
                if i == len(mine):
                    it.set_value("v%d.%d" % (b, i))
            elif body == "ierr":
                if i % 2 == 1:
                    it.set_error(VErr("ie"))
                else:
                    it.set_value("v%d.%d" % (b, i))
            elif body in ("raise", "braise"):
                if i == 1:
                    it.set_value("v%d.%d" % (b, i))
        if body in ("raise", "lastraise"):
            raise VErr("fe")
        if body == "braise":
            raise VBase("fb")


class It(BatchItemBase):
    pass


class Env(object):
    def __init__(self, kind, body, serial, ending=None):
        self.kind = kind
        self.body = body
        self.ending = ending
        self.batches = []        # creation order; model index = position + 1
        self.count = {}          # b -> items created in batch b
        self.items = {}          # (b, i) -> item
        self.iindex = {}         # id(item) -> (b, i)
        self.keep = []
        self.runs = {}
        self.events = []
        self.active = None
        if kind == "own":
            self.active = B(self)
        else:
            self.name = "c11-%d" % serial
            batching._debug_batch_state.batches.clear()
            first = DebugBatch(self.name)
            batching._debug_batch_state.batches[self.name] = first
            self.discover()

    # -- bookkeeping
    def register(self, batch):
        self.batches.append(batch)
        b = len(self.batches)
        self.count[b] = 0

        def announced(_):
            left = sum(1 for (bb, _i), it in self.items.items() if bb == b and not it.is_computed())
            try:
                c = code(batch.error()) if batch.is_computed() else "uncomputed"
            except BaseException as e:
                c = "error()raised:" + code(e)
            self.events.append("b%d=%s%s" % (b, c, "!u%d" % left if left else ""))
        batch.on_computed.subscribe(announced)
        return b

    def bindex(self, batch):
        for k, x in enumerate(self.batches):
            if x is batch:
                return k + 1
        return self.register(batch)

    def current(self):
        if self.kind == "own":
            return self.active
        return batching._debug_batch_state.batches.get(self.name)

    def discover(self):
        cur = self.current()
        if cur is not None:
            self.bindex(cur)

    def track(self, item, b):
        self.count[b] += 1
        i = self.count[b]
        self.items[(b, i)] = item
        self.iindex[id(item)] = (b, i)

        def announced(_):
            if not item.is_computed():
                c = "uncomputed"
            else:
                try:
                    v = item.value()
                    c = v if isinstance(v, str) else repr(v)
                except BaseException as e:
                    c = code(e)
            self.events.append("i%d.%d=%s" % (b, i, c))
        item.on_computed.subscribe(announced)
        if self.kind == "debug" and self.body == "new" and i == 1:
            # a follow-up request issued while the built-in batch is being flushed: from the first item's completion callback
            # (a cancellation completes the item too, with an error: no follow-up then - the model's body does not run)
            item.on_computed.subscribe(lambda _f: self.add_item(event=True) if _f.error() is None else None)
        return i

    def add_item(self, event=False):
        """A new request through the active-batch pointer.  Returns (b, i)."""
        self.discover()
        cur = self.current()
        if self.kind == "own":
            b = self.bindex(cur)
            item = It(cur)
        else:
            b = self.bindex(cur) if cur is not None else len(self.batches) + 1
            item = DebugBatchItem(self.name, "v%d.%d" % (b, self.count.get(b, 0) + 1))
            b = self.bindex(item.batch)
        i = self.track(item, b)
        if event:
            self.events.append("n%d.%d" % (b, i))
        return b, i

    def direct(self, batch):
        b = self.bindex(batch)
        item = It(batch) if self.kind == "own" else BatchItemBase(batch)
        return b, self.track(item, b)


def canon(events):
    """The order among consecutive item announcements is not prescribed: sort each maximal run."""
    out, run = [], []
    for e in events:
        if e.startswith("i") or e.startswith("n"):      # a request made during the flush: canonical position = before the items
            run.append(e)
        else:
            out += sorted(run, key=lambda x: (0 if x.startswith("n") else 1, x))
            run = []
            out.append(e)
    return out + sorted(run, key=lambda x: (0 if x.startswith("n") else 1, x))


def tf(fn):
    try:
        return "t" if fn() else "f"
    except BaseException as e:
        return "raised:" + code(e)


def run_history(kind, body, pre, ops, serial, ending=None):
    env = Env(kind, body, serial, ending)
    for _ in range(pre):             # requests made before the history starts
        env.add_item()
    got = []
    for o in ops:
        op, b, i = o["o"], o["b"], o["i"]
        env.events = []
        batch = env.batches[b - 1] if 0 < b <= len(env.batches) else None
        if op == "add":
            try:
                bb, ii = env.add_item()
                r = ["joined", bb, ii]
            except BaseException as e:
                r = ["raised", code(e)]
        elif op == "direct":
            try:
                bb, ii = env.direct(batch)
                r = ["joined", bb, ii]
            except BaseException as e:
                r = ["raised", code(e)]
        elif op == "flush":
            try:
                batch.flush()
                r = ["ok"]
            except BaseException as e:
                r = ["raised", code(e)]
        elif op in ("cancel", "cancel_e"):
            try:
                if op == "cancel":
                    batch.cancel()
                else:
                    batch.cancel(VErr("ce"))
                r = ["ok"]
            except BaseException as e:
                r = ["raised", code(e)]
        elif op == "ivalue":
            item = env.items[(b, i)]
            try:
                v = item.value()
                r = ["val", v if isinstance(v, str) else repr(v)]
            except BaseException as e:
                r = ["err", code(e)]
        elif op == "bvalue":
            try:
                batch.value()
                r = ["ok"]
            except BaseException as e:
                r = ["err", code(e)]
        elif op == "berror":
            try:
                r = ["errq", code(batch.error())]
            except BaseException as e:
                r = ["raised", code(e)]
        elif op == "query":
            r = ["q", tf(batch.is_flushed), tf(batch.is_cancelled), tf(batch.is_empty), tf(batch.is_computed)]
        else:
            r = ["?"]
        env.discover()
        n = -1 if (kind == "debug" or b == 0) else env.runs.get(b, 0)
        got.append({"r": r, "a": canon(env.events), "n": n})
        if hung[0]:
            got[-1]["hang"] = True
            break
    return got


def guarded(c, serial, mode, ending, budget=HANG_S):
    """One execution of a history under a watchdog; returns (got, diff)."""
    ops = c["h"]
    hung[0] = 0
    signal.setitimer(signal.ITIMER_VIRTUAL, budget)
    try:
        try:
            with options_mode(mode):
                got = run_history(c["kind"], c["body"], c.get("pre", 0), ops, serial, ending)
        finally:
            signal.setitimer(signal.ITIMER_VIRTUAL, 0)
    except Hang:
        return "hang (history did not finish within %.0f CPU seconds)" % budget, [0]
    except BaseException as e:
        return "harness exception %s: %s" % (type(e).__name__, e), [0]
    if hung[0]:
        return got, [len(got) - 1]
    return got, [j for j, (o, g) in enumerate(zip(ops, got)) if not same(o, g)]


def same(exp, g):
    r = list(exp["r"])
    if r != ["any"]:
        if len(r) != len(g["r"]) or any(x != "any" and x != y for x, y in zip(r, g["r"])):
            return False
    return list(exp["a"]) == g["a"] and exp["n"] == g["n"]


def main():
    cases = json.load(sys.stdin)
    signal.signal(signal.SIGVTALRM, on_alarm)
    gc.freeze()                      # the loaded cases are not garbage: keep the collector off them
    out = []
    execs = hangs = 0
    for k, c in enumerate(cases):
        fin = c["body"].startswith("f")
        salt = len(c["h"][0]["a"]) + c["h"][-1]["b"] + k
        for mi, mode in enumerate(MODES):
            bad = None
            if ROTATE and mi and "variant" not in c and mi != 1 + salt % 2:
                continue        # thorough tier, deep histories: default options + one other setting per history
            # a self-finishing body: every ending under the default options, one ending (rotating over the
            # histories) under each other option setting; a stored replay case names its variant
            if "variant" in c:
                if c["variant"][0] != mode:
                    continue
                endings = (c["variant"][1] if fin else None,)
            elif not fin:
                endings = (None,)
            elif mode == "default":
                endings = ENDINGS
            else:
                endings = (ENDINGS[(salt + mi) % 3],)
            for ending in endings:
                if hangs >= 3:
                    bad = ("not run: 3 histories hung before this one", [0], mode, ending)
                    break
                execs += 1
                got, diff = guarded(c, k, mode, ending)
                if diff and (hung[0] or (isinstance(got, str) and got.startswith("hang"))):
                    execs += 1
                    got, diff = guarded(c, k, mode, ending, 3 * HANG_S)
                if diff:
                    if hung[0] or (isinstance(got, str) and got.startswith("hang")):
                        hangs += 1
                    bad = (got, diff, mode, ending)
                    break
            if bad:
                out.append({"i": k, "got": bad[0], "diff": bad[1], "mode": bad[2], "ending": bad[3] or "ret"})
                break
    out.append({"n": len(cases), "execs": execs})
    json.dump(out, real_out)
    real_out.flush()


main()
