"""Realise a P-lang program with real asynq objects, run it, and record the observable events.

Runs inside the build under test (PYTHONPATH=<scratch build>).  Everything is observed through the
public API: generated @asynq() bodies, BatchBase/BatchItemBase/AsyncContext subclasses, the
scheduler's on_before/after_batch_flush hooks, on_computed subscriptions, get_priority().

Event records are JSON objects; field meanings (DESIGN.md appendix A):
  e   event name            t   task id           k   segment index / misc int
  a,b misc ints             u   exception uid     v   value   s  struct   xs  list of ints
Values / structs share one shape {"g": tag, "n": int, "xs": [...]} (TLC cannot compare mixed types).
"""
import gc
import json
import os
import signal
import sys

import asynq
from asynq import scheduler as _sched
from asynq.batching import BatchBase, BatchItemBase
from asynq.contexts import AsyncContext, NonAsyncContext
from asynq.futures import ConstFuture, ErrorFuture, Future
from asynq.futures import FutureBase as _FutureBase
from asynq import scoped_value as _sv
from asynq import tools as _tools

FID0 = 100000
import threading
_tls = threading.local()


def fid_of(t, k, pos):
    return FID0 + t * 1000 + k * 50 + pos


def V(g, n=0, xs=()):
    return {"g": g, "n": n, "xs": list(xs)}


VNONE = V("none")


class IV(object):
    """value of a batch item"""
    __slots__ = ("fid",)

    def __init__(self, fid):
        self.fid = fid


class R(object):
    """result of a task: its id and everything it received"""
    __slots__ = ("t", "recvs")

    def __init__(self, t, recvs):
        self.t = t
        self.recvs = list(recvs)


class Caught(object):
    __slots__ = ("vid",)

    def __init__(self, vid):
        self.vid = vid


from asynq.async_task import AsyncTask as _AsyncTask


class _HelperFn(object):
    """the 'function' handed to amap(): its .asynq(x) is the child task; calling it runs the child synchronously"""

    def __init__(self, run, u, by):
        self.run, self.u, self.by = run, u, by

    def asynq(self, _x):
        run, u = self.run, self.u
        obj = run.task_obj.get(u)
        if obj is None:
            f, a, kw = run.target(u, self.by)
            obj = f.asynq(*a, **kw)
            run.register_task(u, obj, self.by)
        return obj

    def __call__(self, _x):
        return self.run.sync_call(self.by, self.u)      # (a helper that calls its function synchronously shows up as a nested wait)


class VTask(_AsyncTask):
    """a user-defined task class (@asynq(cls=VTask)): must be scheduled like any AsyncTask"""


class VFuture(Future):
    """a user-defined subclass of the lazily computed Future"""


THREAD_YIELD = False      # set by realize_threads.py


class VBaseErr(BaseException):
    """an error that derives from BaseException only (like KeyboardInterrupt): `except Exception` does not catch it"""

    def __init__(self, vid):
        BaseException.__init__(self, "vbase-%d" % vid)
        self._vvid = vid

    def __bool__(self):          # unusual but legal: an exception object that is falsy (like one defining __len__)
        return self._vvid % 2 == 0


class VErr(Exception):
    """exception raised by the program / harness; vid = schedule independent id"""

    def __init__(self, vid):
        Exception.__init__(self, "verr-%d" % vid)
        self._vvid = vid

    def __bool__(self):          # unusual but legal: an exception object that is falsy (like one defining __len__)
        return self._vvid % 2 == 0


class HangError(BaseException):
    pass


class ArgsLost(Exception):
    """a task body did not receive the arguments it was called with"""


_DEDUP_BODY = '''
    run = _tls.run if shared else me_run
    t = run.obj_id[id(_sched.get_active_task())]
    gen = run._interp(t)
    v = exc = None
    while True:          # manual delegation: `yield from` would turn a thrown GeneratorExit-family error into close()
        try:
            y = gen.send(v) if exc is None else gen.throw(exc)
        except StopIteration as si:
            return si.value
        try:
            v = yield y
            exc = None
        except GeneratorExit as ge:
            if type(ge) is GeneratorExit:
                gen.close()
                raise
            exc = ge
        except BaseException as e:
            exc = e
'''

_DEDUP_SRC = ('''
@dd
@asynq.asynq()
def dfn({sig}):''' + _DEDUP_BODY + '''

class DHolder(object):
    def __len__(self):
        return 0            # a falsy instance (an empty container): binding, keys and dirty() must test "is None"

    @dd
    @asynq.asynq()
    def dm(self, {sig}):''' + _DEDUP_BODY.replace("\n    ", "\n        ") + '''

    @dd
    @asynq.asynq()
    @staticmethod
    def ds({sig}):''' + _DEDUP_BODY.replace("\n    ", "\n        ") + "\n")


class Run(object):
    def __init__(self, prog, schedule=None, tiebreak_seed=None, options=None, shared_dfns=None):
        self.prog = prog
        self.finished = False
        self.unbound = {}
        self.vclock = 0
        self.options = options
        self.schedule = schedule      # list of kinds, one per scheduler flush round (steering) or None
        self.tb_seed = tiebreak_seed  # int: pseudo-random tie-break order per round, or None
        self.events = []
        self.ntasks = len(prog["tasks"])
        self.task_obj = {}            # t -> AsyncTask
        self.obj_id = {}              # id(obj) -> future id
        self.keep = []                # keep every object alive so id() stays unique
        self.fns = {}
        self.active_batch = {}        # kind -> VBatch | None
        self.batch_count = {}
        self.round = 0                # scheduler flush rounds begun
        self.in_sched_flush = []      # stack of batch ids between Before and After
        self.uid = 0
        self.leafobjs = []
        self.yielded_batches = set()  # batches some task yielded as such: their flush is forced by the wait, not chosen by the scheduler
        self.helper_obj = {}          # child task id -> the amap() task through which it is started
        self.callers = []             # who is calling into asynq right now: "direct" (item.value() from a body) / "sync"
        self.debug_bids = {}          # id(DebugBatch) -> batch id
        self.last_struct = {}         # t -> [(fid, obj)]
        nv = prog.get("nvars", 0)
        self.svars = [None] + [_sv.AsyncScopedValue(None if (i == nv and nv >= 2) else 0) for i in range(1, nv + 1)]
        self.attrobj = _AttrObj(prog.get("nvars", 0))
        self.ctx_objs = {}
        self.depth = 0
        for t in range(1, self.ntasks + 1):
            self.fns[t] = self._make_fn(t)
        self.dfns = {}
        for tdef in prog["tasks"]:
            d = tdef.get("dedup")
            if d and d["fn"] not in self.dfns:
                if shared_dfns is not None:
                    # one decorated function object shared by every thread (C16: the dedup scope is per thread)
                    if d["fn"] not in shared_dfns:
                        shared_dfns[d["fn"]] = self._make_dedup_fn(d["fn"], shared=True)
                    self.dfns[d["fn"]] = shared_dfns[d["fn"]]
                else:
                    self.dfns[d["fn"]] = self._make_dedup_fn(d["fn"])

    # -- recording -------------------------------------------------------------------------------
    def emit(self, e, **kw):
        if self.finished:
            return          # e.g. a suspended generator of an abandoned task being closed by the garbage collector later on
        kw["e"] = e
        self.events.append(kw)
        if e == "SegBegin":
            self.vclock += kw["t"]      # virtual time (read by AsyncTimer contexts) passes in task code only
        elif e == "SegEnd":
            self.vclock += 1

    def exc_ids(self, exc):
        """(vid, uid) of an exception instance; first sight assigns them."""
        uid = getattr(exc, "_vuid", None)
        if uid is None:
            self.uid += 1
            uid = self.uid
            try:
                exc._vuid = uid
            except Exception:
                pass
        vid = getattr(exc, "_vvid", None)
        if vid is None:
            vid = self.classify(exc)
            try:
                exc._vvid = vid
            except Exception:
                pass
        return vid, uid

    @staticmethod
    def classify(exc):
        if isinstance(exc, AssertionError):
            if "wasn't set on batch flush" in str(exc):
                return 40000
            if "cannot yield while" in str(exc):
                return 70000
            return 41000
        if isinstance(exc, TypeError) and "Cannot unwrap" in str(exc):
            return 50000
        if isinstance(exc, RuntimeError) and "exceeded maximum threshold" in str(exc):
            return 80000
        if isinstance(exc, GeneratorExit):
            return 98000
        if type(exc).__name__ == "FutureIsAlreadyComputed":
            return 97000
        if type(exc).__name__ == "BatchingError":
            return 96000
        return 99999

    def new_err(self, vid):
        e = VErr(vid)
        self.exc_ids(e)
        return e

    def enc(self, x):
        if x is None:
            return VNONE
        if isinstance(x, bool):
            return V("c", int(x))
        if isinstance(x, int):
            return V("c", x)
        if isinstance(x, IV):
            return V("iv", x.fid)
        if isinstance(x, R):
            return V("r", x.t, [self.enc(y) for y in x.recvs])
        if isinstance(x, Caught):
            return V("caught", x.vid)
        if isinstance(x, tuple):
            return V("tup", 0, [self.enc(y) for y in x])
        if isinstance(x, list):
            return V("lst", 0, [self.enc(y) for y in x])
        if isinstance(x, dict):
            return V("dct", 0, [self.enc(x[k]) for k in sorted(x)])
        if isinstance(x, BaseException):
            return V("x", self.exc_ids(x)[0])
        if id(x) in self.obj_id:
            return V("fut", self.obj_id[id(x)])
        return V("opaque", 0)

    def _term_struct(self, t, k):
        tm = self.prog["tasks"][t - 1]["segs"][k - 1]["term"]
        if tm.get("reuse"):
            base = self.prog["tasks"][t - 1]["segs"][tm["reuse"] - 1]["term"]["s"]
            if tm["s"]["g"] == "Lst":
                return {"g": "Lst", "n": 0, "xs": base["xs"] + tm["s"]["xs"]}
            return base
        return tm["s"]

    def _unhelper(self, sdef, got):
        """the value of a child started through amap(F, [0]) arrives as [r]: hand the body r, as if it had yielded the child"""
        g = sdef["g"]
        if not self._has_helper(sdef):
            return got          # untouched: the very object asynq handed over (aliasing between receivers must stay visible)
        if g in ("Tup", "Lst") and isinstance(got, (tuple, list)) and len(got) == len(sdef["xs"]):
            out = [self._unhelper(x, y) for x, y in zip(sdef["xs"], got)]
            return tuple(out) if g == "Tup" else out
        if g == "Dct" and isinstance(got, dict):
            return dict(("k%d" % (i + 1), self._unhelper(x, got.get("k%d" % (i + 1)))) for i, x in enumerate(sdef["xs"]))
        if g == "T" and self.prog["tasks"][sdef["n"] - 1].get("via") == "amap" and isinstance(got, list) and len(got) == 1:
            return got[0]
        return got

    def _has_helper(self, sdef):
        if sdef["g"] == "T":
            return self.prog["tasks"][sdef["n"] - 1].get("via") == "amap"
        return any(self._has_helper(x) for x in sdef.get("xs", ()))

    def probe_reprs(self):
        """formatting any live asynq object is a diagnostic: it must not compute, start or change anything"""
        if len(self.keep) > 60:
            return
        for o in list(self.task_obj.values()) + self.keep[:40]:
            try:
                repr(o)
                str(o)
            except Exception:
                pass

    def active_id(self):
        a = _sched.get_active_task()
        if a is None:
            return 0
        return self.obj_id.get(id(a), -1)

    def probe(self):
        s = _sched.get_scheduler()
        held = 0
        for name in dir(s):
            if name.startswith("__") or name in ("on_before_batch_flush", "on_after_batch_flush"):
                continue
            try:
                val = getattr(s, name)
            except Exception:
                continue
            if isinstance(val, (list, tuple, set, frozenset)):
                held += sum(1 for x in val if isinstance(x, _AsyncTask) or isinstance(x, BatchItemBase))
            elif isinstance(val, dict):
                held += sum(1 for x in list(val.values()) + list(val.keys()) if isinstance(x, _AsyncTask))
        return max(held, len(s._tasks)), len(s._batches)

    # -- futures ---------------------------------------------------------------------------------
    def register_task(self, t, obj, by):
        self.task_obj[t] = obj
        self.obj_id[id(obj)] = t
        self.keep.append(obj)
        self.emit("Create", t=t, a=by)
        obj.on_computed.subscribe(lambda f, t=t: self._done(t, f))

    def _done(self, fid, fut):
        err = fut._error if fut.is_computed() else None
        if err is not None:
            vid, uid = self.exc_ids(err)
            self.emit("Done", a=fid, v=V("x", vid), u=uid)
        else:
            self.emit("Done", a=fid, v=self.enc(fut._value), u=0)

    def get_task(self, u, by):
        obj = self.task_obj.get(u)
        if obj is None and self.prog["tasks"][u - 1].get("via") == "amap":
            # the child is started through asynq's own helper: amap(F, [0]) with F.asynq(0) = the child task.  The helper's
            # task is what the parent yields; its value [r] is unwrapped again by the parent's body (see _unhelper)
            w = self.helper_obj.get(u)
            if w is None:
                from asynq.tools import amap
                w = amap.asynq(_HelperFn(self, u, by), [0])
                self.helper_obj[u] = w
                self.keep.append(w)
            return w
        if obj is None:
            if (u + by) % 4 == 0:
                from asynq import async_call
                f, a, kw = self.target(u, by)
                obj = async_call.asynq(f, *a, **kw)       # "not sure whether fn is async": must hand back fn.asynq()
            else:
                f, a, kw = self.target(u, by)
                obj = f.asynq(*a, **kw)
            self.register_task(u, obj, by)
        return obj

    @staticmethod
    def spelling(d):
        """the same key, written in different ways (positional / keyword / default): dfn(a=1, b=0)"""
        k, sp = -d["key"], d.get("spell", 0)      # keys -1, -2: hash(-1) == hash(-2) in CPython
        if d["fn"] > 10:
            # (a=-1, *rest, b=0): two surplus positionals; the keyword-only default spelled out or left out
            return ((k, 7, ("b", 0)), {}) if sp % 2 == 0 else ((k, 7, ("b", 0)), {"b": 0})
        if sp == 0:
            return (k,), {}
        if sp == 1:
            return (k, 0), {}
        if sp == 2:
            return (), {"a": k}
        if sp == 4 and k == -1:
            return (), {}                 # every parameter left to its default
        if sp == 5:
            return (), {"b": 0, "a": k}
        return (k,), {"b": 0}

    def dedup_call(self, t, u):
        d = self.prog["tasks"][u - 1]["dedup"]
        args, kwargs = self.spelling(d)
        obj = self.dfns[d["fn"]][d.get("bind", "fn")].asynq(*args, **kwargs)
        if not isinstance(obj, _FutureBase):
            self.emit("DedupCall", t=t, a=u, b=0)       # not a future: the call returned a plain value
            return obj, u
        w = self.obj_id.get(id(obj))
        if w is None:
            self.register_task(u, obj, t)
            w = u
        self.emit("DedupCall", t=t, a=u, b=w)
        return obj, w

    def build(self, t, k, s, pos):
        """Evaluate a Struct left to right.  Returns (python object, resolved struct).  pos: [int]
        running leaf counter."""
        g = s["g"]
        if g in ("Tup", "Lst", "Dct"):
            objs, res = [], []
            for x in s["xs"]:
                o, r = self.build(t, k, x, pos)
                objs.append(o)
                res.append(r)
            if g == "Tup":
                return tuple(objs), V("Tup", 0, res)
            if g == "Lst":
                return objs, V("Lst", 0, res)
            return dict(("k%d" % (i + 1), o) for i, o in enumerate(objs)), V("Dct", 0, res)
        pos[0] += 1
        p = pos[0]
        if g == "Rep":
            pair = self.leafobjs[s["n"] - 1]         # the very same object as leaf n of this structure
            self.leafobjs.append(pair)
            return pair
        if g == "N":
            self.leafobjs.append((None, V("N")))
            return None, V("N")
        if g == "Bad":
            self.leafobjs.append((7, V("Bad")))
            return 7, V("Bad")
        if g == "T":
            u = s["n"]
            obj = self.get_task(u, t)
            self.last_struct[t].append((u, obj))
            self.leafobjs.append((obj, V("F", u)))
            return obj, V("F", u)
        if g == "B":
            # the (pending) batch object of that kind itself: waiting for it computes - i.e. flushes - it on the spot
            b = self.active_batch.get(s["n"])
            if b is None:
                b = VBatch(self, s["n"])
                self.active_batch[s["n"]] = b
            self.obj_id[id(b)] = b.bid
            self.yielded_batches.add(b.bid)
            self.last_struct[t].append((b.bid, b))
            self.leafobjs.append((b, V("F", b.bid)))
            return b, V("F", b.bid)
        if g == "D":
            obj, w = self.dedup_call(t, s["n"])
            self.last_struct[t].append((w, obj))
            self.leafobjs.append((obj, V("F", w)))
            return obj, V("F", w)
        fid = fid_of(t, k, p)
        if g == "I":
            if self.prog["kinds"][s["n"] - 1].get("impl") == "debug":
                obj = make_debug_item(self, s["n"], fid, t)
            else:
                obj = VItem(self, s["n"], fid, t)
        elif g == "C":
            obj = ConstFuture(s["n"])
            self.emit("NewFut", a=fid, b=1, v=V("c", s["n"]), u=0)
        elif g == "E":
            err = self.new_err(200000 + fid - FID0)
            obj = ErrorFuture(err)
            self.emit("NewFut", a=fid, b=2, v=V("x", err._vvid), u=err._vuid)
        elif g == "L":
            obj = (VFuture if fid % 2 else Future)(lambda fid=fid: self._provide(fid, True))
            obj.on_computed.subscribe(lambda f, fid=fid: self._done(fid, f))
            self.emit("NewFut", a=fid, b=3, v=VNONE, u=0)
        elif g == "LF":
            obj = (VFuture if fid % 2 else Future)(lambda fid=fid: self._provide(fid, False))
            obj.on_computed.subscribe(lambda f, fid=fid: self._done(fid, f))
            self.emit("NewFut", a=fid, b=4, v=VNONE, u=0)
        else:
            raise ValueError("bad struct tag %r" % g)
        self.obj_id[id(obj)] = fid
        self.keep.append(obj)
        self.last_struct[t].append((fid, obj))
        self.leafobjs.append((obj, V("F", fid)))
        return obj, V("F", fid)

    def _provide(self, fid, ok):
        self.emit("Provider", a=fid)
        if ok:
            return IV(fid)
        raise self.new_err(300000 + fid - FID0)

    # -- contexts --------------------------------------------------------------------------------
    def make_ctx(self, c, t):
        d = self.prog["ctxs"][c - 1]
        ty = d["type"]
        if ty == "async":
            obj = VCtx(self, c, t, d.get("faulty", "-"))
        elif ty == "timer":
            obj = VTimer()
            obj._vinit(self, c, t)
        elif ty == "nonasync":
            obj = VNonAsync(self, c, t)
        elif ty == "cleanup":
            obj = VCleanup(self, c, t, d["var"])
        elif ty == "oapi":
            obj = VOverrideApi(self, c, t, self.svars[d["var"]], d["val"])
        elif ty == "override":
            obj = VOverride(self.svars[d["var"]], d["val"])
            obj._vinit(self, c, t)
        elif ty == "attr":
            obj = VAttrOverride(self.attrobj, "a%d" % d["var"], d["val"])
            obj._vinit(self, c, t)
        else:
            raise ValueError(ty)
        self.ctx_objs[c] = obj
        self.keep.append(obj)
        return obj

    def sv_snapshot(self):
        n = self.prog.get("nvars", 0)
        vals = [self.svars[i].get() for i in range(1, n + 1)] + [getattr(self.attrobj, "a%d" % i) for i in range(1, n + 1)]
        return [-1 if v is None else v for v in vals]

    # -- task bodies -----------------------------------------------------------------------------
    def _make_dedup_fn(self, g, shared=False):
        """the deduplicated function number g, as a plain function, as a method of two instances and as a static method:
        ONE deduplicate() decorator object applied to all of them.  g <= 10: signature (a=-1, b=0); g > 10: signature
        (a=-1, *rest, b=0) - extra positionals and a keyword-only parameter with a default (see spelling())."""
        from asynq.tools import deduplicate
        me_run = self
        sig = "a=-1, b=0" if g <= 10 else "a=-1, *rest, b=0"
        ns = {"dd": deduplicate(), "asynq": asynq, "_sched": _sched, "_tls": _tls, "shared": shared, "me_run": me_run}
        exec(_DEDUP_SRC.replace("{sig}", sig), ns)
        dfn, DHolder = ns["dfn"], ns["DHolder"]
        dfn.__name__ = "dfn%d" % g
        h1, h2 = DHolder(), DHolder()
        me_run.keep += [h1, h2]
        return {"fn": dfn, "inst1": h1.dm, "inst2": h2.dm, "static": DHolder.ds}

    def _make_fn(self, t):
        run = self
        if t % 2 == 1:
            # odd tasks are instance methods of an object that is falsy (empty container): binding must not
            # depend on the truth value of the instance, whichever calling convention is used
            class Holder(object):
                def __len__(self):
                    return 0

                @asynq.asynq()
                def body(self, tag=None, *, kw=None):
                    assert isinstance(self, Holder)
                    run.check_args(t, tag, kw)
                    gen = run._interp(t)
                    v = exc = None
                    while True:          # manual delegation: `yield from` would turn a thrown GeneratorExit-family error into close()
                        try:
                            y = gen.send(v) if exc is None else gen.throw(exc)
                        except StopIteration as si:
                            return si.value
                        try:
                            v = yield y
                            exc = None
                        except GeneratorExit as ge:
                            if type(ge) is GeneratorExit:
                                gen.close()
                                raise
                            exc = ge
                        except BaseException as e:
                            exc = e

            h = Holder()
            self.keep.append(h)
            self.unbound[t] = (Holder.body, h)      # the same method reached through the class: Holder.body.asynq(h, ...)
            return h.body

        if t % 4 == 2:
            @asynq.asynq(pure=True, cls=VTask)
            def pbody(tag=None, *, kw=None):
                run.check_args(t, tag, kw)
                gen = run._interp(t)
                v = exc = None
                while True:          # manual delegation: `yield from` would turn a thrown GeneratorExit-family error into close()
                    try:
                        y = gen.send(v) if exc is None else gen.throw(exc)
                    except StopIteration as si:
                        return si.value
                    try:
                        v = yield y
                        exc = None
                    except GeneratorExit as ge:
                        if type(ge) is GeneratorExit:
                            gen.close()
                            raise
                        exc = ge
                    except BaseException as e:
                        exc = e

            # a pure function of a custom task class, given the usual conventions by hand
            class _Conv(object):
                def asynq(self, *a, **kw):
                    return pbody(*a, **kw)

                def __call__(self, *a, **kw):
                    return pbody(*a, **kw).value()

            return _Conv()

        @asynq.asynq()
        def body(tag=None, *, kw=None):
            run.check_args(t, tag, kw)
            gen = run._interp(t)
            v = exc = None
            while True:          # manual delegation: `yield from` would turn a thrown GeneratorExit-family error into close()
                try:
                    y = gen.send(v) if exc is None else gen.throw(exc)
                except StopIteration as si:
                    return si.value
                try:
                    v = yield y
                    exc = None
                except GeneratorExit as ge:
                    if type(ge) is GeneratorExit:
                        gen.close()
                        raise
                    exc = ge
                except BaseException as e:
                    exc = e

        body.__name__ = "task%d" % t
        return body

    def check_args(self, t, tag, kw):
        """every task function is called with (t, kw=t): the body must receive exactly that, whichever convention was used"""
        if tag != t or kw != t:
            raise ArgsLost("task %d received tag=%r kw=%r" % (t, tag, kw))

    def target(self, u, by):
        """(callable, positional args, keyword args) for task u: the bound method, or - for some callers - the same method
        reached through its class with the instance passed explicitly"""
        if u in self.unbound and (u + by) % 3 == 1:
            f, h = self.unbound[u]
            return f, (h, u), {"kw": u}
        return self.fns[u], (u,), {"kw": u}

    def _interp(self, t):
        run = self
        tdef = self.prog["tasks"][t - 1]
        segs = tdef["segs"]
        if True:
            me = _sched.get_active_task()
            if t not in run.task_obj and me is not None:
                run.register_task(t, me, 0)      # created by a plain synchronous call fn()
            recvs = []
            yielded = {}
            open_ctx = []
            recv = None
            ru = 0
            try:
                k = 0
                while True:
                    k += 1
                    seg = segs[k - 1]
                    unc = [f for (f, o) in run.last_struct.get(t, ()) if not o.is_computed()]
                    run.emit("SegBegin", t=t, k=k, v=run.enc(recv), u=ru, a=run.active_id(), xs=unc)
                    run.probe_reprs()
                    entered_in_seg = 0
                    for op in seg["ops"]:
                      o = op["o"]
                      try:
                            if o == "enter":
                                ctx = run.make_ctx(op["a"], t)
                                ctx.__enter__()
                                open_ctx.append(ctx)
                                entered_in_seg += 1
                            elif o == "exit":
                                hit = [x for x in open_ctx if getattr(x, "_c", None) == op["a"]]
                                if hit:
                                    ctx = hit[0]        # usually the innermost one; out of order = __exit__ called by hand
                                    open_ctx.remove(ctx)
                                    entered_in_seg = max(0, entered_in_seg - 1)
                                    if op.get("c"):
                                        # try: with ctx: ... / except Exception: pass - an error raised while the block is
                                        # being left (a pause() that raises) is caught; the block HAS been left
                                        try:
                                            ctx.__exit__(None, None, None)
                                        except Exception as e:
                                            run.exc_ids(e)
                                    else:
                                        ctx.__exit__(None, None, None)
                                # else: the block was already left by a caught exception (try around the with)
                            elif o == "read":
                                a = op["a"]
                                val = run.svars[a].get() if a < 100 else getattr(run.attrobj, "a%d" % (a - 100))
                                run.emit("Read", t=t, a=a, v=V("c", -1) if val is None else run.enc(val))
                            elif o == "set":
                                # a plain assignment to the scoped value / attribute (inside an override of it)
                                a = op["a"]
                                if a < 100:
                                    run.svars[a].set(op["v"])
                                else:
                                    setattr(run.attrobj, "a%d" % (a - 100), op["v"])
                                run.emit("Set", t=t, a=a, b=op["v"])
                            elif o == "cancelb":
                                # cancel the pending active batch of that kind from task code (its waiters get the error)
                                b = run.active_batch.get(op["a"])
                                if b is not None and not b.is_computed():
                                    run.emit("CancelBegin", b=b.bid, t=t)
                                    b.cancel(run.new_err(32000 + op["a"]))
                            elif o == "fail":
                                # complete another, suspended or not yet started, task from outside with an error
                                obj = run.task_obj.get(op["a"])
                                # only tasks that are suspended (contexts paused) or not started: failing one's own ancestor
                                # would pause its active contexts underneath the running task's
                                if obj is not None and not obj.is_computed() and not obj.running and not obj._contexts_active:
                                    run.emit("Kill", t=t, a=op["a"])
                                    obj.set_error(run.new_err(33000 + op["a"]))
                            elif o == "sync":
                                val = run.sync_call(t, op["a"])
                                recvs.append(val)
                            elif o == "spawn":
                                run.get_task(op["a"], t)
                            elif o == "ival":
                                # create a request and ask for its value at once: item.value() flushes its batch directly
                                fid = fid_of(t, k, 30 + seg["ops"].index(op))
                                if run.prog["kinds"][op["a"] - 1].get("impl") == "debug":
                                    it = make_debug_item(run, op["a"], fid, t)
                                else:
                                    it = VItem(run, op["a"], fid, t)
                                run.callers.append("direct")
                                try:
                                    val = it.value()
                                except BaseException as e:
                                    run.callers.pop()
                                    vid, uid = run.exc_ids(e)
                                    run.emit("IVal", t=t, a=fid, v=V("x", vid), u=uid)
                                    raise
                                run.callers.pop()
                                run.emit("IVal", t=t, a=fid, v=run.enc(val), u=0)
                                recvs.append(val)
                            elif o == "dirty":
                                d = run.prog["tasks"][op["a"] - 1]["dedup"]
                                args, kwargs = run.spelling(d)
                                run.dfns[d["fn"]][d.get("bind", "fn")].dirty(*args, **kwargs)
                                run.emit("Dirty", t=t, a=op["a"])
                            else:
                                raise ValueError(o)
                      except BaseException:
                        run.emit("SegEnd", t=t, k=k, b=6, s=V("N"), a=run.active_id())
                        raise
                    term = seg["term"]
                    tk = term["k"]
                    if tk == "yield":
                        if term.get("reuse"):
                            obj, res, run.last_struct[t] = yielded[term["reuse"]]      # the very same object again
                            if term["s"]["g"] == "Lst":
                                # ... after appending new futures to it (the object is a list)
                                run.leafobjs = []
                                keep_ls = run.last_struct[t]
                                run.last_struct[t] = []
                                more, mres = run.build(t, k, term["s"], [0])
                                obj.extend(more)
                                res = V("Lst", 0, res["xs"] + mres["xs"])
                                run.last_struct[t] = keep_ls + run.last_struct[t]
                        else:
                            run.last_struct[t] = []
                            run.leafobjs = []
                            obj, res = run.build(t, k, term["s"], [0])
                            yielded[k] = (obj, res, list(run.last_struct[t]))
                        run.emit("SegEnd", t=t, k=k, b=1, s=res, a=run.active_id())
                        try:
                            got = yield obj
                            got = run._unhelper(run._term_struct(t, k), got)
                            recv = _snapshot(got)
                            _poison(got)           # whatever asynq handed us is ours: nobody else may see these changes
                            ru = 0
                            recvs.append(recv)
                        except GeneratorExit as ge:
                            if type(ge) is GeneratorExit:
                                run.emit("Closed", t=t, k=k)
                                raise
                            # a failure of the GeneratorExit family (AsyncTaskCancelledError) delivered at the yield
                            vid, uid = run.exc_ids(ge)
                            unc = [f for (f, o) in run.last_struct.get(t, ()) if not o.is_computed()]
                            run.emit("SegBegin", t=t, k=k + 1, v=V("x", vid), u=uid, a=run.active_id(), xs=unc)
                            run.emit("SegEnd", t=t, k=k + 1, b=5, s=V("N"), a=run.active_id())
                            raise
                        except BaseException as e:
                            vid, uid = run.exc_ids(e)
                            if term.get("catch") and isinstance(e, Exception):
                                if term.get("cscope"):
                                    # the try encloses the with-blocks entered in this segment: they are left by the exception
                                    for _ in range(entered_in_seg):
                                        open_ctx.pop().__exit__(type(e), e, e.__traceback__)
                                recv = e
                                ru = uid
                                recvs.append(Caught(vid))
                            else:
                                unc = [f for (f, o) in run.last_struct.get(t, ()) if not o.is_computed()]
                                run.emit("SegBegin", t=t, k=k + 1, v=V("x", vid), u=uid, a=run.active_id(), xs=unc)
                                run.emit("SegEnd", t=t, k=k + 1, b=5, s=V("N"), a=run.active_id())
                                raise
                    elif tk == "return":
                        run.emit("SegEnd", t=t, k=k, b=2, s=V("N"), a=run.active_id())
                        while open_ctx:
                            open_ctx.pop().__exit__(None, None, None)
                        if term.get("ret"):
                            return run.task_obj[term["ret"]]      # a created-but-never-awaited task, handed out as a value
                        return R(t, recvs)
                    elif tk == "result":
                        run.emit("SegEnd", t=t, k=k, b=3, s=V("N"), a=run.active_id())
                        asynq.result(R(t, recvs))
                    elif tk == "raise":
                        run.emit("SegEnd", t=t, k=k, b=4, s=V("N"), a=run.active_id())
                        raise run.new_err(10000 + t * 100 + k)
                    elif tk == "raisec":
                        run.emit("SegEnd", t=t, k=k, b=4, s=V("N"), a=run.active_id())
                        from asynq.async_task import AsyncTaskCancelledError
                        e = AsyncTaskCancelledError()
                        e._vvid = 600000 + t * 100 + k
                        run.exc_ids(e)
                        raise e
                    elif tk == "raiseb":
                        run.emit("SegEnd", t=t, k=k, b=4, s=V("N"), a=run.active_id())
                        e = VBaseErr(500000 + t * 100 + k)
                        run.exc_ids(e)
                        raise e
                    else:
                        raise ValueError(tk)
            except BaseException as e:
                # leave the with-blocks that are still open exactly as nested `with` statements would
                err = e
                while open_ctx:
                    ctx = open_ctx.pop()
                    try:
                        if err is None:
                            ctx.__exit__(None, None, None)
                        elif ctx.__exit__(type(err), err, err.__traceback__):
                            # the context manager swallowed the exception, as a `with` statement would let it
                            run.emit("Swallowed", t=t, a=getattr(ctx, "_c", 0))
                            err = None
                    except BaseException as e2:
                        err = e2
                if err is None:
                    return None
                if err is e:
                    raise
                raise err

    def sync_call(self, t, u):
        """synchronous call of task u from inside task t's body (re-entrant wait_for)"""
        self.emit("SyncBegin", t=t, a=u)
        self.depth += 1
        self.callers.append("sync")
        try:
            return self._sync_call(t, u)
        finally:
            self.callers.pop()

    def _sync_call(self, t, u):
        try:
            obj = self.task_obj.get(u)
            if obj is None:
                f, a, kw = self.target(u, t)
                val = f(*a, **kw)
            else:
                val = obj.value()
        except BaseException as e:
            self.depth -= 1
            vid, uid = self.exc_ids(e)
            nt, nb = self.probe()
            self.emit("SyncEnd", t=t, a=u, v=V("x", vid), u=uid, b=self.active_id(), k=nt)
            raise
        self.depth -= 1
        nt, nb = self.probe()
        self.emit("SyncEnd", t=t, a=u, v=self.enc(val), u=0, b=self.active_id(), k=nt)
        return val

    # -- driver ----------------------------------------------------------------------------------
    def run(self):
        from asynq import _debug, profiler
        import asynq.scheduler as schedmod
        old_max = _debug.options.MAX_TASK_STACK_SIZE
        saved = {}
        if "maxstack" in self.prog:
            _debug.options.MAX_TASK_STACK_SIZE = self.prog["maxstack"]
        opts = self.options or {}
        clock = opts.get("_clock")
        old_utime, old_time = schedmod.utime, schedmod.time
        _install_vclock()
        _tls.run = self
        try:
            for k, v in opts.items():
                if not k.startswith("_"):
                    saved[k] = getattr(_debug.options, k)
                    setattr(_debug.options, k, v)
            self.saved_opts = saved
            if clock:
                fake = _FakeClock(clock)
                schedmod.utime = fake.utime
                schedmod.time = fake
            return self._run()
        finally:
            _debug.options.MAX_TASK_STACK_SIZE = old_max
            for k, v in saved.items():
                setattr(_debug.options, k, v)
            schedmod.utime, schedmod.time = old_utime, old_time
            _tls.run = None
            stats = profiler.flush()                 # this thread's profiler buffer (also empties it)
            self.nprof = len(stats)
            self.prof_names = [str(x.get("name")).split("(")[0][:60] for x in stats]     # "<per-thread id>.<function>"

    def _run(self):
        _sched.reset()
        s = _sched.get_scheduler()
        s.on_before_batch_flush.subscribe(self._before)
        s.on_after_batch_flush.subscribe(self._after)
        for call in self.prog["calls"]:
            root = call["root"]
            conv = call.get("conv", "call")
            self.emit("CallBegin", t=root, a={"call": 1, "value": 2}[conv])
            try:
                if conv == "call" and root not in self.task_obj:
                    f, a, kw = self.target(root, 0)
                    out = f(*a, **kw)
                elif conv == "value" and call is self.prog["calls"][0] and root not in self.task_obj and \
                        len(self.prog["tasks"]) % 2 == 0 and os.environ.get("VERIF_HANDOVER") == "1":
                    # hand-over: the task object is created, THEN the thread's scheduler is replaced (scheduler.reset(), a
                    # no-op for the specification: nothing has run yet), then the task is computed - by whatever scheduler
                    # the thread has now.  State that belongs to the thread must not have been captured by the object.
                    tk = self.get_task(root, 0)
                    _sched.reset()
                    s = _sched.get_scheduler()
                    s.on_before_batch_flush.subscribe(self._before)
                    s.on_after_batch_flush.subscribe(self._after)
                    out = tk.value()
                else:
                    out = self.get_task(root, 0).value()
                ev = dict(v=self.enc(out), u=0)
            except HangError:
                raise
            except BaseException as e:
                vid, uid = self.exc_ids(e)
                ev = dict(v=V("x", vid), u=uid)
            nt, nb = self.probe()
            self.emit("CallEnd", t=root, a=self.active_id(), k=nt, b=nb, xs=self.sv_snapshot(), **ev)
        return self.events

    def _before(self, batch):
        bid = getattr(batch, "bid", None)
        if bid is None:
            bid = self.debug_bids.get(id(batch), -1)
        self.round += 1
        self.in_sched_flush.append(bid)
        self.emit("Before", b=bid)
        if id(batch) in self.debug_bids:
            # DebugBatch has no harness _flush: its flush is observed from here
            self.emit("FlushBegin", b=bid, a=1, xs=[self.obj_id.get(id(i), -1) for i in batch.items])

    def _after(self, batch):
        bid = getattr(batch, "bid", None)
        if bid is None:
            bid = self.debug_bids.get(id(batch), -1)
        if self.in_sched_flush and self.in_sched_flush[-1] == bid:
            self.in_sched_flush.pop()
        self.emit("After", b=bid)


def _snapshot(x):
    if isinstance(x, list):
        return [_snapshot(y) for y in x]
    if isinstance(x, tuple):
        return tuple(_snapshot(y) for y in x)
    if isinstance(x, dict):
        return dict((k, _snapshot(v)) for k, v in x.items())
    return x


def _poison(x):
    if isinstance(x, list):
        for y in x:
            _poison(y)
        x.append("poison")
    elif isinstance(x, tuple):
        for y in x:
            _poison(y)
    elif isinstance(x, dict):
        for y in list(x.values()):
            _poison(y)
        x["zz-poison"] = "poison"


class _FakeClock(object):
    """scripted clock for the profiling code: every reading advances by `step` microseconds"""

    def __init__(self, step):
        self.step = step
        self.now = 1700000000 * 1000000

    def utime(self):
        self.now += self.step
        return self.now

    def time(self):
        self.now += self.step
        return self.now / 1000000.0


class _AttrObj(object):
    def __init__(self, n):
        for i in range(1, n + 1):
            setattr(self, "a%d" % i, 0)


class VBatch(BatchBase):
    def __init__(self, run, kind):
        pre = getattr(run, "saved_opts", None)
        if pre and kind % 2 == 1 and not run.batch_count.get(kind) and threading.active_count() == 1:
            # a service's active batch usually exists before anybody turns a debug option on (it was created when the
            # previous one was flushed): the first batch of every odd kind is constructed under the options as they
            # were before this run switched its own on (single-threaded runs only: the options are process-global)
            from asynq import _debug
            cur = dict((k, getattr(_debug.options, k)) for k in pre)
            for k, v in pre.items():
                setattr(_debug.options, k, v)
            try:
                BatchBase.__init__(self)
            finally:
                for k, v in cur.items():
                    setattr(_debug.options, k, v)
        else:
            BatchBase.__init__(self)
        self.run = run
        self.kind = kind
        n = run.batch_count.get(kind, 0) + 1
        run.batch_count[kind] = n
        self.bid = kind * 1000 + n
        run.keep.append(self)
        run.emit("NewBatch", b=self.bid, a=kind)
        self.on_computed.subscribe(self._on_done)

    def _on_done(self, _):
        self.run.emit("BatchDone", b=self.bid, a=0 if self._error is None else 1)
        self.run._done(self.bid, self)          # a batch is a future too (a task may yield the batch object itself)

    def _try_switch_active_batch(self):
        if self.run.active_batch.get(self.kind) is self:
            self.run.active_batch[self.kind] = None

    def get_priority(self):
        run = self.run
        kd = run.prog["kinds"][self.kind - 1]
        base = kd.get("base", 0)
        n = len(self.items)
        if run.schedule is not None:
            r = run.round  # rounds already begun; this selection is for round r+1
            tb = 1 if (r < len(run.schedule) and run.schedule[r] == self.kind) else 0
            p = (base, n, tb)
        elif run.tb_seed is not None:
            tb = (run.tb_seed * 7919 + run.round * 104729 + self.kind * 1299709) % 1000003
            p = (base, n, tb)
        else:
            tb = 0
            p = (base, n)
            if base == 0:
                p = BatchBase.get_priority(self)        # natural runs: the library's own default priority decides
                n = p[1]
        if THREAD_YIELD:
            import time
            time.sleep(0)       # several threads at once (C16): let another thread run in the middle of the selection loop
        run.emit("Prio", b=self.bid, xs=[base, n, tb])
        return p

    def flush(self):
        # mode "throw": the flush completes, then flush() itself raises (a failing flush as the scheduler sees it)
        BatchBase.flush(self)
        by_sched = bool(self.run.in_sched_flush) and self.run.in_sched_flush[-1] == self.bid
        if by_sched and self.run.prog["kinds"][self.kind - 1].get("flush") == "throw":
            raise self.run.new_err(31000 + self.kind)

    def _flush(self):
        run = self.run
        by = 0 if (run.callers and run.callers[-1] == "direct") else 1
        if self.bid in run.yielded_batches and not (run.in_sched_flush and run.in_sched_flush[-1] == self.bid):
            by = 0      # computed inline because a task waits for the batch object itself
        items = list(self.items)
        run.emit("FlushBegin", b=self.bid, a=by, xs=[i.fid for i in items])
        mode = run.prog["kinds"][self.kind - 1].get("flush", "ok")
        try:
            if mode in ("ok", "throw"):
                for it in items:
                    it.set_value(IV(it.fid))
            elif mode == "itemerr":
                for j, it in enumerate(items):
                    if it.fid % 2 == 1:
                        it.set_error(run.new_err(20000 + self.kind))
                    else:
                        it.set_value(IV(it.fid))
            elif mode == "skip":
                for j, it in enumerate(items):
                    if it.fid % 2 == 0:
                        it.set_value(IV(it.fid))
            elif mode == "raise":
                for j, it in enumerate(items):
                    if it.fid % 2 == 0:
                        it.set_value(IV(it.fid))
                raise run.new_err(30000 + self.kind)
            elif mode == "nest":
                # the flush body itself calls asynq synchronously (e.g. to look something up): a nested wait_for,
                # which may have to flush another batch while this flush is still in progress
                for it in items:
                    it.set_value(IV(it.fid))
                kd_ = run.prog["kinds"][self.kind - 1]
                if not kd_.get("nestself") or self.bid % 1000 == 1:       # nestself: only the first batch of the kind nests
                    run.sync_call(0, kd_["nest"])
            elif mode == "spawn":
                for it in items:
                    it.set_value(IV(it.fid))
                VItem(run, self.kind, fid_of(90 + self.kind, self.bid % 1000 % 20, 1), 0)
            else:
                raise ValueError(mode)
        except BaseException as e:
            vid, uid = run.exc_ids(e)
            run.emit("FlushEnd", b=self.bid, a=1, u=uid, v=V("x", vid))
            raise
        run.emit("FlushEnd", b=self.bid, a=0, u=0, v=VNONE)


class VItem(BatchItemBase):
    def __init__(self, run, kind, fid, t):
        b = run.active_batch.get(kind)
        if b is None:
            b = VBatch(run, kind)
            run.active_batch[kind] = b
        BatchItemBase.__init__(self, b)
        self.fid = fid
        run.obj_id[id(self)] = fid
        run.keep.append(self)
        run.emit("NewItem", a=fid, b=b.bid, t=t)
        self.on_computed.subscribe(lambda f: run._done(fid, f))


def make_debug_item(run, kind, fid, t):
    """an item of asynq's built-in DebugBatch (thread-local registry asynq.batching._debug_batch_state)"""
    from asynq.batching import DebugBatchItem
    it = DebugBatchItem("verif-k%d" % kind, IV(fid))
    b = it.batch
    if id(b) not in run.debug_bids:
        n = run.batch_count.get(kind, 0) + 1
        run.batch_count[kind] = n
        bid = kind * 1000 + n
        run.debug_bids[id(b)] = bid
        run.keep.append(b)
        run.emit("NewBatch", b=bid, a=kind)

        def on_done(_b, bid=bid):
            run.emit("FlushEnd", b=bid, a=0, u=0, v=VNONE)
            run.emit("BatchDone", b=bid, a=0 if _b._error is None else 1)
            run._done(bid, _b)
        b.on_computed.subscribe(on_done)
    try:
        it.fid = fid
    except AttributeError:
        pass                # compiled build: DebugBatchItem is an extension type without a __dict__; run.obj_id has the id
    run.obj_id[id(it)] = fid
    run.keep.append(it)
    run.emit("NewItem", a=fid, b=run.debug_bids[id(b)], t=t)
    it.on_computed.subscribe(lambda f: run._done(fid, f))
    return it


class _CtxMixin(object):
    def _vinit(self, run, c, t):
        self._run = run
        self._c = c
        self._t = t
        self._faulty = "-"
        self._npause = 0
        self._nresume = 0


class VCtx(AsyncContext, _CtxMixin):
    def __init__(self, run, c, t, faulty="-"):
        self._vinit(run, c, t)
        self._faulty = faulty

    def __enter__(self):
        self._run.emit("Enter", a=self._c, t=self._t)
        return AsyncContext.__enter__(self)

    def __exit__(self, ty, val, tb):
        self._run.emit("Exit", a=self._c, t=self._t)
        self._in_exit = True
        try:
            return AsyncContext.__exit__(self, ty, val, tb)
        finally:
            self._in_exit = False

    def resume(self):
        self._nresume += 1
        self._run.emit("Resume", a=self._c)
        if (self._faulty == "resume" and self._nresume == 2) or (self._faulty == "resume_always" and self._nresume >= 2):
            raise self._run.new_err(90000 + self._c)

    def pause(self):
        self._npause += 1
        self._run.emit("Pause", a=self._c)
        if (self._faulty == "pause" and self._npause == 1) or self._faulty == "pause_always" or \
                (self._faulty == "pause_exit" and getattr(self, "_in_exit", False)):
            # pause_exit: the context objects to being left (a check made on exit): only the pause issued by __exit__ raises
            raise self._run.new_err(90000 + self._c)


_vclock_lock = threading.Lock()


def _install_vclock():
    """asynq.tools.utime (the clock AsyncTimer reads) -> the virtual clock of the Run executing on this thread"""
    import asynq.tools as tools
    with _vclock_lock:
        if getattr(tools.utime, "_verif", False):
            return
        real = tools.utime

        def utime():
            run = getattr(_tls, "run", None)
            return real() if run is None else run.vclock
        utime._verif = True
        tools.utime = utime


class VTimer(_tools.AsyncTimer, _CtxMixin):
    """the library's AsyncTimer itself, observed: total_time is reported when the with-block has been left"""

    def __enter__(self):
        self._run.emit("Enter", a=self._c, t=self._t)
        return _tools.AsyncTimer.__enter__(self)

    def __exit__(self, ty, val, tb):
        self._run.emit("Exit", a=self._c, t=self._t)
        try:
            return _tools.AsyncTimer.__exit__(self, ty, val, tb)
        finally:
            self._run.emit("Timer", a=self._c, b=self.total_time)

    def resume(self):
        self._run.emit("Resume", a=self._c)
        return _tools.AsyncTimer.resume(self)

    def pause(self):
        self._run.emit("Pause", a=self._c)
        return _tools.AsyncTimer.pause(self)


class VNonAsync(NonAsyncContext, _CtxMixin):
    def __init__(self, run, c, t):
        self._vinit(run, c, t)

    def __enter__(self):
        self._run.emit("Enter", a=self._c, t=self._t)
        return NonAsyncContext.__enter__(self)

    def __exit__(self, ty, val, tb):
        self._run.emit("Exit", a=self._c, t=self._t)
        return NonAsyncContext.__exit__(self, ty, val, tb)


class VCleanup(_CtxMixin):
    """a plain (non-asynq) context manager whose cleanup calls asynq code synchronously, like a `finally:` block"""

    def __init__(self, run, c, t, target):
        self._vinit(run, c, t)
        self._target = target

    def __enter__(self):
        self._run.emit("Enter", a=self._c, t=self._t)
        return self

    def __exit__(self, ty, val, tb):
        self._run.emit("Exit", a=self._c, t=self._t)
        self._run.sync_call(self._t, self._target)
        return False


class VOverride(_sv._AsyncScopedValueOverrideContext, _CtxMixin):
    def __enter__(self):
        self._run.emit("Enter", a=self._c, t=self._t)
        return _sv._AsyncScopedValueOverrideContext.__enter__(self)

    def __exit__(self, ty, val, tb):
        self._run.emit("Exit", a=self._c, t=self._t)
        return _sv._AsyncScopedValueOverrideContext.__exit__(self, ty, val, tb)

    def resume(self):
        self._run.emit("Resume", a=self._c)
        return _sv._AsyncScopedValueOverrideContext.resume(self)

    def pause(self):
        self._run.emit("Pause", a=self._c)
        return _sv._AsyncScopedValueOverrideContext.pause(self)


class VOverrideApi(_CtxMixin):
    """`with sv.override(v):` written with the PUBLIC API: whatever AsyncScopedValue.override() hands out is used as it is
    (it cannot be subclassed for recording, so its resume / pause are not observed - only entering, leaving and every read)"""

    def __init__(self, run, c, t, sv, val):
        self._vinit(run, c, t)
        self._sv, self._val, self._inner = sv, val, None

    def __enter__(self):
        self._run.emit("Enter", a=self._c, t=self._t)
        self._inner = self._sv.override(self._val)
        self._inner.__enter__()
        return self

    def __exit__(self, ty, val, tb):
        self._run.emit("Exit", a=self._c, t=self._t)
        return self._inner.__exit__(ty, val, tb)


class VAttrOverride(_sv._AsyncPropertyOverrideContext, _CtxMixin):
    def __enter__(self):
        self._run.emit("Enter", a=self._c, t=self._t)
        return _sv._AsyncPropertyOverrideContext.__enter__(self)

    def __exit__(self, ty, val, tb):
        self._run.emit("Exit", a=self._c, t=self._t)
        return _sv._AsyncPropertyOverrideContext.__exit__(self, ty, val, tb)

    def resume(self):
        self._run.emit("Resume", a=self._c)
        return _sv._AsyncPropertyOverrideContext.resume(self)

    def pause(self):
        self._run.emit("Pause", a=self._c)
        return _sv._AsyncPropertyOverrideContext.pause(self)


# ------------------------------------------------------------------------------------------------


def _alarm(signum, frame):
    raise HangError()


def run_program(prog, schedule=None, tb_seed=None, timeout=10, options=None):
    """Run one program; returns {"events": [...], "hang": bool, "crash": str|None}"""
    run = Run(prog, schedule=schedule, tiebreak_seed=tb_seed, options=options)
    old = signal.signal(signal.SIGALRM, _alarm)
    signal.setitimer(signal.ITIMER_REAL, timeout)
    hang = False
    crash = None
    try:
        run.run()
    except HangError:
        hang = True
    except BaseException as e:  # harness failure (not an asynq outcome: those are caught in run())
        crash = "%s: %s" % (type(e).__name__, e)
    finally:
        signal.setitimer(signal.ITIMER_REAL, 0)
        signal.signal(signal.SIGALRM, old)
    if hang:
        run.emit("Hang")
    run.finished = True
    return {"events": list(run.events), "hang": hang, "crash": crash}


def main():
    """stdin: JSON {"jobs": [{"prog": P, "schedule": [...]|null, "tb": int|null, "id": any}]}
    stdout: JSON list of {"id":..., "events": [...], ...}"""
    devnull = open(os.devnull, "w")
    real_out = os.fdopen(os.dup(1), "w")
    os.dup2(devnull.fileno(), 1)      # asynq diagnostics write to the captured sys.stdout / fd 1
    os.dup2(devnull.fileno(), 2)
    sys.stdout = devnull
    req = json.load(sys.stdin)
    out = []
    gc.disable()
    for n, job in enumerate(req["jobs"]):
        r = run_program(job["prog"], job.get("schedule"), job.get("tb"), timeout=req.get("timeout", 10), options=job.get("options"))
        r["id"] = job.get("id")
        out.append(r)
        if n % 200 == 199:
            gc.collect()
    json.dump(out, real_out, separators=(",", ":"))
    real_out.flush()


if __name__ == "__main__":
    main()
