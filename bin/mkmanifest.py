#!/usr/bin/env python3
"""Regenerate /verif/MANIFEST.json from the table below (kept in one place so it stays valid)."""
import json
import os

HERE = os.path.dirname(os.path.dirname(os.path.abspath(__file__)))
props = [json.loads(l) for l in open(os.path.join(HERE, "properties.jsonl"))]

CORE_NOTE = ("Assumes: bounded families (small-scope); the harness observes through public API subclasses and hooks; "
             "TLC + CommunityModules Json + the Python harness are trusted; Sched.tla does not model raising pause()/resume(). "
             "Every family is also run under four debug-option sets, with task functions called with arguments through bound and unbound "
             "paths, about half of the exception objects falsy and received structures mutated after use (aliasing).")
CORE_TECH = "TLA+ spec (Sched.tla) model-checked by TLC over program families x all tie-break schedules; every behaviour replayed into the real code; real traces validated by TLC against the monitor spec (TraceObs.tla) and against Sched.tla (TraceSched)"

CHECKS = {
    "C01": ("model_checking", "Sequential-evaluation oracle RefVal (PLang.tla) checked as invariant of Sched.tla for every program of the families under every schedule, and on every real trace (pure and Cython builds) by the TLC monitor; clauses C01.recv/ret/done/conv/sync.", "4.3, 6"),
    "C02": ("model_checking", "Fault positions are part of the program chosen in Init, so TLC enumerates programs x faults x schedules; clauses C02.first/same/after/type/deliver/prop evaluated on the model and on every real trace.", "4.3, 6"),
    "C03": ("model_checking", "C03.ready/once/order/lazy/term as invariants of Sched.tla and as monitor clauses on real traces; termination also as TLC liveness (<>Finished under WF) and by running chains 10^3..10^5 deep in the real code.", "4.3, 6"),
    "C04": ("model_checking", "C04.max (every uncompleted reachable task is started and blocked on an unflushed item at each scheduler flush) and C04.count (flushes = longest request chain) on Sched.tla for complete small families x all schedules and on every real trace.", "4.3, 6"),
    "C05": ("model_checking", "C05.once/nonempty/live/prio/items/events on Sched.tla (families over 2-3 kinds, all priority assignments, failing flushes, nested sync) and on every real trace; schedules steered through get_priority().", "4.3, 6"),
    "C06": ("model_checking", "C06.alt/run/flush/nonasync evaluated on the abstract observable state in Sched.tla and on every real trace (contexts spanning yields, nested, with sync re-entry and failures); C06.timer: asynq.tools.AsyncTimer itself under a virtual clock carried by Sched.tla must report exactly the time the property says the context was active for.", "4.3, 6, 0"),
    "C07": ("model_checking", "C07.lifo/read/restore on Sched.tla and on real traces with real AsyncScopedValue/async_override contexts; satellite ScopedCall.tla (enumerating oracle + operation-history machine, explored by TLC, every cell/history replayed) for tools.call_with_context around every kind of callee next to reading siblings and for the AsyncScopedValue / async_override API (get, call, set, nested overrides, exits by exception).", "4.3, 6, 14.3"),
    "C08": ("model_checking", "Sessions (several computations on one scheduler, faults, overflow, nested sync) in Sched.tla and in the real code: C08.active/clean on every trace; C08.fresh = the next computation's trace is a behaviour of the fresh-start specification (TraceSched).", "4.3, 6"),
    "C12": ("model_checking", "The deduplicate registry is part of Sched.tla (DedupCall, the completion callback, dirty()); the property's own reference registry lives in the monitor (Obs.tla: C12.share/again/sep); TLC explores programs issuing same/different-key calls in the same yield, in later steps while the first is blocked, between flushes, after completion, with dirty() at every position, under all schedules; real traces validated by the monitor; thread stage: the same deduplicated calls on 2 and 4 real threads at once must give every thread the events of its solo run (C12.thread).", "6 (C12), 14.6"),
}

checks = []
for pid, (cat, text, ref) in CHECKS.items():
    checks.append({
        "property_id": pid,
        "quick_cmd": "bin/check %s --tier quick" % pid,
        "thorough_cmd": "bin/check %s --tier thorough" % pid,
        "evidence_file": "/verif/evidence/%s.json" % pid,
        "replay_cmd_template": "bin/check %s --replay {path}" % pid,
        "engine": "tlc",
        "level_claimed": {"category": cat, "text": text, "design_ref": "DESIGN.md section " + ref},
        "level_note": CORE_NOTE,
        "technique": CORE_TECH,
    })

import glob
for f in sorted(glob.glob(os.path.join(HERE, "bin", "manifest.d", "*.json"))):
    c = json.load(open(f))
    checks = [x for x in checks if x["property_id"] != c["property_id"]] + [c]
checks.sort(key=lambda c: c["property_id"])
claimed = {c["property_id"] for c in checks}
NA_REASON = {}
na_file = os.path.join(HERE, "bin", "not_applicable.json")
if os.path.exists(na_file):
    NA_REASON = json.load(open(na_file))
na = [{"property_id": p["id"], "reason": NA_REASON.get(p["id"], "check not built yet (build in progress; planned in DESIGN.md section 6/7)")}
      for p in props if p["id"] not in claimed]

m = {
    "version": 1,
    "setup_cmd": "bin/setup",
    "hooks": {
        "guard": "ASYNQ_VERIF_TRACE",
        "enable": "none needed: checks observe through the public API (subclasses of BatchBase/BatchItemBase/AsyncContext, scheduler event hooks, generated @asynq bodies); no hook commit exists in /repo",
        "baseline_off_cmd": "/verif/bin/baseline_off",
        "source_commits": [],
        "add_only": True,
    },
    "engines": [
        {"name": "tlc", "path": "/opt/veriftools/tla/tla2tools.jar", "serves_properties": sorted(claimed),
         "kind_free_text": "TLC 1.8 explicit-state model checker; specs in /verif/specs"},
    ],
    "checks": checks,
    "not_applicable": na,
    "notes": "Every check builds scratch copies of /repo's working tree (pure Python, and Cython-compiled where the property names the compiled build) because /repo's ignored .so files shadow the .py sources.",
}
json.dump(m, open(os.path.join(HERE, "MANIFEST.json"), "w"), indent=1)
print("checks:", sorted(claimed), "n/a:", [x["property_id"] for x in na])
